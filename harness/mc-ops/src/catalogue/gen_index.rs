//! Generators: indexing, slicing and layout operators.

use super::*;
use crate::case::{AV, Case};
use crate::rt::{Dt, RT, numel};
use vp_core::Tier;

pub fn register(v: &mut Vec<Entry>) {
    v.push(Entry { op: "Gather", claimed: true, axes: "data shapes (rank 1-3) x indices shapes (rank 0-2, empty) x every axis (both spellings) x indices incl. negative x data dtypes x index dtypes", r#gen: gather });
    v.push(Entry { op: "GatherElements", claimed: true, axes: "data shapes x indices shapes (equal, smaller, longer along axis) x every axis x negative indices x dtypes", r#gen: gather_elements });
    v.push(Entry { op: "GatherND", claimed: true, axes: "data shapes x batch_dims 0/1 x last index dimension 1..rank x leading shapes x negative indices x dtypes", r#gen: gather_nd });
    v.push(Entry { op: "ScatterElements", claimed: true, axes: "data shapes x indices shapes x every axis x reduction none/add/mul/max/min/absent x unique and duplicate indices x dtypes", r#gen: scatter_elements });
    v.push(Entry { op: "ScatterND", claimed: true, axes: "data shapes x index depth 1..rank x reduction x unique and duplicate indices x dtypes", r#gen: scatter_nd });
    v.push(Entry { op: "Slice", claimed: true, axes: "1-D: full product starts x ends x steps (incl. negative, out of range, INT64/INT32 sentinels); 2-D/3-D: product of a reduced per-axis grid x axes choices (absent, all, subset, negative, reordered) x steps absent/present x index dtype; opset 1 attribute form", r#gen: slice });
    v.push(Entry { op: "Pad", claimed: true, axes: "modes constant/reflect/edge/wrap x per-axis pad grid (incl. negative for constant) x shapes rank 1-3 x constant_value presence x axes input presence x dtypes; opset 2 attribute form", r#gen: pad });
    v.push(Entry { op: "Concat", claimed: true, axes: "1-3 inputs x every axis (both spellings) x per-input extents along the axis (0,1,2,3) x shapes rank 1-3 x dtypes", r#gen: concat });
    v.push(Entry { op: "Split", claimed: true, axes: "shapes x every axis x {equal parts by output count (opset 11/13), split sizes attribute (11), split sizes input (13/18), num_outputs (18) even and uneven} x dtypes", r#gen: split });
    v.push(Entry { op: "Expand", claimed: true, axes: "every bidirectionally broadcastable (input shape, target shape) pair of ranks 0-3 over {1,2,3} x dtypes", r#gen: expand });
    v.push(Entry { op: "Tile", claimed: true, axes: "shapes rank 1-3 x repeats per axis from {0,1,2,3} x dtypes", r#gen: tile });
    v.push(Entry { op: "Transpose", claimed: true, axes: "shapes rank 0-4 x every permutation and absent perm x dtypes", r#gen: transpose });
    v.push(Entry { op: "Reshape", claimed: true, axes: "input shapes x target shapes with 0 / -1 / both x allowzero 0/1/absent x dtypes; opset 1 attribute form", r#gen: reshape });
    v.push(Entry { op: "Squeeze", claimed: true, axes: "shapes with unit dims x every subset of unit axes (both spellings), absent x {axes input (13), axes attribute (11)}", r#gen: squeeze });
    v.push(Entry { op: "Unsqueeze", claimed: true, axes: "shapes rank 0-3 x every set of 1-2 output axes (both spellings, unsorted) x {axes input (13), axes attribute (11)}", r#gen: unsqueeze });
    v.push(Entry { op: "Flatten", claimed: true, axes: "shapes rank 0-4 (incl. zero extents) x every axis in [-r, r] and default", r#gen: flatten });
    v.push(Entry { op: "Shape", claimed: true, axes: "shapes rank 0-4 x start/end in [-r-1, r+1] and absent x input dtypes", r#gen: shape });
    v.push(Entry { op: "Size", claimed: true, axes: "shapes rank 0-4 (incl. zero extents) x dtypes", r#gen: size });
    v.push(Entry { op: "Trilu", claimed: true, axes: "shapes rank 2-4 (square, wide, tall, unit, empty) x k in -4..4 and absent x upper 0/1/absent x dtypes", r#gen: trilu });
    v.push(Entry { op: "Range", claimed: true, axes: "start x limit x delta grids (positive, negative, empty results) for i32, i64, f32 (dyadic), f64", r#gen: range });
    v.push(Entry { op: "OneHot", claimed: true, axes: "indices shapes x every axis (both spellings, default) x depth x index dtypes x depth dtypes x values dtypes; negative and out-of-range indices", r#gen: one_hot });
    v.push(Entry { op: "ConstantOfShape", claimed: true, axes: "target shapes (rank 0-3, zero extents) x value tensor dtypes and absent", r#gen: constant_of_shape });
    v.push(Entry { op: "EyeLike", claimed: true, axes: "2-D shapes x k in -3..3 and absent x dtype attribute (absent, 5 types) x input dtypes", r#gen: eye_like });
    v.push(Entry { op: "DepthToSpace", claimed: true, axes: "blocksize 1,2,3 x mode DCR/CRD/absent x N,C,H,W grid x dtypes", r#gen: depth_to_space });
}

/// Index values cycling through the legal range of an axis of extent `dim`.
fn fill_index(dt: Dt, shape: &[usize], dim: usize, seed: usize, negative: bool) -> RT {
    let n = numel(shape);
    let d = dim.max(1) as i64;
    let data: Vec<f64> = (0..n)
        .map(|l| {
            let k = ((l * 5 + seed * 3) as i64) % (if negative { 2 * d } else { d });
            (if negative { k - d } else { k }) as f64
        })
        .collect();
    RT::new(dt, shape, data)
}

fn data_dts() -> Vec<Dt> {
    vec![Dt::F32, Dt::I32, Dt::I64, Dt::Bool, Dt::U8, Dt::I8, Dt::F64]
}

fn axis_cls(a: i64) -> &'static str {
    if a < 0 { "negative axis" } else { "axis" }
}

fn gather(tier: Tier) -> Vec<Case> {
    let mut out = Vec::new();
    let mut data_shapes: Vec<Vec<usize>> = vec![vec![3], vec![2, 3], vec![3, 2], vec![2, 3, 2], vec![1, 4]];
    if tier.is_thorough() {
        data_shapes.extend(vec![vec![5], vec![2, 3, 4, 2], vec![17, 3], vec![3, 17]]);
    }
    let idx_shapes: Vec<Vec<usize>> = vec![vec![], vec![1], vec![2], vec![4], vec![2, 2], vec![0], vec![1, 3]];
    for dt in data_dts() {
        for ds in &data_shapes {
            let r = ds.len() as i64;
            let data = fill_distinct(if dt == Dt::Bool { Dt::Bool } else { dt }, ds, 0);
            let data = if dt == Dt::Bool { fill_small(dt, ds, 0) } else { data };
            for axis in -r..r {
                let ax = if axis < 0 { axis + r } else { axis } as usize;
                for is in &idx_shapes {
                    for idt in [Dt::I64, Dt::I32] {
                        for neg in [false, true] {
                            let ind = fill_index(idt, is, ds[ax], 1, neg);
                            let cls = format!("{}; indices rank {}{}", axis_cls(axis), is.len(), if neg { "; negative indices" } else { "" });
                            out.push(Case::new("Gather", cls, vec![Some(data.clone()), Some(ind)]).attr_i("axis", axis));
                        }
                    }
                }
            }
            // default axis
            out.push(Case::new("Gather", "axis default", vec![Some(data.clone()), Some(fill_index(Dt::I64, &[2], ds[0], 0, false))]));
        }
    }
    out
}

fn gather_elements(tier: Tier) -> Vec<Case> {
    let mut out = Vec::new();
    let mut data_shapes: Vec<Vec<usize>> = vec![vec![3], vec![2, 3], vec![3, 2], vec![2, 3, 2]];
    if tier.is_thorough() {
        data_shapes.extend(vec![vec![5], vec![2, 3, 2, 2], vec![17, 2], vec![2, 17]]);
    }
    for dt in [Dt::F32, Dt::I32, Dt::I64, Dt::U8, Dt::Bool] {
        for ds in &data_shapes {
            let r = ds.len() as i64;
            let data = if dt == Dt::Bool { fill_small(dt, ds, 0) } else { fill_distinct(dt, ds, 0) };
            for axis in -r..r {
                let ax = if axis < 0 { axis + r } else { axis } as usize;
                // index shapes: same; 1 along axis; longer along axis; smaller on another dim; empty
                let mut idx_shapes: Vec<Vec<usize>> = vec![ds.clone()];
                let mut s = ds.clone();
                s[ax] = 1;
                idx_shapes.push(s);
                let mut s = ds.clone();
                s[ax] = ds[ax] + 2;
                idx_shapes.push(s);
                let mut s = ds.clone();
                s[ax] = 0;
                idx_shapes.push(s);
                for d in 0..ds.len() {
                    if d != ax && ds[d] > 1 {
                        let mut s = ds.clone();
                        s[d] -= 1;
                        idx_shapes.push(s);
                    }
                }
                for is in idx_shapes {
                    for idt in [Dt::I64, Dt::I32] {
                        for neg in [false, true] {
                            let ind = fill_index(idt, &is, ds[ax], 2, neg);
                            let off = (0..ds.len()).any(|d| d != ax && is[d] < ds[d]);
                            let cls = format!("{}{}{}", axis_cls(axis), if off { "; indices smaller than data on a non-axis dimension" } else { "" }, if neg { "; negative indices" } else { "" });
                            out.push(Case::new("GatherElements", cls, vec![Some(data.clone()), Some(ind)]).attr_i("axis", axis));
                        }
                    }
                }
            }
            out.push(Case::new("GatherElements", "axis default", vec![Some(data.clone()), Some(fill_index(Dt::I64, ds, ds[0], 0, false))]));
        }
    }
    out
}

/// Index tuples for GatherND/ScatterND: `lead` leading shape, last dimension `k`,
/// tuple component j indexes an axis of extent dims[j].
fn fill_nd_index(lead: &[usize], k: usize, dims: &[usize], seed: usize, negative: bool, unique: bool) -> RT {
    let mut shape = lead.to_vec();
    shape.push(k);
    let ntuples = numel(lead);
    let space: usize = dims[..k].iter().product::<usize>().max(1);
    let mut data = Vec::new();
    for t in 0..ntuples {
        // a linear position in the indexed space
        let lin = if unique { (t + seed) % space } else { (t * 2 + seed) % space.min(2).max(1) };
        let mut rem = lin;
        let mut comp = vec![0i64; k];
        for j in (0..k).rev() {
            comp[j] = (rem % dims[j].max(1)) as i64;
            rem /= dims[j].max(1);
        }
        for j in 0..k {
            let v = if negative && (t + j) % 2 == 0 { comp[j] - dims[j] as i64 } else { comp[j] };
            data.push(v as f64);
        }
    }
    RT::new(Dt::I64, &shape, data)
}

fn gather_nd(tier: Tier) -> Vec<Case> {
    let mut out = Vec::new();
    let mut data_shapes: Vec<Vec<usize>> = vec![vec![3], vec![2, 3], vec![2, 3, 2]];
    if tier.is_thorough() {
        data_shapes.extend(vec![vec![2, 2, 3, 2], vec![5, 3]]);
    }
    for dt in [Dt::F32, Dt::I32, Dt::I64, Dt::U8, Dt::Bool] {
        for ds in &data_shapes {
            let r = ds.len();
            let data = if dt == Dt::Bool { fill_small(dt, ds, 0) } else { fill_distinct(dt, ds, 0) };
            // batch_dims = 0
            for k in 1..=r {
                for lead in [vec![], vec![1], vec![3], vec![2, 2], vec![0]] {
                    for neg in [false, true] {
                        let ind = fill_nd_index(&lead, k, ds, 1, neg, true);
                        let cls = format!("batch_dims 0; {}{}", if k == r { "full index" } else { "partial index" }, if neg { "; negative indices" } else { "" });
                        out.push(Case::new("GatherND", cls.clone(), vec![Some(data.clone()), Some(ind.clone())]));
                        out.push(Case::new("GatherND", cls, vec![Some(data.clone()), Some(ind)]).attr_i("batch_dims", 0));
                    }
                }
            }
            // batch_dims = 1
            if r >= 2 {
                for k in 1..=(r - 1) {
                    for lead_rest in [vec![], vec![2], vec![1, 2]] {
                        let mut lead = vec![ds[0]];
                        lead.extend(lead_rest.clone());
                        let ind = fill_nd_index(&lead, k, &ds[1..], 1, false, true);
                        out.push(Case::new("GatherND", "batch_dims 1", vec![Some(data.clone()), Some(ind)]).attr_i("batch_dims", 1));
                    }
                }
            }
        }
    }
    out
}

fn scatter_elements(tier: Tier) -> Vec<Case> {
    let mut out = Vec::new();
    let mut data_shapes: Vec<Vec<usize>> = vec![vec![4], vec![3, 3], vec![2, 3, 2]];
    if tier.is_thorough() {
        data_shapes.extend(vec![vec![2, 2, 3, 2], vec![17], vec![3, 17]]);
    }
    for dt in [Dt::F32, Dt::I32, Dt::I64, Dt::U8, Dt::Bool] {
        for ds in &data_shapes {
            let r = ds.len() as i64;
            let data = fill_small(dt, ds, 0);
            let mut axes: Vec<Option<i64>> = vec![None];
            for a in -r..r {
                axes.push(Some(a));
            }
            for axis in axes {
                let a = axis.unwrap_or(0);
                let ax = if a < 0 { a + r } else { a } as usize;
                // index shapes: full (unique along axis via permutation), shorter, single
                let mut idx_shapes: Vec<Vec<usize>> = vec![ds.clone()];
                let mut s = ds.clone();
                s[ax] = 1;
                idx_shapes.push(s);
                if ds[ax] > 2 {
                    let mut s = ds.clone();
                    s[ax] = 2;
                    idx_shapes.push(s);
                }
                for d in 0..ds.len() {
                    if d != ax && ds[d] > 1 {
                        let mut s = ds.clone();
                        s[d] -= 1;
                        idx_shapes.push(s);
                    }
                }
                let mut s = ds.clone();
                s[ax] = 0;
                idx_shapes.push(s);
                for is in idx_shapes {
                    for reduction in [None, Some("none"), Some("add"), Some("mul"), Some("max"), Some("min")] {
                        for (dup, neg) in [(false, false), (false, true), (true, false)] {
                            if dup && matches!(reduction, None | Some("none")) {
                                continue;
                            }
                            // unique: position i along the axis -> (i + lane) % dim (a permutation when is[ax] <= dim)
                            let dim = ds[ax];
                            let ind = RT::from_fn(Dt::I64, &is, |idx| {
                                let lane: usize = idx.iter().enumerate().filter(|(d, _)| *d != ax).map(|(_, v)| *v).sum();
                                let v = if dup { (idx[ax] / 2 + lane) % dim } else { (idx[ax] + lane) % dim };
                                if neg && (idx[ax] + lane) % 2 == 0 { v as f64 - dim as f64 } else { v as f64 }
                            });
                            if !dup && is[ax] > dim {
                                continue;
                            }
                            let upd = if dt == Dt::Bool { fill_small(dt, &is, 3) } else { fill_table(dt, &is, &[7.0, 1.0, 2.0, 9.0, 4.0, 6.0, 8.0], 1, 1) };
                            let off_axis_smaller = (0..ds.len()).any(|d| d != ax && is[d] < ds[d]);
                            let cls = if off_axis_smaller { "indices smaller than data on a non-axis dimension" } else { "indices match data on the non-axis dimensions" }.to_string();
                            for idt in [Dt::I64, Dt::I32] {
                                let mut c = Case::new("ScatterElements", cls.clone(), vec![Some(data.clone()), Some(ind.clone().with_dt(idt)), Some(upd.clone())]).vclass("");
                                if let Some(a) = axis {
                                    c = c.attr_i("axis", a);
                                }
                                if let Some(rd) = reduction {
                                    c = c.attr_s("reduction", rd);
                                }
                                out.push(c);
                            }
                        }
                    }
                }
            }
        }
    }
    out
}

fn scatter_nd(tier: Tier) -> Vec<Case> {
    let mut out = Vec::new();
    let mut data_shapes: Vec<Vec<usize>> = vec![vec![4], vec![3, 3], vec![2, 3, 2]];
    if tier.is_thorough() {
        data_shapes.extend(vec![vec![2, 2, 3, 2], vec![17], vec![5, 3]]);
    }
    for dt in [Dt::F32, Dt::I32, Dt::I64, Dt::U8, Dt::Bool] {
        for ds in &data_shapes {
            let r = ds.len();
            let data = fill_small(dt, ds, 0);
            for k in 1..=r {
                let space: usize = ds[..k].iter().product();
                for lead in [vec![1], vec![2], vec![space], vec![2, 1], vec![0], vec![]] {
                    for reduction in [None, Some("none"), Some("add"), Some("mul"), Some("max"), Some("min")] {
                        for dup in [false, true] {
                            if dup && matches!(reduction, None | Some("none")) {
                                continue;
                            }
                            let nt = numel(&lead);
                            if !dup && nt > space {
                                continue;
                            }
                            if dup && nt < 2 {
                                continue;
                            }
                            let ind = fill_nd_index(&lead, k, ds, 1, false, !dup);
                            let mut us = lead.clone();
                            us.extend_from_slice(&ds[k..]);
                            let upd = if dt == Dt::Bool { fill_small(dt, &us, 3) } else { fill_table(dt, &us, &[7.0, 1.0, 2.0, 9.0, 4.0, 6.0, 8.0], 1, 1) };
                            let cls = format!("{}; reduction {}{}", if k == r { "element updates" } else { "slice updates" }, reduction.unwrap_or("absent"), if dup { "; duplicate indices" } else { "" });
                            let mut c = Case::new("ScatterND", cls, vec![Some(data.clone()), Some(ind), Some(upd)]);
                            if let Some(rd) = reduction {
                                c = c.attr_s("reduction", rd);
                            }
                            out.push(c);
                        }
                    }
                }
            }
        }
    }
    out
}

fn slice_class(_starts: &[i64], _ends: &[i64], steps: Option<&[i64]>, axes: Option<&[i64]>, _dims: &[usize]) -> String {
    let st = match steps {
        None => "steps absent",
        Some(s) if s.iter().all(|v| *v == 1) => "steps all 1",
        Some(_) => "steps other than 1",
    };
    let ax = match axes {
        None => "axes absent",
        Some(_) => "axes given",
    };
    format!("{st}; {ax}")
}

fn slice(tier: Tier) -> Vec<Case> {
    let mut out = Vec::new();
    let imax = i64::MAX;
    let imin = i64::MIN;
    let i32max = i32::MAX as i64;
    // ---- 1-D: the complete product
    let starts: Vec<i64> = vec![0, 1, 2, 4, 5, 7, -1, -2, -5, -6, -9, imax, imin, i32max];
    let ends: Vec<i64> = vec![0, 1, 3, 5, 6, 9, -1, -3, -5, -6, -9, imax, imin, i32max, -i32max - 1];
    let steps: Vec<Option<i64>> = vec![None, Some(1), Some(2), Some(3), Some(7), Some(-1), Some(-2), Some(-7), Some(imax), Some(imin)];
    let dims: Vec<usize> = if tier.is_thorough() { vec![5, 1, 0, 6] } else { vec![5, 1] };
    for dim in dims {
        let data = fill_distinct(Dt::F32, &[dim], 0);
        for s in &starts {
            for e in &ends {
                for st in &steps {
                    let stv = st.map(|v| vec![v]);
                    for (idt, with_axes) in [(Dt::I64, false), (Dt::I64, true), (Dt::I32, false)] {
                        if idt == Dt::I32 && (s.abs() > i32max || e.abs() > i32max + 1 || st.map(|v| v.abs() > i32max).unwrap_or(false)) {
                            continue;
                        }
                        let axes = if with_axes { Some(vec![0i64]) } else { None };
                        let cls = slice_class(&[*s], &[*e], stv.as_deref(), axes.as_deref(), &[dim]);
                        let mut ins = vec![Some(data.clone()), Some(RT::ivec(idt, &[*s])), Some(RT::ivec(idt, &[*e]))];
                        match (&axes, &stv) {
                            (None, None) => {}
                            (Some(a), None) => ins.push(Some(RT::ivec(idt, a))),
                            (None, Some(st)) => {
                                ins.push(None);
                                ins.push(Some(RT::ivec(idt, st)));
                            }
                            (Some(a), Some(st)) => {
                                ins.push(Some(RT::ivec(idt, a)));
                                ins.push(Some(RT::ivec(idt, st)));
                            }
                        }
                        out.push(Case::new("Slice", cls, ins));
                    }
                }
            }
        }
    }
    // ---- 2-D / 3-D: reduced per-axis grid, product over axes, axes choices
    let grid: Vec<(i64, i64, i64)> = vec![(0, imax, 1), (1, 3, 1), (-2, imax, 1), (0, -1, 2), (-1, imin, -1), (2, 0, -1), (1, 1, 1), (3, 100, 2), (imax, imin, -2)];
    let shapes2: Vec<Vec<usize>> = if tier.is_thorough() { vec![vec![3, 4], vec![4, 1], vec![2, 3, 4], vec![1, 5, 2]] } else { vec![vec![3, 4], vec![2, 3, 4]] };
    for dt in [Dt::F32, Dt::I32, Dt::I64, Dt::U8, Dt::Bool] {
        for ds in &shapes2 {
            if dt != Dt::F32 && ds.len() == 3 {
                continue;
            }
            let r = ds.len();
            let data = if dt == Dt::Bool { fill_small(dt, ds, 0) } else { fill_distinct(dt, ds, 0) };
            // choose which axes are sliced: every non-empty subset, in every order for pairs
            let mut axis_lists: Vec<Vec<usize>> = Vec::new();
            for sub in subsets(r) {
                if sub.is_empty() || sub.len() > 2 {
                    continue;
                }
                axis_lists.push(sub.clone());
                if sub.len() == 2 {
                    axis_lists.push(vec![sub[1], sub[0]]);
                }
            }
            for al in &axis_lists {
                let combos: Vec<Vec<(i64, i64, i64)>> = if al.len() == 1 { grid.iter().map(|g| vec![*g]).collect() } else { grid.iter().flat_map(|g1| grid.iter().map(move |g2| vec![*g1, *g2])).collect() };
                for combo in combos {
                    let st: Vec<i64> = combo.iter().map(|c| c.0).collect();
                    let en: Vec<i64> = combo.iter().map(|c| c.1).collect();
                    let sp: Vec<i64> = combo.iter().map(|c| c.2).collect();
                    for negax in [false, true] {
                        let axes: Vec<i64> = al.iter().map(|a| if negax { *a as i64 - r as i64 } else { *a as i64 }).collect();
                        let all_one = sp.iter().all(|v| *v == 1);
                        let steps_opt: Vec<Option<Vec<i64>>> = if all_one { vec![None, Some(sp.clone())] } else { vec![Some(sp.clone())] };
                        for so in steps_opt {
                            let cls = slice_class(&st, &en, so.as_deref(), Some(&axes), ds);
                            let mut ins = vec![Some(data.clone()), Some(i64s(&st)), Some(i64s(&en)), Some(i64s(&axes))];
                            if let Some(s) = &so {
                                ins.push(Some(i64s(s)));
                            }
                            out.push(Case::new("Slice", cls, ins));
                        }
                    }
                    // axes absent: only legal when the list is the leading axes in order
                    if al.len() == r && al.iter().enumerate().all(|(i, a)| *a == i) {
                        let cls = slice_class(&st, &en, Some(&sp), None, ds);
                        out.push(Case::new("Slice", cls, vec![Some(data.clone()), Some(i64s(&st)), Some(i64s(&en)), None, Some(i64s(&sp))]));
                    }
                }
            }
        }
    }
    // ---- opset 1: attributes
    for (s, e, a) in [(vec![1i64], vec![3i64], Some(vec![1i64])), (vec![0, 1], vec![2, imax], None), (vec![-2], vec![imax], Some(vec![0]))] {
        let mut c = Case::new("Slice", "opset 1 attributes", vec![Some(fill_distinct(Dt::F32, &[3, 4], 0))]).opset(1).attr_is("starts", &s).attr_is("ends", &e);
        if let Some(a) = a {
            c = c.attr_is("axes", &a);
        }
        out.push(c);
    }
    out
}

fn pad(tier: Tier) -> Vec<Case> {
    let mut out = Vec::new();
    let shapes: Vec<Vec<usize>> = if tier.is_thorough() { vec![vec![3], vec![4], vec![2, 3], vec![3, 1], vec![2, 3, 2], vec![1, 2, 3, 2]] } else { vec![vec![3], vec![2, 3], vec![2, 3, 2]] };
    // per-axis (begin, end)
    let axis_grid: Vec<(i64, i64)> = vec![(0, 0), (1, 0), (0, 2), (2, 1), (-1, 0), (0, -1), (-1, 1), (3, 3)];
    for dt in [Dt::F32, Dt::I32, Dt::I64, Dt::U8, Dt::Bool, Dt::F64] {
        for ds in &shapes {
            let r = ds.len();
            if dt != Dt::F32 && r > 2 {
                continue;
            }
            let data = if dt == Dt::Bool { fill_small(dt, ds, 0) } else { fill_distinct(dt, ds, 1) };
            // combos: product of grid over at most the last two axes, other axes (0,0)
            let varied: Vec<usize> = if r == 1 { vec![0] } else { vec![r - 2, r - 1] };
            let combos: Vec<Vec<(i64, i64)>> = if varied.len() == 1 { axis_grid.iter().map(|g| vec![*g]).collect() } else { axis_grid.iter().flat_map(|g1| axis_grid.iter().map(move |g2| vec![*g1, *g2])).collect() };
            for combo in combos {
                let mut begin = vec![0i64; r];
                let mut end = vec![0i64; r];
                for (k, &ax) in varied.iter().enumerate() {
                    begin[ax] = combo[k].0;
                    end[ax] = combo[k].1;
                }
                let mut pads = begin.clone();
                pads.extend(end.iter());
                let neg = pads.iter().any(|p| *p < 0);
                for mode in [None, Some("constant"), Some("reflect"), Some("edge"), Some("wrap")] {
                    let mname = mode.unwrap_or("constant (default)");
                    let cls_base = format!("mode {}{}", mname, if neg { "; negative pads" } else { "" });
                    // plain
                    let mut variants: Vec<(String, Vec<Option<RT>>)> = vec![(cls_base.clone(), vec![Some(data.clone()), Some(i64s(&pads))])];
                    // constant value
                    if matches!(mode, None | Some("constant")) {
                        variants.push((format!("{cls_base}; constant_value given"), vec![Some(data.clone()), Some(i64s(&pads)), Some(RT::scalar(dt, if dt == Dt::Bool { 1.0 } else { 9.0 }))]));
                        variants.push((format!("{cls_base}; constant_value 1-D"), vec![Some(data.clone()), Some(i64s(&pads)), Some(RT::vec(dt, &[if dt == Dt::Bool { 1.0 } else { 9.0 }]))]));
                    }
                    // axes input: only the varied axes
                    if r >= 2 {
                        let axes: Vec<i64> = varied.iter().map(|a| *a as i64).collect();
                        let mut p2: Vec<i64> = varied.iter().map(|a| begin[*a]).collect();
                        p2.extend(varied.iter().map(|a| end[*a]));
                        variants.push((format!("{cls_base}; axes input"), vec![Some(data.clone()), Some(i64s(&p2)), None, Some(i64s(&axes))]));
                        let naxes: Vec<i64> = varied.iter().map(|a| *a as i64 - r as i64).collect();
                        variants.push((format!("{cls_base}; negative axes input"), vec![Some(data.clone()), Some(i64s(&p2)), None, Some(RT::ivec(Dt::I32, &naxes))]));
                    }
                    for (cls, ins) in variants {
                        let mut c = Case::new("Pad", cls, ins);
                        if let Some(m) = mode {
                            c = c.attr_s("mode", m);
                        }
                        out.push(c);
                    }
                }
                // opset 2 attribute form (f32 only)
                if dt == Dt::F32 {
                    for mode in [None, Some("reflect"), Some("edge")] {
                        let mut c = Case::new("Pad", format!("opset 2 attributes; mode {}{}", mode.unwrap_or("default"), if neg { "; negative pads" } else { "" }), vec![Some(data.clone())]).opset(2).attr_is("pads", &pads);
                        if let Some(m) = mode {
                            c = c.attr_s("mode", m);
                        } else {
                            c = c.attr_f("value", 2.5);
                        }
                        out.push(c);
                    }
                }
            }
        }
    }
    out
}

fn concat(tier: Tier) -> Vec<Case> {
    let mut out = Vec::new();
    let bases: Vec<Vec<usize>> = if tier.is_thorough() { vec![vec![2], vec![2, 3], vec![3, 1], vec![2, 3, 2], vec![1, 2, 2, 3]] } else { vec![vec![2], vec![2, 3], vec![2, 3, 2]] };
    let extents: Vec<Vec<usize>> = {
        let mut v = Vec::new();
        for a in [0usize, 1, 2, 3] {
            v.push(vec![a]);
            for b in [0usize, 1, 2] {
                v.push(vec![a, b]);
                for c in [0usize, 1, 3] {
                    v.push(vec![a, b, c]);
                }
            }
        }
        v
    };
    for dt in [Dt::F32, Dt::I32, Dt::I64, Dt::U8, Dt::Bool, Dt::I8] {
        for base in &bases {
            let r = base.len() as i64;
            for axis in -r..r {
                let ax = if axis < 0 { axis + r } else { axis } as usize;
                for ext in &extents {
                    if dt != Dt::F32 && ext.len() == 3 && base.len() > 2 {
                        continue;
                    }
                    let ins: Vec<Option<RT>> = ext
                        .iter()
                        .enumerate()
                        .map(|(k, e)| {
                            let mut s = base.clone();
                            s[ax] = *e;
                            Some(if dt == Dt::Bool { fill_small(dt, &s, k) } else { fill_distinct(dt, &s, k * 5) })
                        })
                        .collect();
                    let cls = format!("{}; {} inputs{}", axis_cls(axis), ext.len(), if ext.contains(&0) { "; empty input" } else { "" });
                    out.push(Case::new("Concat", cls, ins).attr_i("axis", axis));
                }
            }
        }
    }
    out
}

fn split(tier: Tier) -> Vec<Case> {
    let mut out = Vec::new();
    let shapes: Vec<Vec<usize>> = if tier.is_thorough() { vec![vec![6], vec![4, 3], vec![3, 6], vec![2, 6, 2], vec![5], vec![7, 2], vec![1, 4, 1, 2]] } else { vec![vec![6], vec![4, 3], vec![2, 6, 2], vec![5]] };
    for dt in [Dt::F32, Dt::I32, Dt::I64, Dt::U8, Dt::Bool] {
        for ds in &shapes {
            let r = ds.len() as i64;
            let data = if dt == Dt::Bool { fill_small(dt, ds, 0) } else { fill_distinct(dt, ds, 0) };
            let mut axes: Vec<Option<i64>> = vec![None];
            for a in -r..r {
                axes.push(Some(a));
            }
            for axis in axes {
                let a = axis.unwrap_or(0);
                let ax = if a < 0 { a + r } else { a } as usize;
                let dim = ds[ax];
                let with_axis = |mut c: Case| {
                    if let Some(a) = axis {
                        c = c.attr_i("axis", a);
                    }
                    c
                };
                // equal parts by output count (opset 11, 13)
                for n in 1..=dim.min(4) {
                    if dim % n == 0 {
                        out.push(with_axis(Case::new("Split", format!("equal parts by output count (opset 13)"), vec![Some(data.clone())]).opset(13).outs(n)));
                        out.push(with_axis(Case::new("Split", format!("equal parts by output count (opset 11)"), vec![Some(data.clone())]).opset(11).outs(n)));
                    }
                    // num_outputs (opset 18): even and uneven
                    {
                        let chunk = dim.div_ceil(n);
                        let empty_last = chunk * (n - 1) >= dim && n > 1;
                        let c = Case::new("Split", format!("num_outputs {}", if dim % n == 0 { "even" } else if empty_last { "uneven with empty last part" } else { "uneven" }), vec![Some(data.clone())]).opset(18).outs(n).attr_i("num_outputs", n as i64);
                        // an empty last chunk is an edge the specification text does not spell out
                        out.push(with_axis(if empty_last && dim % n != 0 { c.lenient() } else { c }));
                    }
                }
                if dim + 1 <= 4 {
                    let n = dim + 1;
                    out.push(with_axis(Case::new("Split", "num_outputs larger than the axis", vec![Some(data.clone())]).opset(18).outs(n).attr_i("num_outputs", n as i64).lenient()));
                }
                // explicit sizes: all compositions of dim into 1..=3 parts (zeros allowed)
                let mut comps: Vec<Vec<i64>> = vec![vec![dim as i64]];
                for a in 0..=dim {
                    comps.push(vec![a as i64, (dim - a) as i64]);
                    for b in 0..=(dim - a) {
                        if dim <= 4 || (a * 3 + b) % 4 == 0 {
                            comps.push(vec![a as i64, b as i64, (dim - a - b) as i64]);
                        }
                    }
                }
                for comp in comps {
                    let z = if comp.contains(&0) { "; zero-size part" } else { "" };
                    out.push(with_axis(Case::new("Split", format!("split sizes input (opset 18){z}"), vec![Some(data.clone()), Some(i64s(&comp))]).opset(18).outs(comp.len())));
                    if dt == Dt::F32 {
                        out.push(with_axis(Case::new("Split", format!("split sizes input (opset 13){z}"), vec![Some(data.clone()), Some(i64s(&comp))]).opset(13).outs(comp.len())));
                        out.push(with_axis(Case::new("Split", format!("split sizes attribute (opset 11){z}"), vec![Some(data.clone())]).opset(11).outs(comp.len()).attr_is("split", &comp)));
                    }
                }
            }
        }
    }
    out
}

fn expand(_tier: Tier) -> Vec<Case> {
    let mut out = Vec::new();
    let list = shapes(3, &[1, 2, 3]);
    for dt in [Dt::F32, Dt::I32, Dt::I64, Dt::Bool, Dt::U8] {
        for (a, b) in bcast_pairs(&list) {
            if dt != Dt::F32 && (a.len() + b.len()) > 4 {
                continue;
            }
            let x = fill_small(dt, &a, 0);
            let target: Vec<i64> = b.iter().map(|d| *d as i64).collect();
            let cls = if broadcast_shapes(&a, &b).as_deref() == Some(a.as_slice()) {
                "target does not enlarge the input"
            } else if b.len() > a.len() {
                "target of higher rank"
            } else if b.len() < a.len() {
                "target of lower rank"
            } else {
                "same rank"
            };
            out.push(Case::new("Expand", cls, vec![Some(x), Some(i64s(&target))]));
        }
        out.push(Case::new("Expand", "zero extent", vec![Some(fill_small(dt, &[1, 3], 0)), Some(i64s(&[0, 3]))]));
        out.push(Case::new("Expand", "long", vec![Some(fill_small(dt, &[17], 0)), Some(i64s(&[2, 1, 17]))]));
        out.push(Case::new("Expand", "long", vec![Some(fill_small(dt, &[3, 1], 0)), Some(i64s(&[3, 33]))]));
    }
    out
}

fn tile(tier: Tier) -> Vec<Case> {
    let mut out = Vec::new();
    let shapes_: Vec<Vec<usize>> = if tier.is_thorough() { vec![vec![3], vec![2, 3], vec![1, 2], vec![2, 1, 3], vec![2, 2, 1, 2]] } else { vec![vec![3], vec![2, 3], vec![2, 1, 3]] };
    for dt in [Dt::F32, Dt::I32, Dt::I64, Dt::Bool, Dt::U8] {
        for ds in &shapes_ {
            let x = if dt == Dt::Bool { fill_small(dt, ds, 0) } else { fill_distinct(dt, ds, 0) };
            for reps in vp_core::odometer::Odometer::new(&vec![4; ds.len()]) {
                if ds.len() == 4 && reps.iter().any(|r| *r == 3) {
                    continue;
                }
                let rv: Vec<i64> = reps.iter().map(|r| *r as i64).collect();
                let cls = if rv.iter().all(|r| *r == 1) {
                    "all repeats 1"
                } else if rv.contains(&0) {
                    "zero repeat"
                } else {
                    "repeats"
                };
                out.push(Case::new("Tile", cls, vec![Some(x.clone()), Some(i64s(&rv))]));
            }
        }
    }
    out.push(Case::new("Tile", "scalar input", vec![Some(RT::scalar(Dt::F32, 2.0)), Some(i64s(&[]))]));
    out
}

fn transpose(_tier: Tier) -> Vec<Case> {
    let mut out = Vec::new();
    let shapes_: Vec<Vec<usize>> = vec![vec![], vec![3], vec![2, 3], vec![3, 1], vec![2, 3, 4], vec![1, 3, 2], vec![2, 3, 2, 5], vec![1, 2, 1, 3], vec![2, 0, 3], vec![17, 3], vec![2, 3, 17]];
    for dt in [Dt::F32, Dt::I32, Dt::I64, Dt::Bool, Dt::U8, Dt::I8] {
        for ds in &shapes_ {
            if dt != Dt::F32 && dt != Dt::I32 && ds.len() == 4 {
                continue;
            }
            let x = if dt == Dt::Bool { fill_small(dt, ds, 0) } else { fill_distinct(dt, ds, 0) };
            out.push(Case::new("Transpose", "perm absent", vec![Some(x.clone())]));
            for p in permutations(ds.len()) {
                let pv: Vec<i64> = p.iter().map(|v| *v as i64).collect();
                out.push(Case::new("Transpose", format!("rank {} perm", ds.len()), vec![Some(x.clone())]).attr_is("perm", &pv));
            }
        }
    }
    out
}

fn reshape(_tier: Tier) -> Vec<Case> {
    let mut out = Vec::new();
    let inputs: Vec<Vec<usize>> = vec![vec![6], vec![2, 3], vec![2, 3, 4], vec![1, 6], vec![], vec![1], vec![0, 3], vec![2, 0], vec![4, 1, 3]];
    let targets: Vec<Vec<i64>> = vec![
        vec![6],
        vec![3, 2],
        vec![-1],
        vec![2, -1],
        vec![-1, 3],
        vec![0, -1],
        vec![0, 0],
        vec![0, 3],
        vec![1, 6],
        vec![6, 1, 1],
        vec![2, 3, 4],
        vec![4, 6],
        vec![0, -1, 2],
        vec![-1, 0],
        vec![2, 0, 2],
        vec![24],
        vec![],
        vec![1],
        vec![1, 1],
        vec![0],
        vec![0, 3],
        vec![3, 0],
        vec![-1, 4],
        vec![12],
        vec![3, 4],
        vec![0, 1, 3],
        vec![2, 2, -1],
    ];
    for dt in [Dt::F32, Dt::I32, Dt::I64, Dt::Bool, Dt::U8] {
        for is in &inputs {
            let x = fill_small(dt, is, 0);
            for t in &targets {
                if dt != Dt::F32 && t.len() > 2 {
                    continue;
                }
                for allowzero in [None, Some(0i64), Some(1)] {
                    let cls = format!(
                        "{}{}; allowzero {}",
                        if t.contains(&-1) { "with -1" } else { "explicit" },
                        if t.contains(&0) { " with 0" } else { "" },
                        match allowzero {
                            None => "absent",
                            Some(0) => "0",
                            _ => "1",
                        }
                    );
                    let mut c = Case::new("Reshape", cls, vec![Some(x.clone()), Some(i64s(t))]);
                    if let Some(a) = allowzero {
                        c = c.attr_i("allowzero", a);
                    }
                    out.push(c);
                }
            }
        }
    }
    out.push(Case::new("Reshape", "opset 1 shape attribute", vec![Some(fill_small(Dt::F32, &[2, 3], 0))]).opset(1).attr_is("shape", &[3, -1]));
    out
}

fn squeeze(_tier: Tier) -> Vec<Case> {
    let mut out = Vec::new();
    let shapes_: Vec<Vec<usize>> = vec![vec![1], vec![1, 3], vec![3, 1], vec![1, 3, 1], vec![1, 1, 1], vec![2, 1, 3, 1], vec![2, 3], vec![]];
    for dt in [Dt::F32, Dt::I32, Dt::I64, Dt::Bool] {
        for ds in &shapes_ {
            let r = ds.len();
            let x = fill_small(dt, ds, 0);
            let units: Vec<usize> = (0..r).filter(|d| ds[*d] == 1).collect();
            out.push(Case::new("Squeeze", "axes absent", vec![Some(x.clone())]));
            out.push(Case::new("Squeeze", "axes absent (opset 11)", vec![Some(x.clone())]).opset(11));
            for m in 1u32..(1u32 << units.len()) {
                let sub: Vec<usize> = (0..units.len()).filter(|i| m >> i & 1 == 1).map(|i| units[i]).collect();
                for sp in [sub.iter().map(|a| *a as i64).collect::<Vec<_>>(), sub.iter().map(|a| *a as i64 - r as i64).collect::<Vec<_>>(), sub.iter().rev().map(|a| *a as i64).collect::<Vec<_>>()] {
                    let ncl = if sp.iter().any(|v| *v < 0) { "negative axes" } else { "axes" };
                    out.push(Case::new("Squeeze", format!("{ncl} input"), vec![Some(x.clone()), Some(i64s(&sp))]));
                    out.push(Case::new("Squeeze", format!("{ncl} attribute (opset 11)"), vec![Some(x.clone())]).opset(11).attr_is("axes", &sp));
                }
            }
        }
    }
    out
}

fn unsqueeze(_tier: Tier) -> Vec<Case> {
    let mut out = Vec::new();
    let shapes_: Vec<Vec<usize>> = vec![vec![], vec![3], vec![2, 3], vec![2, 1, 3], vec![0]];
    for dt in [Dt::F32, Dt::I32, Dt::I64, Dt::Bool] {
        for ds in &shapes_ {
            let x = fill_small(dt, ds, 0);
            for n_new in 1..=2usize {
                let out_rank = ds.len() + n_new;
                let mut sets: Vec<Vec<i64>> = Vec::new();
                for a in 0..out_rank {
                    if n_new == 1 {
                        sets.push(vec![a as i64]);
                        sets.push(vec![a as i64 - out_rank as i64]);
                    } else {
                        for b in 0..out_rank {
                            if a != b {
                                sets.push(vec![a as i64, b as i64]);
                                if a < b {
                                    sets.push(vec![a as i64 - out_rank as i64, b as i64]);
                                }
                            }
                        }
                    }
                }
                for s in sets {
                    let ncl = format!("{}{}", if s.iter().any(|v| *v < 0) { "negative axes" } else { "axes" }, if s.len() == 2 && s[0] > s[1] && s[0] >= 0 && s[1] >= 0 { " unsorted" } else { "" });
                    out.push(Case::new("Unsqueeze", format!("{ncl} input"), vec![Some(x.clone()), Some(i64s(&s))]));
                    if dt == Dt::F32 {
                        out.push(Case::new("Unsqueeze", format!("{ncl} attribute (opset 11)"), vec![Some(x.clone())]).opset(11).attr_is("axes", &s));
                    }
                }
            }
        }
    }
    out
}

fn rank04_shapes() -> Vec<Vec<usize>> {
    vec![vec![], vec![3], vec![0], vec![2, 3], vec![3, 1], vec![2, 0], vec![2, 3, 4], vec![1, 1, 1], vec![2, 3, 1, 2], vec![2, 0, 3, 1]]
}

fn flatten(_tier: Tier) -> Vec<Case> {
    let mut out = Vec::new();
    for dt in [Dt::F32, Dt::I32, Dt::I64, Dt::Bool, Dt::U8] {
        for ds in rank04_shapes() {
            let r = ds.len() as i64;
            let x = fill_small(dt, &ds, 0);
            out.push(Case::new("Flatten", "axis default", vec![Some(x.clone())]));
            for axis in -r..=r {
                out.push(Case::new("Flatten", if axis < 0 { "negative axis" } else if axis == r { "axis = rank" } else { "axis" }, vec![Some(x.clone())]).attr_i("axis", axis));
            }
        }
    }
    out
}

fn shape(_tier: Tier) -> Vec<Case> {
    let mut out = Vec::new();
    for dt in [Dt::F32, Dt::I32, Dt::I64, Dt::Bool, Dt::U8, Dt::I8, Dt::F64] {
        for ds in rank04_shapes() {
            let r = ds.len() as i64;
            let x = fill_small(dt, &ds, 0);
            let mut se: Vec<Option<i64>> = vec![None];
            for v in (-r - 1)..=(r + 1) {
                se.push(Some(v));
            }
            for start in &se {
                for end in &se {
                    if dt != Dt::F32 && (start.is_some() && end.is_some()) {
                        continue;
                    }
                    let cls = format!(
                        "start {}; end {}",
                        match start {
                            None => "absent",
                            Some(v) if *v < 0 => "negative",
                            _ => "non-negative",
                        },
                        match end {
                            None => "absent",
                            Some(v) if *v < 0 => "negative",
                            _ => "non-negative",
                        }
                    );
                    let mut c = Case::new("Shape", cls, vec![Some(x.clone())]);
                    if let Some(s) = start {
                        c = c.attr_i("start", *s);
                    }
                    if let Some(e) = end {
                        c = c.attr_i("end", *e);
                    }
                    out.push(c);
                }
            }
        }
    }
    out
}

fn size(_tier: Tier) -> Vec<Case> {
    let mut out = Vec::new();
    for dt in [Dt::F32, Dt::I32, Dt::I64, Dt::Bool, Dt::U8, Dt::I8, Dt::F64] {
        for ds in rank04_shapes() {
            out.push(Case::new("Size", "", vec![Some(fill_small(dt, &ds, 0))]));
        }
    }
    out
}

fn trilu(tier: Tier) -> Vec<Case> {
    let mut out = Vec::new();
    let mut shapes_: Vec<Vec<usize>> = vec![vec![3, 3], vec![2, 4], vec![4, 2], vec![1, 1], vec![2, 3, 3], vec![0, 3], vec![3, 0]];
    if tier.is_thorough() {
        shapes_.extend(vec![vec![2, 2, 3, 4], vec![1, 5], vec![5, 1], vec![17, 17]]);
    }
    for dt in [Dt::F32, Dt::I32, Dt::I64, Dt::Bool, Dt::U8] {
        for ds in &shapes_ {
            let x = if dt == Dt::Bool { fill_table(dt, ds, &[1.0], 1, 0) } else { fill_pos(dt, ds, 0) };
            let mut ks: Vec<Option<i64>> = vec![None];
            for k in -4..=4 {
                ks.push(Some(k));
            }
            ks.push(Some(100));
            ks.push(Some(-100));
            for k in ks {
                for upper in [None, Some(0i64), Some(1)] {
                    let cls = format!(
                        "upper {}; k {}",
                        match upper {
                            None => "absent",
                            Some(0) => "0",
                            _ => "1",
                        },
                        match k {
                            None => "absent",
                            Some(v) if v < 0 => "negative",
                            Some(0) => "0",
                            _ => "positive",
                        }
                    );
                    let mut ins = vec![Some(x.clone())];
                    if let Some(k) = k {
                        ins.push(Some(scalar_i64(k)));
                    }
                    let mut c = Case::new("Trilu", cls, ins).opset(14);
                    if let Some(u) = upper {
                        c = c.attr_i("upper", u);
                    }
                    out.push(c);
                }
            }
        }
    }
    out
}

fn range(_tier: Tier) -> Vec<Case> {
    let mut out = Vec::new();
    let ints: Vec<f64> = vec![-3.0, -1.0, 0.0, 1.0, 2.0, 5.0, 10.0];
    let deltas_i: Vec<f64> = vec![1.0, 2.0, 3.0, -1.0, -2.0, 7.0];
    for dt in [Dt::I32, Dt::I64, Dt::F32, Dt::F64] {
        for s in &ints {
            for l in &ints {
                for d in &deltas_i {
                    out.push(Case::new("Range", if *d < 0.0 { "negative delta" } else { "positive delta" }, vec![Some(RT::scalar(dt, *s)), Some(RT::scalar(dt, *l)), Some(RT::scalar(dt, *d))]));
                }
            }
        }
    }
    // dyadic float grids
    for dt in [Dt::F32, Dt::F64] {
        for s in [0.0, 0.5, -1.25] {
            for l in [2.0, 2.25, -3.0, 0.5] {
                for d in [0.25, 0.5, 0.75, -0.5, 1.5] {
                    out.push(Case::new("Range", "fractional", vec![Some(RT::scalar(dt, s)), Some(RT::scalar(dt, l)), Some(RT::scalar(dt, d))]));
                }
            }
        }
    }
    out
}

fn one_hot(_tier: Tier) -> Vec<Case> {
    let mut out = Vec::new();
    let idx_shapes: Vec<Vec<usize>> = vec![vec![], vec![3], vec![2, 2], vec![2, 1, 2], vec![0]];
    for idt in [Dt::I64, Dt::I32, Dt::F32] {
        for ddt in [Dt::I64, Dt::I32, Dt::F32] {
            for vdt in [Dt::F32, Dt::I32, Dt::I64, Dt::Bool, Dt::U8] {
                if idt != Dt::I64 && ddt != Dt::I64 && vdt != Dt::F32 {
                    continue;
                }
                for is in &idx_shapes {
                    let out_rank = is.len() as i64 + 1;
                    let mut axes: Vec<Option<i64>> = vec![None];
                    for a in -out_rank..out_rank {
                        axes.push(Some(a));
                    }
                    for depth in [1usize, 3, 4] {
                        // indices incl. negative and out-of-range
                        let ind = fill_table(idt, is, &[0.0, 2.0, -1.0, 1.0, 5.0, -4.0, 3.0, -7.0], 1, 0);
                        let values = if vdt == Dt::Bool { RT::vec(vdt, &[0.0, 1.0]) } else { RT::vec(vdt, &[2.0, 5.0]) };
                        for axis in &axes {
                            for depth_shape in [vec![], vec![1]] {
                                if !depth_shape.is_empty() && axis.is_some() {
                                    continue;
                                }
                                let cls = format!(
                                    "{}; indices {}; depth {}",
                                    match axis {
                                        None => "axis default",
                                        Some(a) if *a < 0 => "negative axis",
                                        _ => "axis",
                                    },
                                    crate::case::dt_family(idt),
                                    if depth_shape.is_empty() { "scalar" } else { "1-D" }
                                );
                                let mut c = Case::new("OneHot", cls, vec![Some(ind.clone()), Some(RT::new(ddt, &depth_shape, vec![depth as f64])), Some(values.clone())]).vclass(crate::case::dt_family(vdt));
                                if let Some(a) = axis {
                                    c = c.attr_i("axis", *a);
                                }
                                out.push(c);
                            }
                        }
                    }
                }
            }
        }
    }
    out
}

fn constant_of_shape(_tier: Tier) -> Vec<Case> {
    let mut out = Vec::new();
    let targets: Vec<Vec<i64>> = vec![vec![], vec![0], vec![1], vec![3], vec![2, 3], vec![2, 0], vec![1, 2, 3], vec![17]];
    for t in &targets {
        out.push(Case::new("ConstantOfShape", "value absent", vec![Some(i64s(t))]).vclass("float"));
        for vdt in [Dt::F32, Dt::I32, Dt::I64, Dt::Bool, Dt::U8, Dt::I8, Dt::F64] {
            for (val, shape) in [(if vdt == Dt::Bool { 1.0 } else { 7.0 }, vec![1usize]), (if vdt == Dt::Bool { 0.0 } else { 3.0 }, vec![])] {
                let v = RT::new(vdt, &shape, vec![val]);
                out.push(Case::new("ConstantOfShape", format!("value {} tensor", if shape.is_empty() { "0-D" } else { "1-D" }), vec![Some(i64s(t))]).attr("value", AV::Tensor(v)).vclass(crate::case::dt_family(vdt)));
            }
        }
        if !t.is_empty() {
            out.push(Case::new("ConstantOfShape", "negative float value", vec![Some(i64s(t))]).attr("value", AV::Tensor(RT::vec(Dt::F32, &[-2.5]))).vclass("float"));
        }
    }
    out
}

fn eye_like(_tier: Tier) -> Vec<Case> {
    let mut out = Vec::new();
    let shapes_: Vec<Vec<usize>> = vec![vec![3, 3], vec![2, 4], vec![4, 2], vec![1, 1], vec![1, 3], vec![0, 2]];
    for idt in [Dt::F32, Dt::I32, Dt::I64, Dt::Bool, Dt::U8] {
        for ds in &shapes_ {
            let x = fill_small(idt, ds, 0);
            let mut ks: Vec<Option<i64>> = vec![None];
            for k in -3..=4 {
                ks.push(Some(k));
            }
            for k in ks {
                for odt in [None, Some(Dt::F32), Some(Dt::I32), Some(Dt::I64), Some(Dt::Bool), Some(Dt::U8), Some(Dt::F64)] {
                    let cls = format!("dtype {}; k {}", if odt.is_some() { "given" } else { "absent" }, match k {
                        None => "absent",
                        Some(v) if v < 0 => "negative",
                        Some(0) => "0",
                        _ => "positive",
                    });
                    let mut c = Case::new("EyeLike", cls, vec![Some(x.clone())]).vclass(crate::case::dt_family(odt.unwrap_or(idt)));
                    if let Some(k) = k {
                        c = c.attr_i("k", k);
                    }
                    if let Some(d) = odt {
                        c = c.attr_i("dtype", d.onnx() as i64);
                    }
                    out.push(c);
                }
            }
        }
    }
    out
}

fn depth_to_space(tier: Tier) -> Vec<Case> {
    let mut out = Vec::new();
    for dt in [Dt::F32, Dt::I32, Dt::I64, Dt::U8] {
        for bs in [1usize, 2, 3] {
            for co in [1usize, 2, 3] {
                let hw: Vec<(usize, usize)> = if tier.is_thorough() { vec![(1, 1), (2, 3), (3, 1), (3, 2), (1, 4), (5, 5)] } else { vec![(1, 1), (2, 3), (3, 1)] };
                for (h, w) in hw {
                    for n in [1usize, 2] {
                        if dt != Dt::F32 && (n == 2 || co == 3) {
                            continue;
                        }
                        let ds = vec![n, co * bs * bs, h, w];
                        let x = fill_distinct(dt, &ds, 0);
                        for mode in [None, Some("DCR"), Some("CRD")] {
                            let mut c = Case::new("DepthToSpace", format!("mode {}", mode.unwrap_or("absent")), vec![Some(x.clone())]).attr_i("blocksize", bs as i64);
                            if let Some(m) = mode {
                                c = c.attr_s("mode", m);
                            }
                            out.push(c);
                        }
                    }
                }
            }
        }
    }
    out
}
