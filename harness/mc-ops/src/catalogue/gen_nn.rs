//! Generators: MatMul, Gemm, Conv*, pooling, normalisation, Resize, quantisation, Einsum.

use super::*;
use crate::case::{Case, Tol};
use crate::rt::{Dt, RT};
use vp_core::Tier;

pub fn register(v: &mut Vec<Entry>) {
    v.push(Entry { op: "MatMul", claimed: true, axes: "1-D/2-D/N-D operand combinations, m,k,n from {1,2,3,5}, batch broadcasting, zero extents, larger kernels-sized products x dtypes", r#gen: matmul });
    v.push(Entry { op: "Gemm", claimed: true, axes: "transA x transB x alpha {absent,0.5,2} x beta {absent,0,0.5} x C shapes {absent,[],[1],[n],[1,n],[m,1],[m,n]} x m,k,n grid x dtypes", r#gen: gemm });
    v.push(Entry { op: "Conv", claimed: true, axes: "1-D and 2-D: N x (C,M,group) x spatial x kernel x strides x dilations x pads / auto_pad (NOTSET, SAME_UPPER, SAME_LOWER, VALID) x bias x kernel_shape presence", r#gen: |t| conv("Conv", t) });
    v.push(Entry { op: "ConvInteger", claimed: true, axes: "1-D and 2-D grid as Conv (reduced) x u8/i8 operand types x zero points (absent, scalar, per-channel)", r#gen: conv_integer });
    v.push(Entry { op: "ConvTranspose", claimed: true, axes: "1-D and 2-D: (C,M,group) x spatial x kernel x strides x dilations x pads x output_padding x auto_pad x bias", r#gen: conv_transpose });
    v.push(Entry { op: "MaxPool", claimed: true, axes: "1-D and 2-D: kernel x strides (absent,1,2,3) x pads x ceil_mode x auto_pad x dilations (absent, 1, 2)", r#gen: |t| pool("MaxPool", t) });
    v.push(Entry { op: "AveragePool", claimed: true, axes: "1-D and 2-D: kernel x strides (absent,1,2,3) x pads x ceil_mode x auto_pad x count_include_pad", r#gen: |t| pool("AveragePool", t) });
    v.push(Entry { op: "GlobalAveragePool", claimed: true, axes: "shapes rank 3-5", r#gen: |t| global_pool("GlobalAveragePool", t) });
    v.push(Entry { op: "GlobalMaxPool", claimed: true, axes: "shapes rank 3-5", r#gen: |t| global_pool("GlobalMaxPool", t) });
    v.push(Entry { op: "LayerNormalization", claimed: true, axes: "shapes rank 1-4 x every axis (both spellings, default) x bias presence x epsilon (absent, 0.5) x scale shapes", r#gen: layer_norm });
    v.push(Entry { op: "InstanceNormalization", claimed: true, axes: "shapes rank 3-4 x epsilon (absent, 0.5)", r#gen: instance_norm });
    v.push(Entry { op: "BatchNormalization", claimed: true, axes: "shapes rank 2-4 x epsilon (absent, 0.5) x opset 9/15", r#gen: batch_norm });
    v.push(Entry { op: "Resize", claimed: true, axes: "4-D inputs x scales from {0.5,1,2,4} per spatial axis or sizes x mode nearest/linear x coordinate_transformation_mode (4 + absent) x nearest_mode (4 + absent)", r#gen: resize });
    v.push(Entry { op: "QuantizeLinear", claimed: true, axes: "shapes x per-tensor/per-axis (every axis, default) x zero point absent/u8/i8 x dyadic scales x values with ties and saturation", r#gen: quantize });
    v.push(Entry { op: "DequantizeLinear", claimed: true, axes: "shapes x per-tensor/per-axis x input types u8/i8/i32 x zero point presence", r#gen: dequantize });
    v.push(Entry { op: "DynamicQuantizeLinear", claimed: true, axes: "shapes x inputs whose range is an exact multiple of 255 (scale exactly representable)", r#gen: dynamic_quantize });
    v.push(Entry { op: "MatMulInteger", claimed: true, axes: "operand types u8/i8 x zero points (absent, scalar, per-row/per-column) x m,k,n grid x batch", r#gen: matmul_integer });
    v.push(Entry { op: "Einsum", claimed: true, axes: "15 equations (explicit and implicit output) x 2 size assignments x dtypes", r#gen: einsum });
}

fn opt_name(o: Option<i64>) -> String {
    match o {
        None => "absent".into(),
        Some(v) => v.to_string(),
    }
}

fn matmul(tier: Tier) -> Vec<Case> {
    let mut out = Vec::new();
    let mut pairs: Vec<(Vec<usize>, Vec<usize>, &str)> = Vec::new();
    let sz = [1usize, 2, 3, 5];
    for k in sz {
        pairs.push((vec![k], vec![k], "vector x vector"));
        for n in sz {
            pairs.push((vec![k], vec![k, n], "vector x matrix"));
            pairs.push((vec![n, k], vec![k], "matrix x vector"));
            for m in sz {
                pairs.push((vec![m, k], vec![k, n], "matrix x matrix"));
            }
        }
    }
    for (m, k, n) in [(2usize, 3usize, 2usize), (1, 2, 3), (3, 1, 1), (5, 2, 3)] {
        pairs.push((vec![2, m, k], vec![k, n], "batched lhs x matrix"));
        pairs.push((vec![m, k], vec![2, k, n], "matrix x batched rhs"));
        pairs.push((vec![2, m, k], vec![2, k, n], "batched x batched"));
        pairs.push((vec![1, m, k], vec![3, k, n], "batch broadcast"));
        pairs.push((vec![2, 1, m, k], vec![3, k, n], "batch broadcast"));
        pairs.push((vec![2, m, k], vec![k], "batched lhs x vector"));
        pairs.push((vec![k], vec![2, k, n], "vector x batched rhs"));
        pairs.push((vec![2, 3, m, k], vec![2, 3, k, n], "batched x batched"));
    }
    pairs.push((vec![3], vec![3, 0], "vector x matrix with zero extent"));
    pairs.push((vec![0, 3], vec![3], "matrix with zero extent x vector"));
    pairs.push((vec![0], vec![0, 2], "zero inner extent"));
    pairs.push((vec![0, 3], vec![3, 2], "zero extent"));
    pairs.push((vec![2, 0], vec![0, 3], "zero inner extent"));
    pairs.push((vec![2, 3], vec![3, 0], "zero extent"));
    pairs.push((vec![7, 9], vec![9, 17], "larger"));
    pairs.push((vec![17, 33], vec![33, 5], "larger"));
    pairs.push((vec![1, 64], vec![64, 64], "larger"));
    pairs.push((vec![2, 16, 24], vec![24, 40], "larger"));
    if tier.is_thorough() {
        pairs.push((vec![65, 33], vec![33, 130], "larger"));
        pairs.push((vec![3, 31, 17], vec![3, 17, 19], "larger"));
        pairs.push((vec![128, 7], vec![7, 1], "larger"));
        pairs.push((vec![1, 300], vec![300, 3], "larger"));
        for m in [4usize, 6, 7, 8, 9, 16] {
            for n in [4usize, 8, 15, 16, 17, 32] {
                pairs.push((vec![m, 5], vec![5, n], "kernel tile edges"));
            }
        }
    }
    for dt in [Dt::F32, Dt::I32, Dt::I64, Dt::F64] {
        for (a, b, cls) in &pairs {
            out.push(Case::new("MatMul", *cls, vec![Some(fill_small(dt, a, 0)), Some(fill_small(dt, b, 5))]));
            if dt.is_float() && *cls != "larger" {
                out.push(Case::new("MatMul", *cls, vec![Some(fill_table(dt, a, &[0.5, -1.5, 2.0, 0.25, -0.75], 1, 0)), Some(fill_table(dt, b, &[1.5, -0.5, 4.0, 0.125], 1, 1))]));
            }
        }
    }
    out
}

fn gemm(tier: Tier) -> Vec<Case> {
    let mut out = Vec::new();
    let mkn: Vec<(usize, usize, usize)> = if tier.is_thorough() { vec![(2, 3, 4), (1, 1, 1), (3, 1, 2), (1, 5, 3), (5, 2, 1), (7, 9, 17), (16, 8, 33)] } else { vec![(2, 3, 4), (1, 1, 1), (3, 1, 2), (7, 9, 17)] };
    for dt in [Dt::F32, Dt::I32, Dt::F64] {
        for &(m, k, n) in &mkn {
            for ta in [None, Some(0i64), Some(1)] {
                for tb in [None, Some(1i64)] {
                    let a_shape = if ta == Some(1) { vec![k, m] } else { vec![m, k] };
                    let b_shape = if tb == Some(1) { vec![n, k] } else { vec![k, n] };
                    let a = fill_small(dt, &a_shape, 0);
                    let b = fill_small(dt, &b_shape, 5);
                    for alpha in [None, Some(0.5f32), Some(2.0)] {
                        for beta in [None, Some(0.0f32), Some(0.5)] {
                            let c_shapes: Vec<Option<Vec<usize>>> = vec![None, Some(vec![]), Some(vec![1]), Some(vec![n]), Some(vec![1, n]), Some(vec![m, 1]), Some(vec![m, n])];
                            for cs in c_shapes {
                                if cs.is_none() && beta.is_some() && beta != Some(0.5) {
                                    continue;
                                }
                                let cls = format!(
                                    "transA {} transB {}; alpha {}; beta {}; C {}",
                                    opt_name(ta),
                                    opt_name(tb),
                                    alpha.map(|v| v.to_string()).unwrap_or("absent".into()),
                                    beta.map(|v| v.to_string()).unwrap_or("absent".into()),
                                    match &cs {
                                        None => "absent".to_string(),
                                        Some(s) if s.is_empty() => "scalar".into(),
                                        Some(s) if *s == vec![m, n] => "full".into(),
                                        Some(s) if s.len() == 1 => "1-D".into(),
                                        Some(s) if s[0] == 1 => "row".into(),
                                        _ => "column".into(),
                                    }
                                );
                                let mut ins = vec![Some(a.clone()), Some(b.clone())];
                                if let Some(s) = &cs {
                                    ins.push(Some(fill_table(dt, s, &[2.0, -4.0, 6.0, 8.0, -2.0], 1, 1)));
                                }
                                let mut c = Case::new("Gemm", cls, ins);
                                if let Some(v) = ta {
                                    c = c.attr_i("transA", v);
                                }
                                if let Some(v) = tb {
                                    c = c.attr_i("transB", v);
                                }
                                if let Some(v) = alpha {
                                    c = c.attr_f("alpha", v);
                                }
                                if let Some(v) = beta {
                                    c = c.attr_f("beta", v);
                                }
                                out.push(c);
                            }
                        }
                    }
                }
            }
        }
    }
    out
}

struct ConvCfg {
    x: Vec<usize>,
    w: Vec<usize>,
    group: Option<i64>,
    strides: Option<Vec<i64>>,
    dilations: Option<Vec<i64>>,
    pads: Option<Vec<i64>>,
    auto_pad: Option<&'static str>,
    bias: bool,
    kernel_shape: bool,
}

fn conv_cfgs(tier: Tier, transpose: bool) -> Vec<ConvCfg> {
    let mut v = Vec::new();
    // (C, M, group)
    let cmg: Vec<(usize, usize, usize)> = if tier.is_thorough() { vec![(1, 1, 1), (2, 2, 1), (2, 4, 2), (4, 4, 4), (2, 3, 1), (4, 2, 2), (3, 3, 3)] } else { vec![(1, 1, 1), (2, 3, 1), (2, 4, 2), (4, 4, 4)] };
    let wshape = |c: usize, m: usize, g: usize, k: &[usize]| -> Vec<usize> {
        let mut w = if transpose { vec![c, m / g] } else { vec![m, c / g] };
        w.extend_from_slice(k);
        w
    };
    // ---- 1-D
    let ls: Vec<usize> = if tier.is_thorough() { vec![4, 5, 7] } else { vec![4, 5] };
    for n in [1usize, 2] {
        for &(c, m, g) in &cmg {
            for &l in &ls {
                for k in [1usize, 2, 3] {
                    for s in [None, Some(1i64), Some(2)] {
                        for d in [None, Some(2i64)] {
                            let pad_opts: Vec<(Option<Vec<i64>>, Option<&'static str>)> = vec![
                                (None, None),
                                (Some(vec![0, 0]), None),
                                (Some(vec![1, 1]), None),
                                (Some(vec![0, 2]), None),
                                (Some(vec![2, 0]), None),
                                (None, Some("NOTSET")),
                                (None, Some("SAME_UPPER")),
                                (None, Some("SAME_LOWER")),
                                (None, Some("VALID")),
                            ];
                            for (pads, ap) in pad_opts {
                                for bias in [false, true] {
                                    if n == 2 && (bias || d.is_some()) {
                                        continue;
                                    }
                                    v.push(ConvCfg {
                                        x: vec![n, c, l],
                                        w: wshape(c, m, g, &[k]),
                                        group: if g == 1 && !bias { None } else { Some(g as i64) },
                                        strides: s.map(|s| vec![s]),
                                        dilations: d.map(|d| vec![d]),
                                        pads: pads.clone(),
                                        auto_pad: ap,
                                        bias,
                                        kernel_shape: !(bias && g == 1),
                                    });
                                }
                            }
                        }
                    }
                }
            }
        }
    }
    // ---- 2-D
    let hw: Vec<(usize, usize)> = if tier.is_thorough() { vec![(4, 5), (3, 3), (6, 4)] } else { vec![(4, 5), (3, 3)] };
    let cmg2: Vec<(usize, usize, usize)> = if tier.is_thorough() { vec![(1, 1, 1), (1, 2, 1), (2, 3, 1), (2, 4, 2), (3, 3, 3)] } else { vec![(1, 2, 1), (2, 4, 2), (3, 3, 3)] };
    for &(c, m, g) in &cmg2 {
        for &(h, w_) in &hw {
            for k in [[1usize, 1], [2, 3], [3, 3], [3, 1]] {
                for s in [None, Some(vec![1i64, 1]), Some(vec![2, 1]), Some(vec![2, 2])] {
                    for d in [None, Some(vec![2i64, 1]), Some(vec![1, 2])] {
                        let pad_opts: Vec<(Option<Vec<i64>>, Option<&'static str>)> = vec![(None, None), (Some(vec![1, 1, 1, 1]), None), (Some(vec![0, 1, 2, 0]), None), (None, Some("SAME_UPPER")), (None, Some("SAME_LOWER")), (None, Some("VALID"))];
                        for (pads, ap) in pad_opts {
                            for bias in [false, true] {
                                if bias && d.is_some() {
                                    continue;
                                }
                                v.push(ConvCfg { x: vec![1, c, h, w_], w: wshape(c, m, g, &k), group: Some(g as i64), strides: s.clone(), dilations: d.clone(), pads: pads.clone(), auto_pad: ap, bias, kernel_shape: true });
                            }
                        }
                    }
                }
            }
        }
    }
    // ---- larger (im2col / gemm / depthwise fast paths)
    for (x, w, g) in [(vec![1usize, 3, 8, 8], vec![4usize, 3, 3, 3], 1usize), (vec![2, 4, 9, 7], vec![4, 1, 3, 3], 4), (vec![1, 8, 16], vec![8, 8, 1], 1), (vec![1, 16, 5, 5], vec![8, 16, 1, 1], 1), (vec![1, 2, 12, 12], vec![2, 2, 5, 5], 1), (vec![1, 4, 33], vec![4, 1, 3], 4)] {
        let ns = x.len() - 2;
        let w = if transpose { vec![[x[1], w[0] / g].to_vec(), w[2..].to_vec()].concat() } else { w };
        for s in [None, Some(vec![2i64; ns])] {
            for (pads, ap) in [(None, None), (Some(vec![1i64; 2 * ns]), None), (None, Some("SAME_UPPER"))] {
                v.push(ConvCfg { x: x.clone(), w: w.clone(), group: Some(g as i64), strides: s.clone(), dilations: None, pads, auto_pad: ap, bias: true, kernel_shape: true });
            }
        }
    }
    v
}

fn conv_class(c: &ConvCfg) -> String {
    // without kernel_shape the loader cannot size the defaults of strides/dilations/pads
    let needs_default = c.strides.is_none() || c.dilations.is_none() || (c.pads.is_none() && !matches!(c.auto_pad, Some("SAME_UPPER") | Some("SAME_LOWER")));
    if !c.kernel_shape && needs_default {
        return "kernel_shape absent and strides, dilations or pads left to their defaults".to_string();
    }
    format!(
        "{}",
        match (&c.pads, c.auto_pad) {
            (Some(p), _) if p.iter().all(|v| *v == 0) => "pads zero".to_string(),
            (Some(p), _) if { let n = p.len() / 2; (0..n).all(|i| p[i] == p[i + n]) } => "pads symmetric".into(),
            (Some(_), _) => "pads asymmetric".into(),
            (None, None) => "pads absent".into(),
            (None, Some(a)) => format!("auto_pad {a}"),
        }
    )
}

fn conv_case(op: &'static str, c: &ConvCfg, x: RT, w: RT, extra: Vec<Option<RT>>) -> Case {
    let ns = c.x.len() - 2;
    let mut ins = vec![Some(x), Some(w)];
    ins.extend(extra);
    let mut case = Case::new(op, conv_class(c), ins);
    if c.kernel_shape {
        let ks: Vec<i64> = c.w[2..].iter().map(|v| *v as i64).collect();
        case = case.attr_is("kernel_shape", &ks);
    }
    if let Some(g) = c.group {
        case = case.attr_i("group", g);
    }
    if let Some(s) = &c.strides {
        case = case.attr_is("strides", s);
    }
    if let Some(d) = &c.dilations {
        case = case.attr_is("dilations", d);
    }
    if let Some(p) = &c.pads {
        case = case.attr_is("pads", p);
    }
    if let Some(a) = c.auto_pad {
        case = case.attr_s("auto_pad", a);
    }
    let _ = ns;
    case
}

fn conv(op: &'static str, tier: Tier) -> Vec<Case> {
    let mut out = Vec::new();
    for c in conv_cfgs(tier, false) {
        let x = fill_small(Dt::F32, &c.x, 0);
        let w = fill_table(Dt::F32, &c.w, &[1.0, -1.0, 2.0, 0.5, -0.5, 0.0, 1.5], 1, 2);
        let m = c.w[0];
        let extra = if c.bias { vec![Some(fill_table(Dt::F32, &[m], &[0.5, -2.0, 1.0, 3.0], 1, 0))] } else { vec![] };
        out.push(conv_case(op, &c, x, w, extra));
    }
    // f64 spot grid
    for c in conv_cfgs(Tier::Quick, false).into_iter().step_by(37) {
        let x = fill_small(Dt::F64, &c.x, 0);
        let w = fill_table(Dt::F64, &c.w, &[1.0, -1.0, 2.0, 0.5], 1, 2);
        let m = c.w[0];
        let extra = if c.bias { vec![Some(fill_table(Dt::F64, &[m], &[0.5, -2.0, 1.0, 3.0], 1, 0))] } else { vec![] };
        out.push(conv_case(op, &c, x, w, extra));
    }
    out
}

fn conv_integer(tier: Tier) -> Vec<Case> {
    let mut out = Vec::new();
    // quick: every 7th configuration of the quick Conv grid; thorough: those plus every 3rd of the thorough grid
    // (so that the thorough box contains the quick box)
    let step = 7;
    let mut cfgs: Vec<(usize, ConvCfg)> = conv_cfgs(Tier::Quick, false).into_iter().filter(|c| !c.bias).enumerate().filter(|(i, _)| i % 7 == 0).collect();
    if tier.is_thorough() {
        cfgs.extend(conv_cfgs(Tier::Thorough, false).into_iter().filter(|c| !c.bias).enumerate().filter(|(i, _)| i % 3 == 0).map(|(i, c)| (i * 7, c)));
    }
    for (i, c) in cfgs.into_iter() {
        for (xdt, wdt) in [(Dt::U8, Dt::U8), (Dt::U8, Dt::I8), (Dt::I8, Dt::I8), (Dt::I8, Dt::U8)] {
            let x = if xdt == Dt::U8 { fill_table(xdt, &c.x, &[3.0, 0.0, 255.0, 17.0, 128.0, 1.0], 1, 0) } else { fill_table(xdt, &c.x, &[3.0, -128.0, 127.0, -5.0, 0.0, 1.0], 1, 0) };
            let w = if wdt == Dt::U8 { fill_table(wdt, &c.w, &[1.0, 200.0, 0.0, 7.0], 1, 1) } else { fill_table(wdt, &c.w, &[1.0, -2.0, 127.0, -128.0, 0.0], 1, 1) };
            let m = c.w[0];
            let zps: Vec<(&str, Vec<Option<RT>>)> = vec![
                ("zero points absent", vec![]),
                ("x_zero_point scalar", vec![Some(RT::scalar(xdt, 2.0))]),
                ("both zero points scalar", vec![Some(RT::scalar(xdt, 2.0)), Some(RT::scalar(wdt, 1.0))]),
                ("w_zero_point per channel", vec![Some(RT::scalar(xdt, 1.0)), Some(fill_table(wdt, &[m], &[1.0, 0.0, 3.0], 1, 0))]),
                ("only w_zero_point", vec![None, Some(RT::scalar(wdt, 3.0))]),
            ];
            for (zn, extra) in zps {
                if (xdt, wdt) != (Dt::U8, Dt::U8) && zn != "both zero points scalar" && i % (step * 3) != 0 {
                    continue;
                }
                let mut case = conv_case("ConvInteger", &c, x.clone(), w.clone(), extra);
                // input features that select different code paths in an im2col + GEMM implementation
                let mut feats: Vec<&str> = Vec::new();
                if c.auto_pad == Some("SAME_LOWER") {
                    feats.push("auto_pad SAME_LOWER");
                }
                let padded = matches!(c.auto_pad, Some("SAME_UPPER") | Some("SAME_LOWER")) || c.pads.as_ref().map(|p| p.iter().any(|v| *v > 0)).unwrap_or(false);
                let x_zp_effective = if xdt == Dt::U8 { true } else { matches!(zn, "x_zero_point scalar" | "both zero points scalar" | "w_zero_point per channel") };
                if padded && x_zp_effective {
                    feats.push("padding with uint8 input or non-zero x_zero_point");
                } else if padded {
                    feats.push("padding");
                }
                if c.x[0] > 1 && (wdt == Dt::I8 || (zn != "zero points absent" && zn != "x_zero_point scalar")) {
                    feats.push("batch > 1 with w_zero_point or int8 weights");
                }
                // SAME_LOWER changes the geometry of every window: it is the discriminating feature on its own
                case.class = if c.auto_pad == Some("SAME_LOWER") {
                    "auto_pad SAME_LOWER".to_string()
                } else if feats.is_empty() {
                    "plain".to_string()
                } else {
                    feats.join("; ")
                };
                case.vclass = String::new();
                out.push(case);
            }
        }
    }
    // many output channels: more than one full row panel of the packed weight matrix
    for (xs, ws) in [(vec![1usize, 2, 6], vec![17usize, 2, 3]), (vec![1, 2, 5, 5], vec![20, 2, 3, 3])] {
        for (xdt, wdt) in [(Dt::U8, Dt::U8), (Dt::U8, Dt::I8)] {
            let x = fill_table(xdt, &xs, &[3.0, 0.0, 255.0, 17.0, 128.0, 1.0], 1, 0);
            let w = if wdt == Dt::U8 { fill_table(wdt, &ws, &[1.0, 200.0, 0.0, 7.0], 1, 1) } else { fill_table(wdt, &ws, &[1.0, -2.0, 127.0, -128.0, 0.0], 1, 1) };
            let ks: Vec<i64> = ws[2..].iter().map(|v| *v as i64).collect();
            out.push(Case::new("ConvInteger", "w_zero_point per channel with more output channels than one packing panel", vec![Some(x.clone()), Some(w.clone()), Some(RT::scalar(xdt, 1.0)), Some(fill_table(wdt, &[ws[0]], &[1.0, 0.0, 3.0], 1, 0))]).attr_is("kernel_shape", &ks).vclass(""));
            out.push(Case::new("ConvInteger", "plain", vec![Some(x), Some(w), Some(RT::scalar(xdt, 1.0)), Some(RT::scalar(wdt, 2.0))]).attr_is("kernel_shape", &ks).vclass(""));
        }
    }
    out
}

fn conv_transpose(tier: Tier) -> Vec<Case> {
    let mut out = Vec::new();
    for (i, c) in conv_cfgs(tier, true).into_iter().enumerate() {
        let x = fill_small(Dt::F32, &c.x, 0);
        let w = fill_table(Dt::F32, &c.w, &[1.0, -1.0, 2.0, 0.5, -0.5, 0.0, 1.5], 1, 2);
        let g = c.group.unwrap_or(1) as usize;
        let m = c.w[1] * g;
        let extra = if c.bias { vec![Some(fill_table(Dt::F32, &[m], &[0.5, -2.0, 1.0, 3.0], 1, 0))] } else { vec![] };
        let base = conv_case("ConvTranspose", &c, x.clone(), w.clone(), extra.clone());
        out.push(base.clone());
        // output_padding variants where a stride > 1 exists
        if let Some(s) = &c.strides {
            if s.iter().any(|v| *v > 1) && i % 2 == 0 {
                let op: Vec<i64> = s.iter().map(|v| if *v > 1 { 1 } else { 0 }).collect();
                let mut c2 = base.clone().attr_is("output_padding", &op);
                c2.class.push_str("; output_padding");
                out.push(c2);
            }
        }
    }
    out
}

fn pool(op: &'static str, tier: Tier) -> Vec<Case> {
    let mut out = Vec::new();
    let is_max = op == "MaxPool";
    // ---- 1-D
    let ls: Vec<usize> = if tier.is_thorough() { vec![4, 5, 6, 7, 8] } else { vec![5, 6] };
    for &l in &ls {
        for n_c in [(1usize, 1usize), (2, 3)] {
            let x = fill_table(Dt::F32, &[n_c.0, n_c.1, l], &[3.0, -2.0, 0.5, 5.0, -4.0, 1.0, 2.0, -1.0, 4.0, -3.0], 1, 0);
            for k in [1usize, 2, 3] {
                for s in [None, Some(1i64), Some(2), Some(3)] {
                    let pad_opts: Vec<(Option<Vec<i64>>, Option<&'static str>)> =
                        vec![(None, None), (Some(vec![0, 0]), None), (Some(vec![1, 1]), None), (Some(vec![0, 1]), None), (Some(vec![1, 0]), None), (Some(vec![2, 2]), None), (None, Some("NOTSET")), (None, Some("SAME_UPPER")), (None, Some("SAME_LOWER")), (None, Some("VALID"))];
                    for (pads, ap) in pad_opts {
                        for ceil in [None, Some(0i64), Some(1)] {
                            let extra_axis: Vec<Option<i64>> = if is_max { vec![None, Some(1), Some(2)] } else { vec![None, Some(0), Some(1)] };
                            for e in extra_axis {
                                if n_c.0 == 2 && (e.is_some() || ceil == Some(0)) {
                                    continue;
                                }
                                let cls = if s.is_none() && ap != Some("SAME_LOWER") { "strides absent".to_string() } else { format!(
                                    "{}{}{}",
                                    match (&pads, ap) {
                                        (Some(p), _) if p.iter().all(|v| *v == 0) => "pads zero".to_string(),
                                        (Some(p), _) if p[0] == p[1] => "pads symmetric".into(),
                                        (Some(_), _) => "pads asymmetric".into(),
                                        (None, None) => "pads absent".into(),
                                        (None, Some(a)) => format!("auto_pad {a}"),
                                    },
                                    if ceil == Some(1) { "; ceil_mode 1" } else { "" },
                                    if !is_max && e == Some(1) { "; count_include_pad 1" } else { "" }
                                ) };
                                let mut c = Case::new(op, cls, vec![Some(x.clone())]).attr_is("kernel_shape", &[k as i64]);
                                if let Some(s) = s {
                                    c = c.attr_is("strides", &[s]);
                                }
                                if let Some(p) = &pads {
                                    c = c.attr_is("pads", p);
                                }
                                if let Some(a) = ap {
                                    c = c.attr_s("auto_pad", a);
                                }
                                if let Some(v) = ceil {
                                    c = c.attr_i("ceil_mode", v);
                                }
                                if let Some(v) = e {
                                    c = if is_max { c.attr_is("dilations", &[v]) } else { c.attr_i("count_include_pad", v) };
                                }
                                if !is_max {
                                    c = c.tol(Tol { abs: 1e-6, rel: 1e-6 });
                                }
                                out.push(c);
                            }
                        }
                    }
                }
            }
        }
    }
    // ---- 2-D
    let hw: Vec<(usize, usize)> = if tier.is_thorough() { vec![(4, 5), (5, 5), (6, 3)] } else { vec![(4, 5)] };
    for &(h, w) in &hw {
        let x = fill_table(Dt::F32, &[1, 2, h, w], &[3.0, -2.0, 0.5, 5.0, -4.0, 1.0, 2.0, -1.0, 4.0, -3.0, 2.5], 1, 0);
        for k in [[1i64, 1], [2, 2], [3, 2], [2, 3]] {
            for s in [None, Some(vec![1i64, 1]), Some(vec![2, 2]), Some(vec![1, 2]), Some(vec![3, 1])] {
                let pad_opts: Vec<(Option<Vec<i64>>, Option<&'static str>)> = vec![(None, None), (Some(vec![1, 1, 1, 1]), None), (Some(vec![0, 1, 1, 0]), None), (None, Some("SAME_UPPER")), (None, Some("SAME_LOWER")), (None, Some("VALID"))];
                for (pads, ap) in pad_opts {
                    for ceil in [None, Some(1i64)] {
                        for e in [None, Some(1i64)] {
                            if is_max && e.is_some() {
                                continue;
                            }
                            let cls = if s.is_none() && ap != Some("SAME_LOWER") { "strides absent".to_string() } else { format!(
                                "{}{}{}",
                                match (&pads, ap) {
                                    (Some(p), _) if p[0] == p[2] && p[1] == p[3] => "pads symmetric".to_string(),
                                    (Some(_), _) => "pads asymmetric".into(),
                                    (None, None) => "pads absent".into(),
                                    (None, Some(a)) => format!("auto_pad {a}"),
                                },
                                if ceil == Some(1) { "; ceil_mode 1" } else { "" },
                                if !is_max && e == Some(1) { "; count_include_pad 1" } else { "" }
                            ) };
                            let mut c = Case::new(op, cls, vec![Some(x.clone())]).attr_is("kernel_shape", &k);
                            if let Some(s) = &s {
                                c = c.attr_is("strides", s);
                            }
                            if let Some(p) = &pads {
                                c = c.attr_is("pads", p);
                            }
                            if let Some(a) = ap {
                                c = c.attr_s("auto_pad", a);
                            }
                            if let Some(v) = ceil {
                                c = c.attr_i("ceil_mode", v);
                            }
                            if let Some(v) = e {
                                c = c.attr_i("count_include_pad", v);
                            }
                            if !is_max {
                                c = c.tol(Tol { abs: 1e-6, rel: 1e-6 });
                            }
                            out.push(c);
                        }
                    }
                }
            }
        }
    }
    // larger
    let x = fill_small(Dt::F32, &[1, 3, 9, 17], 0);
    let mut c = Case::new(op, "2-D larger", vec![Some(x)]).attr_is("kernel_shape", &[3, 3]).attr_is("strides", &[2, 2]).attr_is("pads", &[1, 1, 1, 1]);
    if !is_max {
        c = c.tol(Tol { abs: 1e-6, rel: 1e-6 });
    }
    out.push(c);
    out
}

fn global_pool(op: &'static str, _tier: Tier) -> Vec<Case> {
    let mut out = Vec::new();
    for ds in [vec![1usize, 1, 1], vec![1, 2, 4], vec![2, 3, 2, 2], vec![1, 1, 3, 5], vec![1, 2, 2, 2, 2], vec![1, 3, 1, 17], vec![1, 1, 8, 8]] {
        for dt in [Dt::F32, Dt::F64] {
            let cls = format!("{}-D", ds.len() - 2);
            out.push(Case::new(op, cls.clone(), vec![Some(fill_small(dt, &ds, 0))]).tol(Tol { abs: 1e-6, rel: 1e-6 }));
            out.push(Case::new(op, cls, vec![Some(fill_table(dt, &ds, &[0.5, -1.5, 2.25, -0.75], 1, 0))]).tol(Tol { abs: 1e-6, rel: 1e-6 }));
        }
    }
    out
}

fn norm_fill(dt: Dt, s: &[usize], seed: usize) -> RT {
    fill_table(dt, s, &[1.0, -2.0, 0.5, 3.0, -1.5, 2.0, 0.0, 4.0, -0.5], 1, seed)
}

fn layer_norm(tier: Tier) -> Vec<Case> {
    let mut out = Vec::new();
    let mut shapes_: Vec<Vec<usize>> = vec![vec![4], vec![2, 3], vec![2, 3, 4], vec![1, 5], vec![3, 1]];
    if tier.is_thorough() {
        shapes_.extend(vec![vec![2, 2, 3, 4], vec![2, 17], vec![3, 64]]);
    }
    for dt in [Dt::F32, Dt::F64] {
        for ds in &shapes_ {
            let r = ds.len() as i64;
            let x = norm_fill(dt, ds, 0);
            let mut axes: Vec<Option<i64>> = vec![None];
            for a in -r..r {
                axes.push(Some(a));
            }
            for axis in axes {
                let a = axis.unwrap_or(-1);
                let ax = if a < 0 { a + r } else { a } as usize;
                let nshape: Vec<usize> = ds[ax..].to_vec();
                // scale shapes: full normalised shape; last dim only (broadcast) when rank of normalised part > 1
                let mut sshapes: Vec<Vec<usize>> = vec![nshape.clone()];
                if nshape.len() > 1 {
                    sshapes.push(vec![*nshape.last().unwrap()]);
                }
                for ss in sshapes {
                    for bias in [false, true] {
                        for eps in [None, Some(0.5f32)] {
                            let cls = format!(
                                "{}; normalised rank {}; scale {}; bias {}; epsilon {}",
                                match axis {
                                    None => "axis default",
                                    Some(a) if a < 0 => "negative axis",
                                    _ => "axis",
                                },
                                nshape.len(),
                                if ss == nshape { "full" } else { "broadcast" },
                                if bias { "given" } else { "absent" },
                                if eps.is_some() { "given" } else { "absent" }
                            );
                            let mut ins = vec![Some(x.clone()), Some(fill_table(dt, &ss, &[1.0, 2.0, 0.5, -1.0], 1, 0))];
                            if bias {
                                ins.push(Some(fill_table(dt, &ss, &[0.5, -1.0, 2.0], 1, 1)));
                            }
                            let mut c = Case::new("LayerNormalization", cls, ins).opset(17).tol(Tol::NORM);
                            if let Some(a) = axis {
                                c = c.attr_i("axis", a);
                            }
                            if let Some(e) = eps {
                                c = c.attr_f("epsilon", e);
                            }
                            out.push(c);
                        }
                    }
                }
            }
        }
    }
    out
}

fn instance_norm(_tier: Tier) -> Vec<Case> {
    let mut out = Vec::new();
    for dt in [Dt::F32, Dt::F64] {
        for ds in [vec![1usize, 1, 4], vec![2, 3, 4], vec![1, 2, 3, 3], vec![2, 2, 2, 5], vec![1, 3, 17], vec![1, 2, 1, 1]] {
            let c_ = ds[1];
            for eps in [None, Some(0.5f32)] {
                let mut c = Case::new(
                    "InstanceNormalization",
                    format!("{}-D; epsilon {}", ds.len() - 2, if eps.is_some() { "given" } else { "absent" }),
                    vec![Some(norm_fill(dt, &ds, 0)), Some(fill_table(dt, &[c_], &[1.0, 2.0, 0.5], 1, 0)), Some(fill_table(dt, &[c_], &[0.5, -1.0, 2.0], 1, 0))],
                )
                .tol(Tol::NORM);
                if let Some(e) = eps {
                    c = c.attr_f("epsilon", e);
                }
                out.push(c);
            }
        }
    }
    out
}

fn batch_norm(_tier: Tier) -> Vec<Case> {
    let mut out = Vec::new();
    for dt in [Dt::F32, Dt::F64] {
        for ds in [vec![2usize, 3], vec![1, 1, 4], vec![2, 3, 4], vec![1, 2, 3, 3], vec![2, 2, 2, 5], vec![1, 3, 17]] {
            let c_ = ds[1];
            for eps in [None, Some(0.5f32)] {
                for opset in [9i64, 15] {
                    let mut c = Case::new(
                        "BatchNormalization",
                        format!("rank {}; epsilon {}", ds.len(), if eps.is_some() { "given" } else { "absent" }),
                        vec![
                            Some(norm_fill(dt, &ds, 0)),
                            Some(fill_table(dt, &[c_], &[1.0, 2.0, 0.5], 1, 0)),
                            Some(fill_table(dt, &[c_], &[0.5, -1.0, 2.0], 1, 0)),
                            Some(fill_table(dt, &[c_], &[1.0, -0.5, 0.25], 1, 0)),
                            Some(fill_table(dt, &[c_], &[4.0, 0.25, 1.0], 1, 0)),
                        ],
                    )
                    .opset(opset)
                    .tol(Tol::NORM);
                    if let Some(e) = eps {
                        c = c.attr_f("epsilon", e);
                    }
                    out.push(c);
                }
            }
        }
    }
    out
}

fn resize(tier: Tier) -> Vec<Case> {
    let mut out = Vec::new();
    let shapes_: Vec<Vec<usize>> = if tier.is_thorough() { vec![vec![1, 1, 2, 2], vec![1, 1, 2, 4], vec![1, 2, 3, 3], vec![1, 1, 4, 4], vec![2, 1, 1, 3], vec![1, 1, 5, 2]] } else { vec![vec![1, 1, 2, 2], vec![1, 2, 3, 3], vec![1, 1, 4, 4], vec![2, 1, 1, 3]] };
    let sc: Vec<f64> = vec![0.5, 1.0, 2.0, 4.0];
    let ctms: Vec<Option<&str>> = vec![None, Some("half_pixel"), Some("asymmetric"), Some("align_corners"), Some("pytorch_half_pixel")];
    let nms: Vec<Option<&str>> = vec![None, Some("round_prefer_floor"), Some("round_prefer_ceil"), Some("floor"), Some("ceil")];
    for ds in &shapes_ {
        let x = fill_table(Dt::F32, ds, &[1.0, 3.0, -2.0, 8.0, 0.5, 6.0, -4.0, 2.0, 10.0, 7.0, -1.0], 1, 0);
        for sh in &sc {
            for sw in &sc {
                let oh = (ds[2] as f64 * sh).floor();
                let ow = (ds[3] as f64 * sw).floor();
                if oh < 1.0 || ow < 1.0 {
                    continue;
                }
                for mode in [None, Some("nearest"), Some("linear")] {
                    for ctm in &ctms {
                        let nm_list: Vec<Option<&str>> = if mode == Some("linear") { vec![None] } else { nms.clone() };
                        for nm in nm_list {
                            for use_sizes in [false, true] {
                                let one = oh == 1.0 || ow == 1.0;
                                let cls = format!(
                                    "mode {}; coordinate_transformation_mode {}{}{}",
                                    mode.unwrap_or("absent"),
                                    ctm.unwrap_or("absent"),
                                    if mode == Some("linear") { String::new() } else { format!("; nearest_mode {}", nm.unwrap_or("absent")) },
                                    if one { "; output extent 1" } else { "" }
                                );
                                let ins = if use_sizes {
                                    vec![Some(x.clone()), None, None, Some(i64s(&[ds[0] as i64, ds[1] as i64, oh as i64, ow as i64]))]
                                } else {
                                    vec![Some(x.clone()), None, Some(RT::vec(Dt::F32, &[1.0, 1.0, *sh, *sw]))]
                                };
                                let mut c = Case::new("Resize", cls, ins).opset(13);
                                if mode == Some("linear") {
                                    // interpolation weights such as 1/3 are not dyadic; source
                                    // coordinates and weights are formed in f32
                                    c = c.tol(Tol { abs: 2e-5, rel: 2e-5 });
                                }
                                if let Some(m) = mode {
                                    c = c.attr_s("mode", m);
                                }
                                if let Some(m) = ctm {
                                    c = c.attr_s("coordinate_transformation_mode", m);
                                }
                                if let Some(m) = nm {
                                    c = c.attr_s("nearest_mode", m);
                                }
                                out.push(c);
                            }
                        }
                    }
                }
            }
        }
    }
    // other ranks: observation only (rten documents NCHW)
    for ds in [vec![1usize, 1, 4], vec![4, 4]] {
        let r = ds.len();
        let mut scales = vec![1.0; r];
        scales[r - 1] = 2.0;
        out.push(Case::new("Resize", format!("rank {r} input"), vec![Some(fill_small(Dt::F32, &ds, 0)), None, Some(RT::vec(Dt::F32, &scales))]).opset(13).lenient());
    }
    // empty roi / scales tensors given as empty inputs (exporters do this)
    out.push(Case::new("Resize", "empty roi and scales tensors with sizes", vec![Some(fill_small(Dt::F32, &[1, 1, 2, 2], 0)), Some(RT::vec(Dt::F32, &[])), Some(RT::vec(Dt::F32, &[])), Some(i64s(&[1, 1, 4, 4]))]).opset(13));
    out
}

fn quantize(_tier: Tier) -> Vec<Case> {
    let mut out = Vec::new();
    let vals = [0.0, 0.5, 1.5, 2.5, -0.5, -1.5, 3.25, 100.0, -100.0, 300.0, -300.0, 127.5, 63.75, -0.25, 7.0];
    // [3, 1400]: above the 4096-element chunk of the parallel split
    for ds in [vec![5usize], vec![2, 3], vec![2, 3, 2], vec![1, 2, 2, 3], vec![17], vec![3, 1400]] {
        let x = fill_table(Dt::F32, &ds, &vals, 1, 0);
        let r = ds.len() as i64;
        for zdt in [None, Some(Dt::U8), Some(Dt::I8)] {
            // per tensor
            for scale in [1.0, 0.5, 2.0, 0.25] {
                let zp = zdt.map(|d| RT::scalar(d, if d == Dt::U8 { 128.0 } else { -3.0 }));
                let mut ins = vec![Some(x.clone()), Some(RT::scalar(Dt::F32, scale))];
                if let Some(z) = zp {
                    ins.push(Some(z));
                }
                out.push(Case::new("QuantizeLinear", "per-tensor", ins).vclass(format!("zero point {}", zdt.map(|d| d.name()).unwrap_or("absent"))));
            }
            // per axis
            let mut axes: Vec<Option<i64>> = vec![None];
            for a in -r..r {
                axes.push(Some(a));
            }
            for axis in axes {
                let a = axis.unwrap_or(1);
                if a >= r || a < -r {
                    continue;
                }
                let ax = if a < 0 { a + r } else { a } as usize;
                let n = ds[ax];
                let scale = fill_table(Dt::F32, &[n], &[0.5, 2.0, 1.0, 0.25], 1, 0);
                let mut ins = vec![Some(x.clone()), Some(scale)];
                if let Some(d) = zdt {
                    ins.push(Some(fill_table(d, &[n], &[1.0, 0.0, 5.0], 1, 0)));
                }
                let cls = format!(
                    "per-axis; {}",
                    match axis {
                        None => "axis default",
                        Some(a) if a < 0 => "negative axis",
                        _ => "axis",
                    }
                );
                let mut c = Case::new("QuantizeLinear", cls, ins).vclass(format!("zero point {}", zdt.map(|d| d.name()).unwrap_or("absent"))).opset(13);
                if let Some(a) = axis {
                    c = c.attr_i("axis", a);
                }
                out.push(c);
            }
        }
    }
    out
}

fn dequantize(_tier: Tier) -> Vec<Case> {
    let mut out = Vec::new();
    for ds in [vec![5usize], vec![2, 3], vec![2, 3, 2], vec![1, 2, 2, 3], vec![17]] {
        let r = ds.len() as i64;
        for xdt in [Dt::U8, Dt::I8, Dt::I32] {
            let x = fill_ext(xdt, &ds, 0);
            let x = if xdt == Dt::I32 { fill_small(xdt, &ds, 0) } else { x };
            for with_zp in [false, true] {
                for scale in [1.0, 0.5, 2.0] {
                    let mut ins = vec![Some(x.clone()), Some(RT::scalar(Dt::F32, scale))];
                    if with_zp {
                        ins.push(Some(RT::scalar(xdt, if xdt == Dt::U8 { 128.0 } else { -3.0 })));
                    }
                    out.push(Case::new("DequantizeLinear", format!("per-tensor; zero point {}", if with_zp { "given" } else { "absent" }), ins).vclass(xdt.name()));
                }
                let mut axes: Vec<Option<i64>> = vec![None];
                for a in -r..r {
                    axes.push(Some(a));
                }
                for axis in axes {
                    let a = axis.unwrap_or(1);
                    if a >= r || a < -r {
                        continue;
                    }
                    let ax = if a < 0 { a + r } else { a } as usize;
                    let n = ds[ax];
                    let mut ins = vec![Some(x.clone()), Some(fill_table(Dt::F32, &[n], &[0.5, 2.0, 1.0, 0.25], 1, 0))];
                    if with_zp {
                        ins.push(Some(fill_table(xdt, &[n], &[1.0, 0.0, 5.0], 1, 0)));
                    }
                    let cls = format!(
                        "per-axis; {}; zero point {}",
                        match axis {
                            None => "axis default",
                            Some(a) if a < 0 => "negative axis",
                            _ => "axis",
                        },
                        if with_zp { "given" } else { "absent" }
                    );
                    let mut c = Case::new("DequantizeLinear", cls, ins).vclass(xdt.name()).opset(13);
                    if let Some(a) = axis {
                        c = c.attr_i("axis", a);
                    }
                    out.push(c);
                }
            }
        }
    }
    out
}

fn dynamic_quantize(_tier: Tier) -> Vec<Case> {
    let mut out = Vec::new();
    // ranges whose width is 255 * 2^k: the scale is exact
    let tables: Vec<(&str, Vec<f64>)> = vec![
        ("range 0..255", vec![0.0, 255.0, 1.0, 2.5, 3.5, 127.5, 128.5, 254.5, 17.0]),
        ("range -51..204", vec![-51.0, 204.0, 0.0, 0.5, 1.5, -0.5, -1.5, 100.0, -50.5]),
        ("range -127.5..0", vec![-127.5, 0.0, -1.0, -0.25, -0.75, -63.75, -100.0]),
        ("range 0..510", vec![510.0, 1.0, 3.0, 5.0, 2.0, 255.0, 509.0]),
        ("all positive (min clamps to 0)", vec![255.0, 10.0, 20.5, 21.5, 100.0]),
        ("all negative (max clamps to 0)", vec![-255.0, -10.0, -20.5, -21.5, -100.0]),
    ];
    for (name, t) in tables {
        for ds in [vec![9usize], vec![3, 3], vec![2, 2, 3], vec![17], vec![2, 33]] {
            out.push(Case::new("DynamicQuantizeLinear", name, vec![Some(fill_table(Dt::F32, &ds, &t, 1, 0))]).outs(3));
        }
    }
    // more than one 4096-element chunk of the parallel min/max reduction; the extremes occur
    // once each, in different chunks (and not in the first one)
    for (lo_at, hi_at) in [(4199usize, 4097usize), (4097, 8300), (100, 8399)] {
        let mut t = vec![0.0f64; 8400];
        for (i, v) in t.iter_mut().enumerate() {
            *v = [1.0, 2.5, 3.5, 0.5, -1.5, 100.0][i % 6];
        }
        t[lo_at] = -51.0;
        t[hi_at] = 204.0;
        out.push(Case::new("DynamicQuantizeLinear", "range -51..204, extremes in different parallel chunks", vec![Some(fill_table(Dt::F32, &[4, 2100], &t, 1, 0))]).outs(3));
    }
    out
}

fn matmul_integer(tier: Tier) -> Vec<Case> {
    let mut out = Vec::new();
    let mut shapes_: Vec<(Vec<usize>, Vec<usize>)> = vec![(vec![2, 3], vec![3, 2]), (vec![1, 1], vec![1, 1]), (vec![3, 5], vec![5, 1]), (vec![2, 2, 3], vec![3, 2]), (vec![2, 2, 3], vec![2, 3, 2]), (vec![4], vec![4, 3]), (vec![7, 9], vec![9, 17]), (vec![17, 5], vec![5, 70])];
    if tier.is_thorough() {
        shapes_.extend(vec![(vec![16, 33], vec![33, 20]), (vec![1, 64], vec![64, 8]), (vec![5, 4], vec![4, 31]), (vec![33, 3], vec![3, 2]), (vec![3, 7], vec![7, 64]), (vec![40, 9], vec![9, 70]), (vec![2, 17, 5], vec![5, 35])]);
    }
    for (adt, bdt) in [(Dt::U8, Dt::U8), (Dt::U8, Dt::I8), (Dt::I8, Dt::I8), (Dt::I8, Dt::U8)] {
        for (a_s, b_s) in &shapes_ {
            let a = if adt == Dt::U8 { fill_table(adt, a_s, &[3.0, 0.0, 255.0, 17.0, 128.0, 1.0], 1, 0) } else { fill_table(adt, a_s, &[3.0, -128.0, 127.0, -5.0, 0.0, 1.0], 1, 0) };
            let b = if bdt == Dt::U8 { fill_table(bdt, b_s, &[1.0, 200.0, 0.0, 7.0, 255.0], 1, 1) } else { fill_table(bdt, b_s, &[1.0, -2.0, 127.0, -128.0, 0.0], 1, 1) };
            let m = if a_s.len() >= 2 { a_s[a_s.len() - 2] } else { 1 };
            let n = b_s[b_s.len() - 1];
            let mut zps: Vec<(&str, Vec<Option<RT>>)> = vec![
                ("zero points absent", vec![]),
                ("a_zero_point scalar", vec![Some(RT::scalar(adt, 2.0))]),
                ("both zero points scalar", vec![Some(RT::scalar(adt, 2.0)), Some(RT::scalar(bdt, 1.0))]),
                ("only b_zero_point", vec![None, Some(RT::scalar(bdt, 3.0))]),
                ("zero points 1-element vectors", vec![Some(RT::vec(adt, &[2.0])), Some(RT::vec(bdt, &[1.0]))]),
            ];
            if a_s.len() == 2 && b_s.len() == 2 {
                zps.push(("b_zero_point per column", vec![Some(RT::scalar(adt, 1.0)), Some(fill_table(bdt, &[n], &[1.0, 0.0, 3.0], 1, 0))]));
                zps.push(("a_zero_point per row", vec![Some(fill_table(adt, &[m], &[1.0, 0.0, 3.0], 1, 0)), Some(RT::scalar(bdt, 1.0))]));
            }
            for (zn, extra) in zps {
                let mut ins = vec![Some(a.clone()), Some(b.clone())];
                ins.extend(extra);
                out.push(Case::new("MatMulInteger", zn, ins).vclass(""));
            }
        }
    }
    out
}

fn einsum(_tier: Tier) -> Vec<Case> {
    let mut out = Vec::new();
    let eqs: Vec<(&str, Vec<&str>)> = vec![
        ("ij,jk->ik", vec!["ij", "jk"]),
        ("ij->ji", vec!["ij"]),
        ("ii->i", vec!["ii"]),
        ("ij->", vec!["ij"]),
        ("i,i->", vec!["i", "i"]),
        ("i,j->ij", vec!["i", "j"]),
        ("bij,bjk->bik", vec!["bij", "bjk"]),
        ("ij,ij->ij", vec!["ij", "ij"]),
        ("ijk->ikj", vec!["ijk"]),
        ("ij,kj->ik", vec!["ij", "kj"]),
        ("ij", vec!["ij"]),
        ("ba", vec!["ba"]),
        ("ij,jk", vec!["ij", "jk"]),
        ("bhid,bhjd->bhij", vec!["bhid", "bhjd"]),
        ("ij->i", vec!["ij"]),
        ("ij , jk -> ik", vec!["ij", "jk"]),
        ("ij,jk,kl->il", vec!["ij", "jk", "kl"]),
    ];
    for (eq, terms) in eqs {
        for sizes in [[2usize, 3, 4, 2, 3], [3, 1, 2, 5, 2]] {
            // letters -> sizes by order of first appearance
            let mut letters: Vec<char> = Vec::new();
            for t in &terms {
                for ch in t.chars() {
                    if !letters.contains(&ch) {
                        letters.push(ch);
                    }
                }
            }
            let size_of = |ch: char| sizes[letters.iter().position(|c| *c == ch).unwrap() % sizes.len()];
            for dt in [Dt::F32, Dt::I32, Dt::F64] {
                let ins: Vec<Option<RT>> = terms.iter().enumerate().map(|(k, t)| Some(fill_small(dt, &t.chars().map(size_of).collect::<Vec<_>>(), k * 4))).collect();
                out.push(Case::new("Einsum", format!("equation {eq}"), ins).attr_s("equation", eq));
            }
        }
    }
    out
}
