//! Generators: Reduce*, ArgMax/ArgMin, CumSum, TopK, Softmax/LogSoftmax.

use super::*;
use crate::case::{Case, Tol};
use crate::rt::{Dt, RT};
use vp_core::Tier;

pub fn register(v: &mut Vec<Entry>) {
    macro_rules! red {
        ($name:literal) => {
            v.push(Entry {
                op: $name,
                claimed: true,
                axes: "shapes (rank 1-3, +rank 4 thorough) x every subset of axes in positive and negative spelling, absent, empty x keepdims x noop_with_empty_axes x {axes attribute (opset 13; ReduceSum 11), axes input (opset 18)} x dtypes x fills",
                r#gen: |t| reduce($name, t),
            });
        };
    }
    red!("ReduceSum");
    red!("ReduceMean");
    red!("ReduceMax");
    red!("ReduceMin");
    red!("ReduceProd");
    red!("ReduceL1");
    red!("ReduceL2");
    red!("ReduceSumSquare");
    red!("ReduceLogSum");
    red!("ReduceLogSumExp");
    v.push(Entry { op: "ArgMax", claimed: true, axes: "shapes x every axis (both spellings, default) x keepdims x select_last_index x dtypes x fills with ties", r#gen: |t| arg("ArgMax", t) });
    v.push(Entry { op: "ArgMin", claimed: true, axes: "shapes x every axis (both spellings, default) x keepdims x select_last_index x dtypes x fills with ties", r#gen: |t| arg("ArgMin", t) });
    v.push(Entry { op: "CumSum", claimed: true, axes: "shapes x every axis (both spellings) x exclusive x reverse x data dtypes x axis dtype", r#gen: cumsum });
    v.push(Entry { op: "TopK", claimed: true, axes: "shapes x every axis (both spellings, default) x k in 0..=dim x largest x sorted=1 x dtypes x fills with ties; k attribute (opset 1)", r#gen: topk });
    v.push(Entry { op: "Softmax", claimed: true, axes: "shapes x every axis (both spellings, default) x fills", r#gen: |t| softmax("Softmax", t) });
    v.push(Entry { op: "LogSoftmax", claimed: true, axes: "shapes x every axis (both spellings, default) x fills", r#gen: |t| softmax("LogSoftmax", t) });
}

fn reduce_shapes(tier: Tier) -> Vec<Vec<usize>> {
    let mut v: Vec<Vec<usize>> = vec![vec![3], vec![2, 3], vec![3, 1], vec![2, 3, 2], vec![1, 3, 2], vec![5], vec![2, 17], vec![17, 2], vec![33]];
    if tier.is_thorough() {
        v.extend(vec![vec![2, 1, 3, 2], vec![3, 2, 2, 3], vec![2, 3, 5], vec![5, 3, 2], vec![64, 3], vec![3, 64], vec![2, 5, 17], vec![1], vec![1, 1]]);
    }
    v
}

/// Every spelling of a set of axes: positive, negative.
fn axes_spellings(axes: &[usize], rank: usize) -> Vec<Vec<i64>> {
    let pos: Vec<i64> = axes.iter().map(|a| *a as i64).collect();
    let neg: Vec<i64> = axes.iter().map(|a| *a as i64 - rank as i64).collect();
    if axes.is_empty() { vec![pos] } else { vec![pos, neg] }
}

fn reduce(op: &'static str, tier: Tier) -> Vec<Case> {
    let mut out = Vec::new();
    let tol = match op {
        "ReduceMean" | "ReduceL2" => Tol { abs: 1e-6, rel: 1e-6 },
        "ReduceLogSum" | "ReduceLogSumExp" => Tol::TRANSCENDENTAL,
        // long products of 3s leave the exactly representable range: rounding depends on the order
        "ReduceProd" => Tol { abs: 0.0, rel: 1e-4 },
        _ => Tol::EXACT,
    };
    let dts: Vec<Dt> = match op {
        "ReduceMax" | "ReduceMin" => vec![Dt::F32, Dt::I32, Dt::I64, Dt::F64, Dt::U8, Dt::I8],
        "ReduceSum" | "ReduceProd" | "ReduceL1" | "ReduceSumSquare" => vec![Dt::F32, Dt::I32, Dt::I64, Dt::F64],
        _ => vec![Dt::F32, Dt::F64],
    };
    for dt in dts {
        for shape in reduce_shapes(tier) {
            let rank = shape.len();
            let fills: Vec<RT> = match op {
                "ReduceLogSum" => vec![fill_pos(dt, &shape, 0)],
                "ReduceProd" => vec![fill_table(dt, &shape, &[1.0, -2.0, 1.0, 2.0, -1.0, 1.0, 3.0, 1.0, -1.0], 1, 0), fill_table(dt, &shape, &[1.0, 0.0, 2.0, -1.0], 1, 1)],
                "ReduceMax" | "ReduceMin" => vec![fill_small(dt, &shape, 0), fill_ext(dt, &shape, 0)],
                "ReduceLogSumExp" => vec![fill_small(dt, &shape, 0)],
                _ => {
                    if dt.is_float() {
                        vec![fill_small(dt, &shape, 0), fill_table(dt, &shape, &[0.5, -1.5, 2.25, 0.0, -0.75, 3.0, 1.5], 1, 0)]
                    } else {
                        vec![fill_small(dt, &shape, 0)]
                    }
                }
            };
            // axes choices: absent, empty, every non-empty subset in both spellings
            let mut axes_choices: Vec<Option<Vec<i64>>> = vec![None, Some(vec![])];
            for sub in subsets(rank) {
                if sub.is_empty() {
                    continue;
                }
                for sp in axes_spellings(&sub, rank) {
                    axes_choices.push(Some(sp));
                }
                if sub.len() == 2 {
                    // unsorted order
                    axes_choices.push(Some(vec![sub[1] as i64, sub[0] as i64]));
                }
            }
            for x in &fills {
                for axes in &axes_choices {
                    for keepdims in [None, Some(0i64), Some(1)] {
                        for noop in [None, Some(1i64)] {
                            if noop.is_some() && !matches!(axes, None | Some(_)) {
                                continue;
                            }
                            // noop only matters for absent/empty axes; still exercised once with axes given
                            if noop.is_some() && matches!(axes, Some(a) if !a.is_empty() && a.len() != rank) {
                                continue;
                            }
                            let acls = match axes {
                                None => "axes absent".to_string(),
                                Some(a) if a.is_empty() => "axes empty".to_string(),
                                Some(a) => format!("{} of {} axes{}", a.len(), rank, if a.iter().any(|v| *v < 0) { " negative" } else { "" }),
                            };
                            let kcls = match keepdims {
                                None => "keepdims default",
                                Some(0) => "keepdims=0",
                                _ => "keepdims=1",
                            };
                            let ncls = if noop.is_some() { " noop_with_empty_axes=1" } else { "" };
                            // form A: axes as input (opset 18)
                            {
                                let mut ins = vec![Some(x.clone())];
                                if let Some(a) = axes {
                                    ins.push(Some(i64s(a)));
                                }
                                let mut c = Case::new(op, format!("axes input; {acls}; {kcls}{ncls}"), ins).opset(18).tol(tol);
                                if let Some(k) = keepdims {
                                    c = c.attr_i("keepdims", k);
                                }
                                if let Some(n) = noop {
                                    c = c.attr_i("noop_with_empty_axes", n);
                                }
                                out.push(c);
                            }
                            // form B: axes as attribute (older opset); no noop attribute there
                            if noop.is_none() && !matches!(axes, Some(a) if a.is_empty()) {
                                let opset = if op == "ReduceSum" { 11 } else { 13 };
                                let mut c = Case::new(op, format!("axes attribute; {acls}; {kcls}"), vec![Some(x.clone())]).opset(opset).tol(tol);
                                if let Some(a) = axes {
                                    c = c.attr_is("axes", a);
                                }
                                if let Some(k) = keepdims {
                                    c = c.attr_i("keepdims", k);
                                }
                                out.push(c);
                            }
                        }
                    }
                }
            }
        }
    }
    out
}

fn lane_shapes(tier: Tier) -> Vec<Vec<usize>> {
    let mut v: Vec<Vec<usize>> = vec![vec![1], vec![3], vec![5], vec![2, 3], vec![3, 1], vec![2, 3, 2], vec![17], vec![2, 17], vec![17, 2]];
    if tier.is_thorough() {
        v.extend(vec![vec![2, 1, 3, 2], vec![3, 2, 2, 3], vec![33], vec![3, 5, 2], vec![64, 2], vec![2, 64]]);
    }
    v
}

fn has_extreme_ties(x: &RT, axis: usize, is_max: bool) -> bool {
    let mut keep = x.shape.clone();
    keep[axis] = 1;
    for l in 0..crate::rt::numel(&keep) {
        let mut idx = crate::rt::unravel(l, &keep);
        let mut vals = Vec::new();
        for i in 0..x.shape[axis] {
            idx[axis] = i;
            vals.push(x.at(&idx));
        }
        let ext = if is_max { vals.iter().cloned().fold(f64::NEG_INFINITY, f64::max) } else { vals.iter().cloned().fold(f64::INFINITY, f64::min) };
        if vals.iter().filter(|v| **v == ext).count() > 1 {
            return true;
        }
    }
    false
}

fn arg(op: &'static str, tier: Tier) -> Vec<Case> {
    let mut out = Vec::new();
    for dt in [Dt::F32, Dt::I32, Dt::I64, Dt::F64, Dt::U8, Dt::I8] {
        for shape in lane_shapes(tier) {
            let rank = shape.len() as i64;
            let mut axes: Vec<Option<i64>> = vec![None];
            for a in -rank..rank {
                axes.push(Some(a));
            }
            for x in [fill_small(dt, &shape, 0), fill_ext(dt, &shape, 1), fill_table(dt, &shape, &[2.0, 2.0, 2.0], 1, 0)] {
                for axis in &axes {
                    for keepdims in [None, Some(0i64), Some(1)] {
                        for last in [None, Some(0i64), Some(1)] {
                            // value feature: does the extreme value occur more than once in some lane?
                            let ax = axis.unwrap_or(0);
                            let ax = if ax < 0 { ax + rank } else { ax } as usize;
                            let ties = has_extreme_ties(&x, ax, op == "ArgMax");
                            let cls = if last == Some(1) { "select_last_index 1" } else { "" };
                            let vcls = if ties { "extreme value occurs more than once along the axis" } else { "unique extreme value" };
                            let mut c = Case::new(op, cls, vec![Some(x.clone())]).vclass(vcls);
                            if let Some(a) = axis {
                                c = c.attr_i("axis", *a);
                            }
                            if let Some(k) = keepdims {
                                c = c.attr_i("keepdims", k);
                            }
                            if let Some(l) = last {
                                c = c.attr_i("select_last_index", l);
                            }
                            out.push(c);
                        }
                    }
                }
            }
        }
    }
    out
}

fn cumsum(tier: Tier) -> Vec<Case> {
    let mut out = Vec::new();
    for dt in [Dt::F32, Dt::I32, Dt::I64, Dt::F64] {
        for shape in lane_shapes(tier) {
            let rank = shape.len() as i64;
            for x in [fill_small(dt, &shape, 0), if dt.is_float() { fill_table(dt, &shape, &[0.5, -1.5, 2.25, 0.0, -0.75], 1, 0) } else { fill_small(dt, &shape, 3) }] {
                for axis in -rank..rank {
                    for adt in [Dt::I64, Dt::I32] {
                        for exclusive in [None, Some(0i64), Some(1)] {
                            for reverse in [None, Some(1i64)] {
                                let cls = format!("{}exclusive {} reverse {}", if axis < 0 { "negative axis; " } else { "" }, exclusive.unwrap_or(0), reverse.unwrap_or(0));
                                let mut c = Case::new("CumSum", cls, vec![Some(x.clone()), Some(RT::scalar(adt, axis as f64))]);
                                if let Some(e) = exclusive {
                                    c = c.attr_i("exclusive", e);
                                }
                                if let Some(r) = reverse {
                                    c = c.attr_i("reverse", r);
                                }
                                out.push(c);
                            }
                        }
                    }
                }
                // 1-D axis tensor (observation only: spec says 0-D)
                out.push(Case::new("CumSum", "axis as 1-D tensor", vec![Some(x.clone()), Some(RT::vec(Dt::I64, &[0.0]))]).lenient());
            }
        }
    }
    out
}

fn topk(tier: Tier) -> Vec<Case> {
    let mut out = Vec::new();
    for dt in [Dt::F32, Dt::I32, Dt::I64, Dt::F64] {
        for shape in lane_shapes(tier) {
            let rank = shape.len() as i64;
            let mut axes: Vec<Option<i64>> = vec![None];
            for a in -rank..rank {
                axes.push(Some(a));
            }
            for x in [fill_small(dt, &shape, 0), fill_distinct(dt, &shape, 1), fill_table(dt, &shape, &[2.0, 2.0, 2.0], 1, 0)] {
                for axis in &axes {
                    let ax = axis.unwrap_or(-1);
                    let ax = if ax < 0 { ax + rank } else { ax } as usize;
                    let dim = shape[ax];
                    let ks: Vec<usize> = if dim <= 5 { (0..=dim).collect() } else { vec![0, 1, 2, dim / 2, dim - 1, dim] };
                    for k in ks {
                        for largest in [None, Some(0i64), Some(1)] {
                            for sorted in [None, Some(1i64)] {
                                let cls = format!(
                                    "{}; largest {}; {}",
                                    match axis {
                                        None => "axis default",
                                        Some(a) if *a < 0 => "negative axis",
                                        _ => "axis",
                                    },
                                    largest.unwrap_or(1),
                                    if k == 0 {
                                        "k=0"
                                    } else if k == dim {
                                        "k=dim"
                                    } else {
                                        "0<k<dim"
                                    }
                                );
                                let mut c = Case::new("TopK", cls, vec![Some(x.clone()), Some(i64s(&[k as i64]))]).outs(2);
                                if let Some(a) = axis {
                                    c = c.attr_i("axis", *a);
                                }
                                if let Some(l) = largest {
                                    c = c.attr_i("largest", l);
                                }
                                if let Some(s) = sorted {
                                    c = c.attr_i("sorted", s);
                                }
                                out.push(c);
                            }
                        }
                    }
                }
            }
        }
    }
    // opset 1: k attribute
    for k in [1i64, 2] {
        out.push(Case::new("TopK", "k attribute (opset 1)", vec![Some(fill_distinct(Dt::F32, &[2, 3], 0))]).outs(2).opset(1).attr_i("k", k));
    }
    out
}

fn softmax(op: &'static str, tier: Tier) -> Vec<Case> {
    let mut out = Vec::new();
    for dt in [Dt::F32, Dt::F64] {
        for shape in lane_shapes(tier) {
            let rank = shape.len() as i64;
            let mut axes: Vec<Option<i64>> = vec![None];
            for a in -rank..rank {
                axes.push(Some(a));
            }
            for x in [fill_small(dt, &shape, 0), fill_table(dt, &shape, &[0.5, -1.5, 2.25, 0.0, -0.75, 10.0, -10.0], 1, 0), fill_table(dt, &shape, &[2.0, 2.0], 1, 0)] {
                for axis in &axes {
                    let cls = match axis {
                        None => "axis default",
                        Some(a) if *a < 0 => "negative axis",
                        _ => "axis",
                    };
                    let mut c = Case::new(op, cls, vec![Some(x.clone())]).tol(Tol::NORM);
                    if let Some(a) = axis {
                        c = c.attr_i("axis", *a);
                    }
                    out.push(c);
                }
            }
        }
    }
    // more than 1024 elements (the grain of the parallel split over lanes) with lane sizes
    // that do not divide it
    for shape in [vec![12usize, 100], vec![5, 300], vec![100, 12], vec![2, 7, 77], vec![3, 1030]] {
        let rank = shape.len() as i64;
        for a in 0..rank {
            out.push(Case::new(op, "above the parallel grain size", vec![Some(fill_small(Dt::F32, &shape, 0))]).tol(Tol::NORM).attr_i("axis", a));
        }
    }
    out
}
