//! The operator catalogue: for every operator a generator that enumerates the
//! complete product of its (small) attribute / shape / dtype / fill axes.

pub mod gen_elem;
pub mod gen_extra;
pub mod gen_index;
pub mod gen_nn;
pub mod gen_reduce;

use crate::case::Case;
use crate::rt::{Dt, RT, broadcast_shapes, numel};
use vp_core::Tier;

pub struct Entry {
    pub op: &'static str,
    /// has a reference implementation and is part of the claimed C15 catalogue
    pub claimed: bool,
    /// human description of the axes (for the evidence)
    pub axes: &'static str,
    pub r#gen: fn(Tier) -> Vec<Case>,
}

pub fn entries() -> Vec<Entry> {
    let mut v = Vec::new();
    gen_elem::register(&mut v);
    gen_reduce::register(&mut v);
    gen_index::register(&mut v);
    gen_nn::register(&mut v);
    gen_extra::register(&mut v);
    v
}

/// Map an operator name read from JSON back to the `&'static str` of the catalogue.
pub fn intern_op(name: &str) -> Option<&'static str> {
    static OPS: std::sync::OnceLock<Vec<&'static str>> = std::sync::OnceLock::new();
    let ops = OPS.get_or_init(|| entries().iter().map(|e| e.op).collect());
    ops.iter().copied().find(|o| *o == name)
}

// ---------------------------------------------------------------------------
// shape grids
// ---------------------------------------------------------------------------

/// All shapes of rank 0..=max_rank with extents from `sizes`.
pub fn shapes(max_rank: usize, sizes: &[usize]) -> Vec<Vec<usize>> {
    let mut out = vec![vec![]];
    let mut prev: Vec<Vec<usize>> = vec![vec![]];
    for _ in 0..max_rank {
        let mut next = Vec::new();
        for p in &prev {
            for s in sizes {
                let mut q = p.clone();
                q.push(*s);
                next.push(q);
            }
        }
        out.extend(next.iter().cloned());
        prev = next;
    }
    out
}

/// All shapes of exactly `rank`.
pub fn shapes_rank(rank: usize, sizes: &[usize]) -> Vec<Vec<usize>> {
    shapes(rank, sizes).into_iter().filter(|s| s.len() == rank).collect()
}

/// All ordered pairs (a, b) from `list` that are broadcastable.
pub fn bcast_pairs(list: &[Vec<usize>]) -> Vec<(Vec<usize>, Vec<usize>)> {
    let mut out = Vec::new();
    for a in list {
        for b in list {
            if broadcast_shapes(a, b).is_some() {
                out.push((a.clone(), b.clone()));
            }
        }
    }
    out
}

/// The shape grid of the broadcasting element-wise operators.
pub fn elementwise_pairs(tier: Tier) -> Vec<(Vec<usize>, Vec<usize>)> {
    let base = match tier {
        Tier::Quick => shapes(3, &[1, 2, 3]),
        Tier::Thorough => {
            let mut s = shapes(3, &[1, 2, 3, 5]);
            s.extend(shapes_rank(4, &[1, 2, 3]));
            s
        }
    };
    let mut pairs = bcast_pairs(&base);
    // long inner extents: vector body + tail of the SIMD kernels
    let long: Vec<Vec<usize>> = vec![vec![17], vec![1, 17], vec![2, 17], vec![33], vec![3, 1, 17], vec![3, 2, 1], vec![2, 1], vec![], vec![1], vec![3, 2, 17], vec![64], vec![2, 64]];
    pairs.extend(bcast_pairs(&long).into_iter().filter(|(a, b)| numel(a).max(numel(b)) >= 17));
    pairs
}

/// How the two operand shapes relate (goes into the signature class).
pub fn bcast_class(a: &[usize], b: &[usize]) -> &'static str {
    let out = broadcast_shapes(a, b).unwrap_or_default();
    let (na, nb) = (numel(a), numel(b));
    if a == b {
        "same shape"
    } else if nb == 1 && b.len() > a.len() {
        "second operand has one element and higher rank than the first"
    } else if na == 1 && a.len() > b.len() {
        "first operand has one element and higher rank than the second"
    } else if nb == 1 {
        "second operand has one element"
    } else if na == 1 {
        "first operand has one element"
    } else if a == out.as_slice() {
        "second operand broadcast"
    } else if b == out.as_slice() {
        "first operand broadcast"
    } else {
        "both operands broadcast"
    }
}

/// Unary-operator shape grid.
pub fn unary_shapes(tier: Tier) -> Vec<Vec<usize>> {
    let mut v: Vec<Vec<usize>> = vec![vec![], vec![1], vec![3], vec![5], vec![2, 3], vec![3, 1], vec![2, 1, 3], vec![17], vec![2, 33], vec![0], vec![2, 0]];
    // above the 32 Ki-element chunk of the parallel split in the unary operators
    v.push(vec![2, 16390]);
    if tier.is_thorough() {
        v.extend(vec![vec![1, 2, 3, 2], vec![2, 3, 5, 1], vec![64], vec![3, 65], vec![2, 2, 2, 2], vec![100], vec![7, 19]]);
    }
    v
}

// ---------------------------------------------------------------------------
// value fills
// ---------------------------------------------------------------------------

/// Pattern fill: element l = table[(l * mul + off) % len]
pub fn fill_table(dt: Dt, shape: &[usize], table: &[f64], mul: usize, off: usize) -> RT {
    let n = numel(shape);
    let data: Vec<f64> = (0..n).map(|l| table[(l * mul + off) % table.len()]).collect();
    RT::new(dt, shape, data)
}

/// Fill A: small integers (both signs where the type allows), with repeats.
pub fn fill_small(dt: Dt, shape: &[usize], seed: usize) -> RT {
    match dt {
        Dt::Bool => fill_table(dt, shape, &[1.0, 0.0, 0.0, 1.0, 1.0, 0.0, 1.0], 1, seed),
        Dt::U8 => fill_table(dt, shape, &[3.0, 0.0, 7.0, 1.0, 4.0, 2.0, 9.0, 5.0, 2.0, 8.0, 6.0], 1, seed),
        _ => fill_table(dt, shape, &[3.0, -2.0, 0.0, 5.0, -4.0, 1.0, 2.0, -1.0, 4.0, -3.0, 2.0, -5.0, 1.0], 1, seed),
    }
}

/// Fill B: "awkward" values. Floats: signed zeros, halves (ties of Round),
/// dyadic fractions, a large magnitude. Integers: the extremes of the type.
pub fn fill_ext(dt: Dt, shape: &[usize], seed: usize) -> RT {
    match dt {
        Dt::F32 | Dt::F64 => fill_table(dt, shape, &[0.5, -0.0, -1.5, 2.5, 0.0, -2.5, 1024.0, -0.25, 3.5, -1024.0, 0.75, 1.5, -0.5], 1, seed),
        Dt::I32 | Dt::I64 => fill_table(dt, shape, &[i32::MAX as f64, -1.0, i32::MIN as f64, 0.0, 1.0, i32::MAX as f64 - 1.0, i32::MIN as f64 + 1.0, 2.0], 1, seed),
        Dt::I8 => fill_table(dt, shape, &[127.0, -1.0, -128.0, 0.0, 1.0, 126.0, -127.0], 1, seed),
        Dt::U8 => fill_table(dt, shape, &[255.0, 0.0, 1.0, 254.0, 128.0, 127.0], 1, seed),
        Dt::Bool => fill_table(dt, shape, &[0.0, 0.0, 1.0, 1.0, 1.0, 0.0], 1, seed),
    }
}

/// Strictly positive small values.
pub fn fill_pos(dt: Dt, shape: &[usize], seed: usize) -> RT {
    if dt.is_float() {
        fill_table(dt, shape, &[1.0, 4.0, 0.25, 2.0, 9.0, 0.5, 16.0, 3.0, 1.5], 1, seed)
    } else {
        fill_table(dt, shape, &[1.0, 4.0, 2.0, 3.0, 5.0, 1.0, 7.0], 1, seed)
    }
}

/// Non-zero small values (divisors).
pub fn fill_nonzero(dt: Dt, shape: &[usize], seed: usize) -> RT {
    match dt {
        Dt::U8 => fill_table(dt, shape, &[1.0, 4.0, 2.0, 3.0, 5.0, 1.0, 7.0], 1, seed),
        Dt::F32 | Dt::F64 => fill_table(dt, shape, &[2.0, -1.0, 4.0, 3.0, -2.0, 0.5, 5.0, -4.0, -0.25], 1, seed),
        _ => fill_table(dt, shape, &[2.0, -1.0, 4.0, 3.0, -2.0, 1.0, 5.0, -3.0], 1, seed),
    }
}

/// Values in (-1, 1) (dyadic).
pub fn fill_unit(dt: Dt, shape: &[usize], seed: usize) -> RT {
    fill_table(dt, shape, &[0.5, -0.25, 0.0, 0.75, -0.5, 0.125, -0.75, 0.25], 1, seed)
}

/// Distinct values (no ties): l -> permuted small integers.
pub fn fill_distinct(dt: Dt, shape: &[usize], seed: usize) -> RT {
    let n = numel(shape);
    // multiplicative permutation of 0..n (n+1 .. coprime stride)
    let mut stride = 7usize;
    while n > 0 && gcd(stride, n) != 1 {
        stride += 2;
    }
    let lo = if matches!(dt, Dt::U8 | Dt::Bool) { 0.0 } else { -((n / 2) as f64) };
    let data: Vec<f64> = (0..n).map(|l| ((l * stride + seed) % n.max(1)) as f64 + lo).collect();
    RT::new(dt, shape, data)
}

fn gcd(a: usize, b: usize) -> usize {
    if b == 0 { a } else { gcd(b, a % b) }
}

pub fn i64s(v: &[i64]) -> RT {
    RT::ivec(Dt::I64, v)
}

pub fn scalar_i64(v: i64) -> RT {
    RT::scalar(Dt::I64, v as f64)
}

/// All subsets of 0..n as vectors.
pub fn subsets(n: usize) -> Vec<Vec<usize>> {
    (0u32..(1u32 << n)).map(|m| (0..n).filter(|i| m >> i & 1 == 1).collect()).collect()
}

pub fn permutations(n: usize) -> Vec<Vec<usize>> {
    vp_core::odometer::permutations(n)
}

pub fn dts_name(dts: &[Dt]) -> String {
    dts.iter().map(|d| d.name()).collect::<Vec<_>>().join("/")
}
