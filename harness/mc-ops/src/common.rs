//! Shared enumeration driver for the four properties.

use std::collections::BTreeMap;

use crate::case::Case;
use crate::catalogue::{Entry, entries};
use crate::subject::Fail;
use vp_core::{Ctx, Json, Tier, json};

pub fn cpu_seconds() -> f64 {
    unsafe {
        let mut ru: libc::rusage = std::mem::zeroed();
        libc::getrusage(libc::RUSAGE_SELF, &mut ru);
        let t = |tv: libc::timeval| tv.tv_sec as f64 + tv.tv_usec as f64 * 1e-6;
        t(ru.ru_utime) + t(ru.ru_stime)
    }
}

/// Classification of a failing load/run.
#[derive(Clone, Copy, Debug, PartialEq, Eq)]
pub enum FailClass {
    /// rten declines the case (unsupported operator form / element type)
    Declined,
    /// run-time error of another kind
    Error,
    Panic,
}

pub fn classify(f: &Fail) -> FailClass {
    match f {
        Fail::LoadRejected(_) => FailClass::Declined,
        Fail::LoadPanic(_) | Fail::RunPanic(_) => FailClass::Panic,
        Fail::RunError(m) => {
            let m = m.to_ascii_lowercase();
            if m.contains("unsupported") || m.contains("expected tensor with type") || m.contains("not supported") || m.contains("not implemented") {
                FailClass::Declined
            } else {
                FailClass::Error
            }
        }
    }
}

/// Strip concrete numbers from an error message so that it can serve as an
/// observation key.
pub fn generalize(msg: &str) -> String {
    let mut out = String::new();
    let mut prev_digit = false;
    let mut depth = 0i32;
    for ch in msg.chars() {
        // drop bracketed shape lists
        if ch == '[' {
            depth += 1;
            continue;
        }
        if ch == ']' {
            depth -= 1;
            continue;
        }
        if depth > 0 {
            continue;
        }
        if ch.is_ascii_digit() {
            if !prev_digit {
                out.push('N');
            }
            prev_digit = true;
        } else {
            out.push(ch);
            prev_digit = false;
        }
    }
    vp_core::truncate(&out, 160)
}

#[derive(Default, Clone, Debug)]
pub struct OpStats {
    pub counts: BTreeMap<String, u64>,
}

impl OpStats {
    pub fn add(&mut self, k: &str, n: u64) {
        *self.counts.entry(k.to_string()).or_insert(0) += n;
    }
    pub fn get(&self, k: &str) -> u64 {
        self.counts.get(k).copied().unwrap_or(0)
    }
    pub fn merge(&mut self, o: &OpStats) {
        for (k, v) in &o.counts {
            *self.counts.entry(k.clone()).or_insert(0) += v;
        }
    }
}

#[derive(Default)]
pub struct Report {
    pub per_op: BTreeMap<String, OpStats>,
    pub violations: Vec<(String, Json, String)>,
    pub observations: BTreeMap<String, u64>,
    pub outcome_hashes: std::collections::BTreeSet<u64>,
    pub samples: Vec<Json>,
}

impl Report {
    pub fn stat(&mut self, op: &str, k: &str) {
        self.per_op.entry(op.to_string()).or_default().add(k, 1);
    }
    pub fn stat_n(&mut self, op: &str, k: &str, n: u64) {
        self.per_op.entry(op.to_string()).or_default().add(k, n);
    }
    pub fn violation(&mut self, sig: String, case: Json, detail: String) {
        self.violations.push((sig, case, detail));
    }
    pub fn observe(&mut self, what: String) {
        *self.observations.entry(what).or_insert(0) += 1;
    }
    pub fn merge(&mut self, o: Report) {
        for (k, v) in o.per_op {
            self.per_op.entry(k).or_default().merge(&v);
        }
        self.violations.extend(o.violations);
        for (k, v) in o.observations {
            *self.observations.entry(k).or_insert(0) += v;
        }
        self.outcome_hashes.extend(o.outcome_hashes);
        for s in o.samples {
            if self.samples.len() < 12 {
                self.samples.push(s);
            }
        }
    }
    pub fn total(&self, k: &str) -> u64 {
        self.per_op.values().map(|s| s.get(k)).sum()
    }
}

pub struct Work {
    pub entries: Vec<Entry>,
    /// (entry index, case)
    pub cases: Vec<(usize, Case)>,
}

/// Generate all cases of the catalogue (optionally restricted with `--op Name[,Name]`).
pub fn build_work(ctx: &Ctx) -> Work {
    let entries = entries();
    let mut only: Option<Vec<String>> = None;
    let mut it = ctx.extra_args.iter();
    while let Some(a) = it.next() {
        if a == "--op" {
            if let Some(v) = it.next() {
                only = Some(v.split(',').map(|s| s.to_string()).collect());
            }
        }
    }
    let mut cases = Vec::new();
    for (i, e) in entries.iter().enumerate() {
        if let Some(o) = &only {
            if !o.iter().any(|n| n == e.op) {
                continue;
            }
        }
        for c in (e.r#gen)(ctx.tier) {
            debug_assert_eq!(c.op, e.op);
            cases.push((i, c));
        }
    }
    Work { entries, cases }
}

pub fn restricted(ctx: &Ctx) -> bool {
    ctx.extra_args.iter().any(|a| a == "--op")
}

/// Run `f` over all cases on the worker threads; chunked, merged in case order.
pub fn run_all(work: &Work, f: impl Fn(&Entry, &Case, &mut Report) + Sync) -> Report {
    const CHUNK: usize = 64;
    let n = work.cases.len();
    let nchunks = n.div_ceil(CHUNK);
    let parts = vp_core::par::map(nchunks, |ci| {
        let mut rep = Report::default();
        let lo = ci * CHUNK;
        let hi = (lo + CHUNK).min(n);
        for (ei, case) in &work.cases[lo..hi] {
            f(&work.entries[*ei], case, &mut rep);
        }
        rep
    });
    let mut total = Report::default();
    for p in parts {
        total.merge(p);
    }
    total
}

pub fn tier_name(t: Tier) -> &'static str {
    t.name()
}

/// Per-operator table for the evidence.
pub fn per_op_json(rep: &Report) -> Json {
    let mut m = vp_core::serde_json::Map::new();
    for (op, st) in &rep.per_op {
        m.insert(op.clone(), json!(st.counts));
    }
    Json::Object(m)
}

pub fn emit(ctx: &Ctx, rep: &mut Report) {
    for (sig, case, detail) in rep.violations.drain(..) {
        ctx.violation(sig, case, detail);
    }
    for (k, v) in &rep.observations {
        ctx.observe_n(k, *v);
    }
}

pub fn hash_snaps(op: &str, snaps: &[crate::subject::Snap]) -> u64 {
    use std::hash::{Hash, Hasher};
    let mut h = std::collections::hash_map::DefaultHasher::new();
    op.hash(&mut h);
    snaps.hash(&mut h);
    h.finish()
}
