//! C15 (reference conformance) and C12 (declared output types) on the catalogue.

use rten::verif::infer_shapes::{InferShapeOptions, infer_shapes};
use rten::verif::graph::Node;
use rten::verif::operator::{OutputType, OutputTypesContext};
use rten::{DataType, ValueType};

use crate::case::{Case, Tol};
use crate::catalogue::Entry;
use crate::common::*;
use crate::refops::{self, RefErr};
use crate::rt::{RDt, RT};
use crate::subject::{self, Fail, InputMode, Snap, Subject};
use vp_core::{Ctx, Json, json};

// ---------------------------------------------------------------------------
// C15
// ---------------------------------------------------------------------------

/// Compare one reference output with what rten produced.
pub fn compare_one(r: &RT, g: &Snap, tol: Tol) -> Result<(), (&'static str, String)> {
    if g.is_sequence() {
        return Err(("sequence where a tensor is specified", g.type_name()));
    }
    if g.dt() != r.dt.rten() {
        return Err(("wrong element type", format!("expected {} (ONNX {}), got {}", r.dt.rten().name(), r.dt.name(), g.dt().name())));
    }
    if g.shape() != r.shape.as_slice() {
        return Err(("wrong shape", format!("expected shape {:?}, got {:?}", r.shape, g.shape())));
    }
    let vals = g.values();
    for (l, (e, got)) in r.data.iter().zip(vals.iter()).enumerate() {
        let e = if r.dt.is_float() { *e as f32 as f64 } else { *e };
        let ok = if e.is_nan() {
            got.is_nan()
        } else if e == *got {
            true
        } else if r.dt.is_float() && !tol.is_exact() && e.is_finite() && got.is_finite() {
            (got - e).abs() <= tol.abs + tol.rel * e.abs()
        } else {
            false
        };
        if !ok {
            return Err(("wrong values", format!("element {l} (index {:?}): expected {}, got {}", crate::rt::unravel(l, &r.shape), e, got)));
        }
    }
    Ok(())
}

pub fn compare(refs: &[RT], got: &[Snap], n_out: usize, tol: Tol) -> Result<(), (&'static str, String)> {
    if got.len() < n_out.min(refs.len()) {
        return Err(("too few outputs", format!("{} outputs", got.len())));
    }
    for i in 0..n_out.min(refs.len()) {
        compare_one(&refs[i], &got[i], tol).map_err(|(w, d)| (w, format!("output {i}: {d}")))?;
    }
    Ok(())
}

fn sig(case: &Case, what: &str) -> String {
    // `class` holds the shape/attribute features, `vclass` the value features
    // (element-type family unless the generator says otherwise); value
    // features only discriminate value mismatches.
    let mut parts: Vec<&str> = Vec::new();
    if !case.class.is_empty() {
        parts.push(&case.class);
    }
    if what == "wrong values" && !case.vclass.is_empty() {
        parts.push(&case.vclass);
    }
    format!("{}: {} [{}]", case.op, what, parts.join("; "))
}

pub fn c15_case(entry: &Entry, case: &Case, rep: &mut Report) {
    let op = case.op;
    rep.stat(op, "cases");
    if !entry.claimed {
        rep.stat(op, "not_claimed");
        return;
    }
    let reference = match refops::eval(case) {
        Ok(r) => r,
        Err(RefErr::Undefined(why)) => {
            rep.stat(op, "ref_undefined_by_spec");
            // no expectation; a panic is still worth an observation
            if let Err(f) = subject::load_and_run(case, InputMode::Spec) {
                if classify(&f) == FailClass::Panic {
                    rep.stat(op, "panic_where_undefined");
                    rep.observe(format!("{op}: panic on a case outside the claim ({}): {}", generalize(&why), generalize(&f.text())));
                }
            }
            return;
        }
        Err(RefErr::Invalid(_)) => {
            rep.stat(op, "ref_invalid_by_spec");
            return;
        }
        Err(RefErr::Unimplemented(m)) => {
            rep.stat(op, "ref_unimplemented");
            rep.observe(format!("harness: reference unimplemented for {m}"));
            return;
        }
    };
    rep.stat(op, "ref_defined");
    let outcome = subject::load_and_run(case, InputMode::Spec);
    match outcome {
        Err(f) => {
            match classify(&f) {
                FailClass::Declined => {
                    rep.stat(op, if matches!(f, Fail::LoadRejected(_)) { "declined_at_load" } else { "declined_at_run" });
                    rep.observe(format!("{op}: declined: {}", generalize(&f.text())));
                }
                FailClass::Error => {
                    rep.stat(op, "error_where_defined");
                    if case.strict_err {
                        rep.violation(sig(case, "error where the specification defines a result"), json!({"case": case.to_json()}), format!("{} ; reference = [{}] ; {}", f.text(), reference.iter().map(|r| r.brief()).collect::<Vec<_>>().join(" | "), case.brief()));
                    } else {
                        rep.observe(format!("{op}: error on lenient case: {}", generalize(&f.text())));
                    }
                }
                FailClass::Panic => {
                    rep.stat(op, "panic_where_defined");
                    if case.strict_err {
                        rep.violation(sig(case, "panic where the specification defines a result"), json!({"case": case.to_json()}), format!("{} ; {}", f.text(), case.brief()));
                    } else {
                        rep.observe(format!("{op}: panic on lenient case: {}", generalize(&f.text())));
                    }
                }
            }
        }
        Ok((_s, got)) => {
            rep.stat(op, "compared");
            rep.outcome_hashes.insert(hash_snaps(op, &got));
            match compare(&reference, &got, case.n_out, case.tol) {
                Ok(()) => {
                    rep.stat(op, "agree");
                    if rep.samples.len() < 2 && rep.per_op[op].get("agree") == 1 {
                        rep.samples.push(json!({"case": case.brief(), "reference": reference.iter().map(|r| r.brief()).collect::<Vec<_>>(), "rten": got.iter().map(|g| g.brief()).collect::<Vec<_>>()}));
                    }
                }
                Err((what, detail)) => {
                    rep.stat(op, "disagree");
                    // confirm reproducibility before reporting
                    let again = subject::load_and_run(case, InputMode::Spec);
                    let same = matches!(&again, Ok((_, g2)) if *g2 == got);
                    if !same {
                        rep.violation(sig(case, "nondeterministic result"), json!({"case": case.to_json()}), "second run of the same case differs".into());
                        return;
                    }
                    rep.violation(
                        sig(case, what),
                        json!({"case": case.to_json()}),
                        format!("{detail} ; reference = [{}] ; rten = [{}] ; {}", reference.iter().map(|r| r.brief()).collect::<Vec<_>>().join(" | "), got.iter().map(|g| g.brief()).collect::<Vec<_>>().join(" | "), case.brief()),
                    );
                }
            }
        }
    }
}

pub fn run_c15(ctx: Ctx) -> ! {
    if let Some(p) = ctx.replay.clone() {
        let j = vp_core::read_replay_case(&p);
        let Some(case) = Case::from_json(&j["case"]) else { ctx.machinery("replay: cannot parse case") };
        let entries = crate::catalogue::entries();
        let Some(entry) = entries.iter().find(|e| e.op == case.op) else { ctx.machinery("replay: unknown operator") };
        let mut rep = Report::default();
        c15_case(entry, &case, &mut rep);
        println!("replay: {}", case.brief());
        println!("reference: {:?}", refops::eval(&case).map(|v| v.iter().map(|r| r.brief()).collect::<Vec<_>>()));
        println!("rten: {:?}", subject::load_and_run(&case, InputMode::Spec).map(|(_, g)| g.iter().map(|s| s.brief()).collect::<Vec<_>>()).map_err(|f| f.text()));
        emit(&ctx, &mut rep);
        ctx.finish("exploration", json!({"evaluations": 1, "distinct_nontrivial": 2, "rule": "replay of one catalogue case", "samples": [case.brief()], "exhaustive": true}), vec![]);
    }
    let t0 = cpu_seconds();
    let work = build_work(&ctx);
    let mut rep = run_all(&work, c15_case);
    let cpu = cpu_seconds() - t0;
    let claimed: Vec<&str> = work.entries.iter().filter(|e| e.claimed).map(|e| e.op).collect();
    // an operator is *effectively* claimed only if at least one case reached the comparison
    let effective: Vec<&str> = claimed.iter().copied().filter(|op| rep.per_op.get(*op).map(|s| s.get("compared")).unwrap_or(0) > 0).collect();
    let vacuous: Vec<&str> = claimed.iter().copied().filter(|op| !effective.contains(op) && rep.per_op.contains_key(*op)).collect();
    let compared = rep.total("compared");
    if compared == 0 {
        ctx.machinery("C15: no case reached the oracle");
    }
    if !vacuous.is_empty() && !restricted(&ctx) {
        // every claimed operator must reach the oracle at least once (guards against e.g. an encoder
        // problem that makes every model of an operator fail to load)
        ctx.machinery(&format!("C15: claimed catalogue operators with no case reaching the oracle: {}", vacuous.join(",")));
    }
    let axes: Vec<Json> = work.entries.iter().filter(|e| rep.per_op.contains_key(e.op)).map(|e| json!({"op": e.op, "axes": e.axes, "cases": rep.per_op[e.op].get("cases")})).collect();
    let coverage = json!({
        "evaluations": rep.total("cases"),
        "distinct_nontrivial": rep.outcome_hashes.len(),
        "rule": "every point of the per-operator product (attribute grid x shape/dtype grid x value fills) of the catalogue; single-operator ONNX model -> Model::load (all ops, optimization off) -> Model::run with views; i64/bool/f64 inputs as typed initializers; compared with the harness's naive ONNX reference (f64 accumulation): exact for integer/bool outputs and exact-arithmetic float cases, documented tolerance for transcendental/normalisation operators",
        "exhaustive": true,
        "claimed_catalogue": effective,
        "claimed_catalogue_size": effective.len(),
        "cases_compared_with_reference": compared,
        "cases_agreeing": rep.total("agree"),
        "cases_reference_undefined_by_spec": rep.total("ref_undefined_by_spec"),
        "cases_reference_invalid_by_spec": rep.total("ref_invalid_by_spec"),
        "cases_declined_by_rten_at_load": rep.total("declined_at_load"),
        "cases_declined_by_rten_at_run": rep.total("declined_at_run"),
        "cases_error_where_defined": rep.total("error_where_defined"),
        "cases_panic_where_defined": rep.total("panic_where_defined"),
        "per_operator": per_op_json(&rep),
        "axes": axes,
        "tolerances": {"exact": "integer/bool outputs and all float cases over small integers / dyadic rationals", "transcendental": "abs 1e-6 + rel 1e-5", "normalisation_softmax": "abs 2e-5 + rel 2e-5", "mean": "abs 1e-6 + rel 1e-6"},
        "cpu_s": (cpu * 10.0).round() / 10.0,
        "samples": rep.samples.clone(),
    });
    println!(
        "C15 summary: ops={} cases={} compared={} agree={} undefined_by_spec={} invalid_by_spec={} declined={} errors={} panics={} distinct_outcomes={} cpu={:.1}s",
        effective.len(),
        rep.total("cases"),
        compared,
        rep.total("agree"),
        rep.total("ref_undefined_by_spec"),
        rep.total("ref_invalid_by_spec"),
        rep.total("declined_at_load") + rep.total("declined_at_run"),
        rep.total("error_where_defined"),
        rep.total("panic_where_defined"),
        rep.outcome_hashes.len(),
        cpu
    );
    emit(&ctx, &mut rep);
    ctx.finish(
        "exploration",
        coverage,
        vec![
            "the reference semantics are the harness's own reading of the ONNX operator specification (onnx python package unavailable)".into(),
            "cases the specification leaves undefined/ambiguous are excluded from the claim (counted as ref_undefined_by_spec)".into(),
            "operator forms rten declines at load or with an 'unsupported' error are not 'supported' settings in the sense of the property and are only counted".into(),
        ],
    );
}

// ---------------------------------------------------------------------------
// C12
// ---------------------------------------------------------------------------

fn vt_name(v: ValueType) -> String {
    format!("{v}")
}

fn rdt_to_dt(r: RDt) -> DataType {
    match r {
        RDt::F32 => DataType::Float,
        RDt::I32 => DataType::Int32,
        RDt::I8 => DataType::Int8,
        RDt::U8 => DataType::UInt8,
    }
}

fn snap_vt(s: &Snap) -> ValueType {
    match s {
        Snap::Tensor { dt, .. } => ValueType::Tensor(rdt_to_dt(*dt)),
        Snap::Sequence { dt, .. } => ValueType::Sequence(rdt_to_dt(*dt)),
    }
}

/// dtype of each operator input as the operator sees it.
fn op_input_types(s: &Subject, case: &Case) -> Option<Vec<Option<ValueType>>> {
    let node = subject::op_node(&s.model)?;
    let g = s.model.verif_graph();
    let mut out = Vec::new();
    for id in node.input_ids() {
        let Some(id) = id else {
            out.push(None);
            continue;
        };
        match g.get_node(*id) {
            Some(Node::Constant(c)) => out.push(Some(c.as_view().dtype())),
            Some(Node::Value(_)) => {
                let j = s.in_ids.iter().position(|x| *x == Some(*id))?;
                let t = case.inputs[j].as_ref()?;
                out.push(Some(ValueType::Tensor(rdt_to_dt(t.dt.rten()))));
            }
            _ => return None,
        }
    }
    Some(out)
}

pub fn c12_case(_entry: &Entry, case: &Case, rep: &mut Report) {
    let op = case.op;
    rep.stat(op, "cases");
    let (s, got) = match subject::load_and_run(case, InputMode::Spec) {
        Ok(x) => x,
        Err(f) => {
            rep.stat(op, match classify(&f) {
                FailClass::Declined => "declined",
                FailClass::Error => "run_error",
                FailClass::Panic => "panic",
            });
            return;
        }
    };
    rep.stat(op, "successful_runs");
    let Some(node) = subject::op_node(&s.model) else {
        rep.observe("harness: model does not have exactly one operator node".into());
        return;
    };
    let Some(in_types) = op_input_types(&s, case) else {
        rep.observe("harness: cannot determine operator input types".into());
        return;
    };
    let rules = node.operator().output_types(&OutputTypesContext { num_outputs: node.output_ids().len() });
    let Some(rules) = rules else {
        rep.stat(op, "no_rule_declared");
        return;
    };
    let get_in = |k: u32| in_types.get(k as usize).copied().flatten();
    let mut any_checked = false;
    let mut op_level_violation = false;
    for (i, g) in got.iter().enumerate() {
        let Some(rule) = rules.get(i) else {
            rep.stat(op, "output_without_rule");
            continue;
        };
        let (rule_name, predicted) = match rule {
            OutputType::Fixed(v) => ("Fixed", Some(*v)),
            OutputType::CopyFromInput(k) => ("CopyFromInput", get_in(*k)),
            OutputType::ElementTypeOfInputSequence(k) => ("ElementTypeOfInputSequence", get_in(*k).map(|t| match t {
                ValueType::Sequence(d) | ValueType::Tensor(d) => ValueType::Tensor(d),
                other => other,
            })),
            OutputType::SequenceWithElementTypeOfInput(k) => ("SequenceWithElementTypeOfInput", get_in(*k).map(|t| match t {
                ValueType::Sequence(d) | ValueType::Tensor(d) => ValueType::Sequence(d),
                other => other,
            })),
        };
        let Some(predicted) = predicted else {
            rep.stat(op, "rule_unresolvable");
            continue;
        };
        any_checked = true;
        rep.stat(op, "outputs_checked");
        let actual = snap_vt(g);
        rep.outcome_hashes.insert(vp_core::fnv(format!("{op}/{i}/{rule_name}/{}", vt_name(actual)).as_bytes()));
        if predicted != actual {
            op_level_violation = true;
            let in_names: Vec<String> = in_types.iter().map(|t| t.map(vt_name).unwrap_or_else(|| "-".into())).collect();
            rep.violation(
                format!("{op}: output {i} has type {} but declared rule {rule_name} predicts {} [inputs {}]", vt_name(actual), vt_name(predicted), in_names.join(",")),
                json!({"case": case.to_json()}),
                format!("operator {} ; {}", node.operator().name(), case.brief()),
            );
        } else if rep.samples.len() < 2 && rep.per_op[op].get("outputs_checked") == 1 {
            rep.samples.push(json!({"case": case.brief(), "rule": rule_name, "predicted": vt_name(predicted), "actual": vt_name(actual)}));
        }
    }
    // graph level: infer_shapes must not label the output with another type
    if let Ok(res) = vp_core::catch(|| infer_shapes(s.model.verif_graph(), InferShapeOptions::default())) {
        if let Ok(res) = res {
            for (i, id) in s.out_ids.iter().enumerate() {
                if let (Some(t), Some(g)) = (res.types.get(id), got.get(i)) {
                    rep.stat(op, "graph_level_labels_checked");
                    // the operator-level check already reported a wrong rule: same root cause
                    if *t != snap_vt(g) && !op_level_violation {
                        rep.violation(
                            format!("{op}: infer_shapes labels output {i} as {} but the run produces {}", vt_name(*t), vt_name(snap_vt(g))),
                            json!({"case": case.to_json()}),
                            case.brief(),
                        );
                    }
                }
            }
        }
    }
    if any_checked {
        rep.stat(op, "cases_checked");
    }
}

pub fn run_c12(ctx: Ctx) -> ! {
    if let Some(p) = ctx.replay.clone() {
        let j = vp_core::read_replay_case(&p);
        let mut rep = Report::default();
        if crate::seqchain::replay(&j["case"], &mut rep) || crate::optout::replay(&j["case"], &mut rep) {
            emit(&ctx, &mut rep);
            ctx.finish("exploration", json!({"evaluations": 1, "distinct_nontrivial": 2, "rule": "replay of one sequence chain", "samples": [j["case"].clone()], "exhaustive": true}), vec![]);
        }
        let Some(case) = Case::from_json(&j["case"]) else { ctx.machinery("replay: cannot parse case") };
        let entries = crate::catalogue::entries();
        let Some(entry) = entries.iter().find(|e| e.op == case.op) else { ctx.machinery("replay: unknown operator") };
        c12_case(entry, &case, &mut rep);
        println!("replay: {}", case.brief());
        emit(&ctx, &mut rep);
        ctx.finish("exploration", json!({"evaluations": 1, "distinct_nontrivial": 2, "rule": "replay of one catalogue case", "samples": [case.brief()], "exhaustive": true}), vec![]);
    }
    let t0 = cpu_seconds();
    let work = build_work(&ctx);
    let mut rep = run_all(&work, c12_case);
    crate::seqchain::run_all(&mut rep);
    crate::optout::run_all(&mut rep);
    let cpu = cpu_seconds() - t0;
    let checked = rep.total("outputs_checked");
    if checked == 0 {
        ctx.machinery("C12: no output type was checked");
    }
    let ops_checked: Vec<&String> = rep.per_op.iter().filter(|(_, s)| s.get("outputs_checked") > 0).map(|(k, _)| k).collect();
    let ops_no_rule: Vec<&String> = rep.per_op.iter().filter(|(_, s)| s.get("no_rule_declared") > 0).map(|(k, _)| k).collect();
    let coverage = json!({
        "evaluations": rep.total("cases"),
        "distinct_nontrivial": rep.outcome_hashes.len(),
        "omitted_optional_outputs": "TopK, DynamicQuantizeLinear, Dropout, MaxPool(Indices), LayerNormalization, Split with every non-empty subset of their outputs kept (the others have empty names); per_operator entry 'omitted-outputs'",
        "sequence_chains": "SequenceEmpty(dtype|absent)/SequenceConstruct -> SequenceInsert -> SequenceAt / SequenceLength / ConcatFromSequence / SequenceErase for every (sequence element type, inserted tensor type) pair over {f32,i32,i64,u8,i8,bool}; per_operator entry 'sequence-chains'",
        "rule": "every catalogue case (same enumeration as C15, plus type-changing and sequence operators); after each successful Model::run the operator's output_types() rules are resolved against the actual operator input types (constants of the graph and run-time inputs) and compared with the ValueType of every produced output; additionally infer_shapes(graph).types for the graph outputs is compared with the produced types",
        "exhaustive": true,
        "successful_runs": rep.total("successful_runs"),
        "outputs_checked": checked,
        "graph_level_labels_checked": rep.total("graph_level_labels_checked"),
        "rule_unresolvable": rep.total("rule_unresolvable"),
        "operators_checked": ops_checked,
        "operators_checked_count": ops_checked.len(),
        "operators_without_declared_rule": ops_no_rule,
        "per_operator": per_op_json(&rep),
        "cpu_s": (cpu * 10.0).round() / 10.0,
        "samples": rep.samples.clone(),
    });
    println!(
        "C12 summary: ops_checked={} cases={} successful_runs={} outputs_checked={} graph_labels_checked={} distinct(op,output,rule,type)={} cpu={:.1}s",
        ops_checked.len(),
        rep.total("cases"),
        rep.total("successful_runs"),
        checked,
        rep.total("graph_level_labels_checked"),
        rep.outcome_hashes.len(),
        cpu
    );
    emit(&ctx, &mut rep);
    ctx.finish(
        "exploration",
        coverage,
        vec!["a rule that refers to an absent optional input predicts nothing (infer_shapes leaves the value unlabeled) and is only counted".into(), "operators are reached through single-operator ONNX models; fused/internal operators created only by the optimizer are outside this box".into()],
    );
}
