//! C14 (input memory layout independence) and C13 (in-place / commuted execution).

use crate::case::Case;
use crate::catalogue::Entry;
use crate::common::*;
use crate::rt::RT;
use crate::subject::{self, Fail, InputMode, LaidAny, LayoutKind, OwnedKind, Snap, Subject};
use rten::ValueView;
use vp_core::{Ctx, Json, Tier, json};

// ---------------------------------------------------------------------------
// C14
// ---------------------------------------------------------------------------

fn perms_for(rank: usize, thorough: bool) -> Vec<Vec<usize>> {
    if rank < 2 {
        return vec![];
    }
    let mut v: Vec<Vec<usize>> = Vec::new();
    if thorough && rank <= 3 {
        for p in crate::catalogue::permutations(rank) {
            if p.iter().enumerate().any(|(i, x)| i != *x) {
                v.push(p);
            }
        }
    } else {
        v.push((0..rank).rev().collect());
        if rank >= 3 {
            let mut rot: Vec<usize> = (1..rank).collect();
            rot.push(0);
            v.push(rot);
            if thorough {
                let mut sw: Vec<usize> = (0..rank).collect();
                sw.swap(rank - 1, rank - 2);
                v.push(sw);
                let mut sw: Vec<usize> = (0..rank).collect();
                sw.swap(0, 1);
                v.push(sw);
            }
        }
    }
    v
}

fn steps_for(rank: usize) -> Vec<Vec<usize>> {
    if rank == 0 {
        return vec![];
    }
    let mut v = vec![vec![1; rank]];
    let mut last = vec![1; rank];
    last[rank - 1] = 2;
    v.push(last);
    if rank >= 2 {
        let mut first = vec![1; rank];
        first[0] = 3;
        v.push(first);
        v.push(vec![2; rank]);
    }
    v
}

/// (description, per-input layout) variants for one case.
fn c14_variants(case: &Case, tier: Tier) -> Vec<(String, Vec<LayoutKind>)> {
    let n = case.inputs.len();
    let base: Vec<LayoutKind> = vec![LayoutKind::Contiguous; n];
    let mut out = Vec::new();
    for (j, t) in case.inputs.iter().enumerate() {
        let Some(t) = t else { continue };
        if t.numel() == 0 {
            continue;
        }
        for p in perms_for(t.rank(), tier.is_thorough()) {
            let mut l = base.clone();
            l[j] = LayoutKind::Permuted(p);
            out.push((format!("input {j} as a permuted view of a permuted buffer"), l));
        }
        for s in steps_for(t.rank()) {
            let mut l = base.clone();
            l[j] = LayoutKind::Stepped(s);
            out.push((format!("input {j} as a stepped slice of a padded buffer"), l));
        }
    }
    // all at once
    let mut all = base.clone();
    let mut any = 0;
    for (j, t) in case.inputs.iter().enumerate() {
        let Some(t) = t else { continue };
        if t.numel() == 0 || t.rank() == 0 {
            continue;
        }
        all[j] = if t.rank() >= 2 && j % 2 == 0 { LayoutKind::Permuted((0..t.rank()).rev().collect()) } else { LayoutKind::Stepped(vec![2; t.rank()]) };
        any += 1;
    }
    if any >= 2 {
        out.push(("all inputs non-contiguous at once".to_string(), all));
    }
    out
}

fn lay_inputs(case: &Case, layouts: &[LayoutKind]) -> Vec<Option<LaidAny>> {
    case.inputs.iter().zip(layouts).map(|(t, l)| t.as_ref().map(|t| subject::lay_rt(t, l))).collect()
}

fn outcome_text(r: &Result<Vec<Snap>, Fail>) -> String {
    match r {
        Ok(v) => v.iter().map(|s| s.brief()).collect::<Vec<_>>().join(" | "),
        Err(f) => f.text(),
    }
}

fn c14_compare(case: &Case, s: &Subject, base: &[Snap], desc: &str, layouts: &[LayoutKind], rep: &mut Report) {
    let op = case.op;
    let laid = lay_inputs(case, layouts);
    let got = subject::run_model(s, &laid);
    rep.stat(op, "layout_runs");
    let same = matches!(&got, Ok(g) if g.as_slice() == base);
    if same {
        return;
    }
    // reproduce once before reporting
    let again = subject::run_model(s, &laid);
    if outcome_text(&again) != outcome_text(&got) {
        rep.violation(format!("{op}: nondeterministic result with non-contiguous input"), json!({"case": case.to_json(), "layouts": layouts.iter().map(|l| l.to_json()).collect::<Vec<_>>()}), "two runs differ".into());
        return;
    }
    // strip the input number for the signature (operand position is kept in the detail)
    let kind = if desc.contains("permuted") {
        "a permuted view"
    } else if desc.contains("stepped") {
        "a stepped slice"
    } else if desc.contains("broadcast") {
        "a broadcast view"
    } else {
        "all inputs non-contiguous"
    };
    let what = if got.is_err() { "fails" } else { "gives a different result" };
    let which = desc.split_whitespace().nth(1).filter(|_| desc.starts_with("input ")).map(|n| format!(" (input {n})")).unwrap_or_default();
    rep.violation(
        format!("{op}: {what} with {kind}{which}"),
        json!({"case": case.to_json(), "layouts": layouts.iter().map(|l| l.to_json()).collect::<Vec<_>>()}),
        format!("{desc}: contiguous = [{}] ; non-contiguous = [{}] ; layouts {:?} ; {}", base.iter().map(|b| b.brief()).collect::<Vec<_>>().join(" | "), outcome_text(&got), layouts, case.brief()),
    );
}

/// `case` with input j made constant along `axis` (copies of the index-0 slice).
fn constant_along(t: &RT, axis: usize) -> RT {
    RT::from_fn(t.dt, &t.shape, |idx| {
        let mut i = idx.to_vec();
        i[axis] = 0;
        t.at(&i)
    })
}

pub fn c14_case(_entry: &Entry, case: &Case, rep: &mut Report, tier: Tier) {
    let op = case.op;
    rep.stat(op, "cases");
    let s = match subject::load(case, InputMode::AllRuntime) {
        Ok(s) => s,
        Err(_) => {
            rep.stat(op, "declined_at_load");
            return;
        }
    };
    let n = case.inputs.len();
    let contiguous = vec![LayoutKind::Contiguous; n];
    let base = match subject::run_model(&s, &lay_inputs(case, &contiguous)) {
        Ok(b) => b,
        Err(_) => {
            rep.stat(op, "contiguous_run_fails");
            return;
        }
    };
    rep.stat(op, "cases_with_baseline");
    rep.outcome_hashes.insert(hash_snaps(op, &base));
    let variants = c14_variants(case, tier);
    if !variants.is_empty() {
        rep.stat(op, "cases_with_layout_variants");
    }
    for (desc, layouts) in &variants {
        c14_compare(case, &s, &base, desc, layouts, rep);
    }
    // broadcast views: make input j constant along axis k, new contiguous baseline, then stride 0
    for (j, t) in case.inputs.iter().enumerate() {
        let Some(t) = t else { continue };
        for k in 0..t.rank() {
            if t.shape[k] < 2 || t.numel() == 0 {
                continue;
            }
            let mut c2 = case.clone();
            c2.inputs[j] = Some(constant_along(t, k));
            let Ok(b2) = subject::run_model(&s, &lay_inputs(&c2, &contiguous)) else {
                rep.stat(op, "broadcast_baseline_fails");
                continue;
            };
            let mut l = contiguous.clone();
            l[j] = LayoutKind::Broadcast(k);
            c14_compare(&c2, &s, &b2, &format!("input {j} as a broadcast view (stride 0 along axis {k})"), &l, rep);
        }
    }
    if rep.samples.len() < 2 && rep.per_op[op].get("cases_with_layout_variants") == 1 {
        rep.samples.push(json!({"case": case.brief(), "variants": variants.iter().map(|(d, _)| d.clone()).collect::<Vec<_>>(), "contiguous_output": base.iter().map(|b| b.brief()).collect::<Vec<_>>()}));
    }
}

fn layouts_from_json(j: &Json) -> Option<Vec<LayoutKind>> {
    j.as_array()?.iter().map(LayoutKind::from_json).collect()
}

pub fn run_c14(ctx: Ctx) -> ! {
    let tier = ctx.tier;
    if let Some(p) = ctx.replay.clone() {
        let j = vp_core::read_replay_case(&p);
        let (Some(case), Some(layouts)) = (Case::from_json(&j["case"]), layouts_from_json(&j["layouts"])) else { ctx.machinery("replay: cannot parse case") };
        let mut rep = Report::default();
        match subject::load(&case, InputMode::AllRuntime) {
            Ok(s) => match subject::run_model(&s, &lay_inputs(&case, &vec![LayoutKind::Contiguous; case.inputs.len()])) {
                Ok(base) => {
                    let desc = layouts.iter().enumerate().find(|(_, l)| **l != LayoutKind::Contiguous).map(|(i, l)| format!("input {i} as a {}", l.name())).unwrap_or_default();
                    let desc = if layouts.iter().filter(|l| **l != LayoutKind::Contiguous).count() > 1 { "all inputs non-contiguous at once".to_string() } else { desc };
                    c14_compare(&case, &s, &base, &desc, &layouts, &mut rep);
                    println!("replay: {} ; layouts {:?} ; contiguous = {}", case.brief(), layouts, base.iter().map(|b| b.brief()).collect::<Vec<_>>().join(" | "));
                }
                Err(f) => println!("replay: contiguous run fails: {}", f.text()),
            },
            Err(f) => println!("replay: load fails: {}", f.text()),
        }
        emit(&ctx, &mut rep);
        ctx.finish("exploration", json!({"evaluations": 1, "distinct_nontrivial": 2, "rule": "replay of one case/layout", "samples": [case.brief()], "exhaustive": true}), vec![]);
    }
    let t0 = cpu_seconds();
    let work = build_work(&ctx);
    let mut rep = run_all(&work, |e, c, r| c14_case(e, c, r, tier));
    let cpu = cpu_seconds() - t0;
    let runs = rep.total("layout_runs");
    if runs == 0 {
        ctx.machinery("C14: no layout variant was run");
    }
    let ops: Vec<&String> = rep.per_op.iter().filter(|(_, s)| s.get("layout_runs") > 0).map(|(k, _)| k).collect();
    let coverage = json!({
        "evaluations": runs,
        "distinct_nontrivial": rep.outcome_hashes.len(),
        "rule": "every catalogue case whose contiguous run succeeds x every run-time input x {permuted view of a permuted buffer (quick: reversed + rotated axes; thorough: all permutations up to rank 3), stepped slice of a padded buffer (offset only; step 2 on last axis; step 3 on first axis; step 2 everywhere), broadcast view (stride 0) along every axis of extent > 1 after making the input constant along that axis} + all inputs non-contiguous at once; every input (also i64/bool/f64-typed ones, in rten's representation) is a run-time view passed to Model::run; outputs compared bit for bit (shape, dtype, data) with the contiguous run",
        "exhaustive": true,
        "cases": rep.total("cases"),
        "cases_with_baseline": rep.total("cases_with_baseline"),
        "cases_with_layout_variants": rep.total("cases_with_layout_variants"),
        "layout_runs": runs,
        "operators": ops,
        "operators_count": ops.len(),
        "per_operator": per_op_json(&rep),
        "padding_sentinel": "padded buffers are filled with 7777 / 77 so that a read outside the view shows up in the output",
        "cpu_s": (cpu * 10.0).round() / 10.0,
        "samples": rep.samples.clone(),
    });
    println!("C14 summary: ops={} cases={} with_baseline={} layout_runs={} distinct_outputs={} cpu={:.1}s", ops.len(), rep.total("cases"), rep.total("cases_with_baseline"), runs, rep.outcome_hashes.len(), cpu);
    emit(&ctx, &mut rep);
    ctx.finish(
        "exploration",
        coverage,
        vec!["layouts with negative strides do not exist in rten-tensor and are not enumerated".into(), "the TransformInputs route (Transpose fused into MatMul/Concat/Expand/Slice/Split by the optimizer) is exercised by C01, not here".into()],
    );
}

// ---------------------------------------------------------------------------
// C13
// ---------------------------------------------------------------------------

fn owned_kinds(t: &RT, tier: Tier) -> Vec<OwnedKind> {
    let mut v = vec![OwnedKind::Contiguous, OwnedKind::SpareCapacity];
    for p in perms_for(t.rank(), tier.is_thorough()) {
        v.push(OwnedKind::Permuted(p));
    }
    if t.numel() > 0 {
        for a in 0..t.rank() {
            v.push(OwnedKind::SpareAlongAxis(a));
        }
    }
    v
}

fn value_views<'a>(laid: &'a [Option<LaidAny>]) -> Result<Vec<Option<ValueView<'a>>>, String> {
    laid.iter().map(|l| l.as_ref().map(|l| l.value_view()).transpose()).collect()
}

pub fn c13_case(_entry: &Entry, case: &Case, rep: &mut Report, tier: Tier, only: Option<(usize, &OwnedKind)>) {
    let op = case.op;
    rep.stat(op, "cases");
    let s = match subject::load(case, InputMode::AllRuntime) {
        Ok(s) => s,
        Err(_) => {
            rep.stat(op, "declined_at_load");
            return;
        }
    };
    let Some(node) = subject::op_node(&s.model) else {
        rep.observe("harness: model does not have exactly one operator node".into());
        return;
    };
    let ipi = node.operator().in_place_inputs();
    if ipi.is_empty() {
        rep.stat(op, "not_in_place_capable");
        return;
    }
    let commutative = node.operator().is_commutative();
    let laid = subject::contiguous_inputs(case, InputMode::AllRuntime);
    let views = match value_views(&laid) {
        Ok(v) => v,
        Err(e) => {
            rep.observe(format!("harness: {e}"));
            return;
        }
    };
    let all_inputs = match subject::direct_input_views(&s, node, &views, &[]) {
        Ok(v) => v,
        Err(e) => {
            rep.observe(format!("harness: {e}"));
            return;
        }
    };
    let base = match subject::direct_run(node, all_inputs) {
        Ok(b) => b,
        Err(_) => {
            rep.stat(op, "normal_run_fails");
            return;
        }
    };
    rep.stat(op, "cases_with_baseline");
    rep.outcome_hashes.insert(hash_snaps(op, &base));
    // sanity: the direct run agrees with Model::run
    if let Ok(m) = subject::run_model(&s, &laid) {
        if m != base {
            rep.observe(format!("harness: direct Operator::run differs from Model::run for {op}"));
        }
    }
    // candidate positions
    let positions: Vec<usize> = if commutative {
        (0..node.input_ids().len()).filter(|p| subject::case_input_of_pos(&s, node, *p).is_some()).collect()
    } else {
        ipi.iter().map(|i| i as usize).collect()
    };
    let groups: Vec<Vec<usize>> = if commutative { positions.iter().map(|p| vec![*p]).collect() } else { vec![positions.clone()] };
    for group in groups {
        // every position of the group must be fed by a run-time input
        let js: Vec<Option<usize>> = group.iter().map(|p| subject::case_input_of_pos(&s, node, *p)).collect();
        if js.iter().any(|j| j.is_none()) {
            rep.stat(op, "in_place_input_is_constant_or_absent");
            continue;
        }
        let js: Vec<usize> = js.into_iter().flatten().collect();
        let lead = case.inputs[js[0]].as_ref().unwrap();
        let kinds: Vec<OwnedKind> = owned_kinds(lead, tier).into_iter().filter(|_| only.map(|(p, _)| p == group[0]).unwrap_or(true)).collect(); // replay: all owned variants of the recorded position, so that the signature is reproduced
        let mut failures: Vec<(OwnedKind, &'static str, String)> = Vec::new();
        let mut tried = 0usize;
        for kind in &kinds {
            let mut owned = Vec::new();
            let mut ok = true;
            for (gi, (&p, &j)) in group.iter().zip(js.iter()).enumerate() {
                let t = case.inputs[j].as_ref().unwrap();
                // the variant applies to the first in-place input; further ones are plain owned copies
                let k = if gi == 0 { kind.clone() } else { OwnedKind::Contiguous };
                match subject::owned_value(t, &k) {
                    Ok(v) => owned.push((p, v)),
                    Err(_) => ok = false,
                }
            }
            if !ok {
                rep.stat(op, "variant_not_constructible");
                continue;
            }
            let rest = match subject::direct_input_views(&s, node, &views, &group) {
                Ok(v) => v,
                Err(e) => {
                    rep.observe(format!("harness: {e}"));
                    continue;
                }
            };
            rep.stat(op, "in_place_runs");
            tried += 1;
            let got = subject::direct_run_in_place(node, owned, rest);
            let same = matches!(&got, Ok(g) if *g == base);
            if same {
                continue;
            }
            let what = match &got {
                Err(Fail::RunPanic(_)) => "in-place run panics where the normal run succeeds",
                _ => "in-place run does not reproduce the normal run",
            };
            failures.push((kind.clone(), what, outcome_text(&got)));
        }
        // if every owned variant fails, the ownership form is not the discriminating feature
        let all_fail = tried > 1 && failures.len() == tried;
        let pos_desc = if commutative { format!("commuted operand {}", group[0]) } else { format!("input {}", group[0]) };
        for (kind, what, text) in failures {
            let kname = if all_fail { "every owned variant".to_string() } else { kind.name() };
            rep.violation(
                format!("{op}: {what} [{}; {}{}]", kname, pos_desc, if case.class.is_empty() { String::new() } else { format!("; {}", case.class) }),
                json!({"case": case.to_json(), "position": group[0], "owned": kind.to_json()}),
                format!("normal = [{}] ; in place = [{}] ; owned {:?} at position {:?} ; {}", base.iter().map(|b| b.brief()).collect::<Vec<_>>().join(" | "), text, kind, group, case.brief()),
            );
        }
    }
    if rep.samples.len() < 2 && rep.per_op[op].get("cases_with_baseline") == 1 && rep.per_op[op].get("in_place_runs") > 0 {
        rep.samples.push(json!({"case": case.brief(), "in_place_inputs": ipi.iter().collect::<Vec<_>>(), "commutative": commutative, "normal_output": base.iter().map(|b| b.brief()).collect::<Vec<_>>()}));
    }
}

pub fn run_c13(ctx: Ctx) -> ! {
    let tier = ctx.tier;
    if let Some(p) = ctx.replay.clone() {
        let j = vp_core::read_replay_case(&p);
        let (Some(case), Some(kind), Some(pos)) = (Case::from_json(&j["case"]), OwnedKind::from_json(&j["owned"]), j["position"].as_u64()) else { ctx.machinery("replay: cannot parse case") };
        let entries = crate::catalogue::entries();
        let Some(entry) = entries.iter().find(|e| e.op == case.op) else { ctx.machinery("replay: unknown operator") };
        let mut rep = Report::default();
        c13_case(entry, &case, &mut rep, Tier::Thorough, Some((pos as usize, &kind)));
        println!("replay: {} ; owned {:?} at position {}", case.brief(), kind, pos);
        emit(&ctx, &mut rep);
        ctx.finish("exploration", json!({"evaluations": 1, "distinct_nontrivial": 2, "rule": "replay of one case/variant", "samples": [case.brief()], "exhaustive": true}), vec![]);
    }
    let t0 = cpu_seconds();
    let work = build_work(&ctx);
    let mut rep = run_all(&work, |e, c, r| c13_case(e, c, r, tier, None));
    let cpu = cpu_seconds() - t0;
    let runs = rep.total("in_place_runs");
    if runs == 0 {
        ctx.machinery("C13: no in-place run was made");
    }
    let ops: Vec<&String> = rep.per_op.iter().filter(|(_, s)| s.get("in_place_runs") > 0).map(|(k, _)| k).collect();
    let not_capable: Vec<&String> = rep.per_op.iter().filter(|(_, s)| s.get("not_in_place_capable") > 0 && s.get("in_place_runs") == 0).map(|(k, _)| k).collect();
    let coverage = json!({
        "evaluations": runs,
        "distinct_nontrivial": rep.outcome_hashes.len(),
        "rule": "every catalogue case of an operator whose in_place_inputs() is non-empty and whose normal Operator::run succeeds x {owned contiguous, owned with spare Vec capacity, owned non-contiguous (buffer in permuted axis order, tensor permuted back in place), owned with room to grow along each axis (Tensor::with_capacity + append)} x (commutative operators: every operand position; others: the declared in-place positions), called as Graph::run_plan does: InPlaceInputs (pos, value), None placeholder in the InputList, same OutputMask; output compared bit for bit (shape, dtype, data) with the normal run. The operator is the node of the loaded single-operator model; attribute-promoted inputs stay graph constants",
        "exhaustive": true,
        "cases": rep.total("cases"),
        "cases_with_baseline": rep.total("cases_with_baseline"),
        "in_place_runs": runs,
        "operators_run_in_place": ops,
        "operators_run_in_place_count": ops.len(),
        "catalogue_operators_without_in_place_support": not_capable,
        "per_operator": per_op_json(&rep),
        "cpu_s": (cpu * 10.0).round() / 10.0,
        "samples": rep.samples.clone(),
    });
    println!("C13 summary: ops_in_place={} cases={} with_baseline={} in_place_runs={} distinct_outputs={} cpu={:.1}s", ops.len(), rep.total("cases"), rep.total("cases_with_baseline"), runs, rep.outcome_hashes.len(), cpu);
    emit(&ctx, &mut rep);
    ctx.finish(
        "exploration",
        coverage,
        vec![
            "in-place capable operators that cannot be reached through a single-operator ONNX model of the catalogue (attention operators, sequence operators with sequence inputs, fused operators and TransformInputs wrappers created by the optimizer) are not covered".into(),
            "'smaller broadcast operand' is covered through the shape grid of the binary operators (input 0 smaller than input 1)".into(),
        ],
    );
}
