//! mc-ops: operator-semantics engine (C15, C12, C14, C13).

mod case;
mod catalogue;
mod common;
mod conform;
mod layout;
mod refops;
mod rt;
mod optout;
mod seqchain;
mod subject;

fn main() {
    // rten operators use rayon; keep any implicitly created global pool tiny.
    unsafe { std::env::set_var("RAYON_NUM_THREADS", "1") };
    let prop = std::env::args().nth(1).unwrap_or_default();
    match prop.as_str() {
        "C15" => conform::run_c15(vp_core::Ctx::from_env("C15")),
        "C12" => conform::run_c12(vp_core::Ctx::from_env("C12")),
        "C14" => layout::run_c14(vp_core::Ctx::from_env("C14")),
        "C13" => layout::run_c13(vp_core::Ctx::from_env("C13")),
        _ => vp_core::machinery_error("unknown property (mc-ops serves C12 C13 C14 C15)"),
    }
}
