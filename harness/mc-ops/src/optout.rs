//! C12 sub-box "omitted optional outputs": multi-output operators whose outputs
//! have different types, with every non-empty proper subset of the outputs left
//! out (empty output name, as ONNX allows for unused optional outputs). The type
//! of each remaining output - as labelled by `infer_shapes` and as predicted by
//! the operator's `output_types()` rule at the output's ORIGINAL position - must
//! equal the type of the value a run produces.

use std::collections::HashMap;

use rten::verif::graph::Node;
use rten::verif::infer_shapes::{InferShapeOptions, infer_shapes};
use rten::verif::operator::{OutputType, OutputTypesContext};
use rten::{ModelOptions, NodeId, ValueType};
use vp_core::{Json, json};
use vp_onnx as onnx;

use crate::common::Report;

struct Spec {
    op: &'static str,
    n_out: usize,
    build: fn(&[&str]) -> onnx::Graph,
}

fn base(name: &str) -> onnx::Graph {
    let mut g = onnx::Graph::new(name);
    g.initializers.push(onnx::Tensor::f32("X", &[2, 3], &[0.5, -1.0, 2.0, 4.0, 3.0, -2.5]));
    g
}

fn specs() -> Vec<Spec> {
    vec![
        Spec {
            op: "TopK",
            n_out: 2,
            build: |o| {
                let mut g = base("topk");
                g.initializers.push(onnx::Tensor::i64("K", &[1], &[2]));
                g.nodes.push(onnx::Node::new("TopK", &["X", "K"], o).named("op"));
                g
            },
        },
        Spec {
            op: "DynamicQuantizeLinear",
            n_out: 3,
            build: |o| {
                let mut g = base("dql");
                g.nodes.push(onnx::Node::new("DynamicQuantizeLinear", &["X"], o).named("op"));
                g
            },
        },
        Spec {
            op: "Dropout",
            n_out: 2,
            build: |o| {
                let mut g = base("dropout");
                g.nodes.push(onnx::Node::new("Dropout", &["X"], o).named("op"));
                g
            },
        },
        Spec {
            op: "MaxPool",
            n_out: 2,
            build: |o| {
                let mut g = onnx::Graph::new("maxpool");
                g.initializers.push(onnx::Tensor::f32("X", &[1, 1, 2, 3], &[0.5, -1.0, 2.0, 4.0, 3.0, -2.5]));
                g.nodes.push(onnx::Node::new("MaxPool", &["X"], o).attr("kernel_shape", onnx::Attr::Ints(vec![1, 2])).named("op"));
                g
            },
        },
        Spec {
            op: "LayerNormalization",
            n_out: 3,
            build: |o| {
                let mut g = base("ln");
                g.initializers.push(onnx::Tensor::f32("S", &[3], &[1.0, 1.0, 1.0]));
                g.nodes.push(onnx::Node::new("LayerNormalization", &["X", "S"], o).named("op"));
                g
            },
        },
        Spec {
            op: "Split",
            n_out: 3,
            build: |o| {
                let mut g = base("split");
                g.nodes.push(onnx::Node::new("Split", &["X"], o).attr("axis", onnx::Attr::Int(1)).attr("num_outputs", onnx::Attr::Int(3)).named("op"));
                g
            },
        },
    ]
}

fn case_json(op: &str, mask: u32) -> Json {
    json!({"omitted_outputs": {"op": op, "kept_mask": mask}})
}

fn run_case(spec: &Spec, mask: u32, rep: &mut Report) {
    let tag = "omitted-outputs";
    rep.stat(tag, "cases");
    let names: Vec<String> = (0..spec.n_out).map(|i| if mask >> i & 1 == 1 { format!("O{i}") } else { String::new() }).collect();
    let refs: Vec<&str> = names.iter().map(|s| s.as_str()).collect();
    let mut g = (spec.build)(&refs);
    for n in names.iter().filter(|n| !n.is_empty()) {
        g.outputs.push(onnx::ValueInfo::untyped(n));
    }
    let mut mo = ModelOptions::with_all_ops();
    mo.enable_optimization(false);
    let model = match vp_core::catch(|| mo.load(onnx::model_bytes(&g))) {
        Ok(Ok(m)) => m,
        Ok(Err(_)) => {
            rep.stat(tag, "declined");
            return;
        }
        Err(p) => {
            rep.observe(format!("omitted outputs: load panics: {}", vp_core::truncate(&p, 60)));
            return;
        }
    };
    let kept: Vec<(usize, NodeId)> = names.iter().enumerate().filter(|(_, n)| !n.is_empty()).filter_map(|(i, n)| model.find_node(n).map(|id| (i, id))).collect();
    let ids: Vec<NodeId> = kept.iter().map(|k| k.1).collect();
    let vals = match vp_core::catch(|| model.run(vec![], &ids, None)) {
        Ok(Ok(v)) => v,
        Ok(Err(_)) => {
            rep.stat(tag, "run_error");
            return;
        }
        Err(p) => {
            rep.observe(format!("omitted outputs: run panics: {}", vp_core::truncate(&p, 60)));
            return;
        }
    };
    rep.stat(tag, "successful_runs");
    let actual: HashMap<NodeId, ValueType> = ids.iter().copied().zip(vals.iter().map(|v| v.dtype())).collect();
    let graph = model.verif_graph();
    let labels = vp_core::catch(|| infer_shapes(graph, InferShapeOptions::default())).ok().and_then(|r| r.ok());
    let x_type = graph.iter().find_map(|(_, n)| match n {
        Node::Constant(c) if c.name() == Some("X") => Some(c.as_view().dtype()),
        _ => None,
    });
    for (_, node) in graph.iter() {
        let Node::Operator(opn) = node else { continue };
        let rules = opn.operator().output_types(&OutputTypesContext { num_outputs: opn.output_ids().len() });
        for (pos, oid) in opn.output_ids().iter().enumerate() {
            let Some(oid) = oid else { continue };
            let Some(act) = actual.get(oid).copied() else { continue };
            rep.stat(tag, "outputs_checked");
            rep.stat(spec.op, "outputs_checked");
            rep.outcome_hashes.insert(vp_core::fnv(format!("optout/{}/{pos}/{mask}/{act}", spec.op).as_bytes()));
            if let Some(l) = labels.as_ref().and_then(|l| l.types.get(oid)) {
                rep.stat(tag, "graph_level_labels_checked");
                if *l != act {
                    rep.violation(
                        format!("{}: infer_shapes labels output {pos} as {l} but the run produces {act} [an earlier optional output is omitted]", spec.op),
                        json!({"case": case_json(spec.op, mask)}),
                        format!("outputs kept: {names:?}"),
                    );
                    continue;
                }
            }
            if let Some(rule) = rules.as_ref().and_then(|r| r.get(pos)) {
                let predicted = match rule {
                    OutputType::Fixed(v) => Some(*v),
                    OutputType::CopyFromInput(0) => x_type,
                    _ => None,
                };
                if let Some(p) = predicted {
                    if p != act {
                        rep.violation(
                            format!("{}: output {pos} has type {act} but its declared rule predicts {p} [some outputs omitted]", spec.op),
                            json!({"case": case_json(spec.op, mask)}),
                            format!("outputs kept: {names:?}"),
                        );
                    }
                }
            }
        }
    }
}

pub fn run_all(rep: &mut Report) {
    for spec in specs() {
        for mask in 1u32..(1 << spec.n_out) {
            run_case(&spec, mask, rep);
        }
    }
}

pub fn replay(j: &Json, rep: &mut Report) -> bool {
    let s = &j["omitted_outputs"];
    if s.is_null() {
        return false;
    }
    let op = s["op"].as_str().unwrap_or("");
    let mask = s["kept_mask"].as_u64().unwrap_or(1) as u32;
    if let Some(spec) = specs().into_iter().find(|sp| sp.op == op) {
        run_case(&spec, mask, rep);
    }
    true
}
