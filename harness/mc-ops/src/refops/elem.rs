//! Element-wise operators.

use super::{RefErr, RefResult, invalid, need, round_half_even, undefined};
use crate::case::Case;
use crate::rt::{Dt, RT, broadcast_all, broadcast_shapes};

fn is_arith(op: &str) -> bool {
    matches!(op, "Add" | "Sub" | "Mul" | "Div" | "Mod" | "Pow" | "PRelu")
}
fn is_cmp(op: &str) -> bool {
    matches!(op, "Equal" | "Less" | "LessOrEqual" | "Greater" | "GreaterOrEqual")
}
fn is_logic(op: &str) -> bool {
    matches!(op, "And" | "Or" | "Xor")
}

fn int_pow(base: i128, exp: i64) -> Result<f64, RefErr> {
    let mut acc: i128 = 1;
    for _ in 0..exp {
        acc = acc.checked_mul(base).ok_or(RefErr::Undefined("integer pow overflow".into()))?;
        if acc.abs() > (1i128 << 62) {
            return undefined("integer pow overflow");
        }
    }
    Ok(acc as f64)
}

pub fn binary(case: &Case) -> RefResult {
    let op = case.op;
    let a = need(case, 0)?;
    let b = need(case, 1)?;
    let fmod = case.int("fmod", 0) != 0;
    // ---- typing
    let out_dt = if is_arith(op) {
        if op == "Pow" {
            if matches!(a.dt, Dt::Bool | Dt::U8 | Dt::I8) || b.dt == Dt::Bool {
                return invalid("Pow: unsupported element type");
            }
        } else if a.dt != b.dt {
            return invalid("element types differ");
        }
        if a.dt == Dt::Bool {
            return invalid("arithmetic on bool");
        }
        if op == "PRelu" && matches!(a.dt, Dt::I8 | Dt::U8) {
            return invalid("PRelu element type");
        }
        a.dt
    } else if is_cmp(op) {
        if a.dt != b.dt {
            return invalid("element types differ");
        }
        if a.dt == Dt::Bool && op != "Equal" {
            return invalid("ordering comparison on bool");
        }
        Dt::Bool
    } else if is_logic(op) {
        if a.dt != Dt::Bool || b.dt != Dt::Bool {
            return invalid("logical operator needs bool inputs");
        }
        Dt::Bool
    } else {
        return Err(RefErr::Unimplemented(op.into()));
    };
    // ---- shape
    let shape = if op == "PRelu" {
        // slope must be unidirectionally broadcastable to X
        let s = broadcast_shapes(&a.shape, &b.shape).ok_or(RefErr::Invalid("not broadcastable".into()))?;
        if s != a.shape {
            return invalid("PRelu slope not unidirectionally broadcastable to X");
        }
        s
    } else {
        broadcast_shapes(&a.shape, &b.shape).ok_or(RefErr::Invalid("not broadcastable".into()))?
    };
    let float = a.dt.is_float();
    let mut err: Option<RefErr> = None;
    let out = RT::from_fn(out_dt, &shape, |idx| {
        let x = a.at_bcast(idx);
        let y = b.at_bcast(idx);
        let r: Result<f64, RefErr> = (|| {
            Ok(match op {
                "Add" => x + y,
                "Sub" => x - y,
                "Mul" => {
                    if float {
                        x * y
                    } else {
                        ((x as i128) * (y as i128)) as f64
                    }
                }
                "Div" => {
                    if float {
                        x / y
                    } else {
                        if y == 0.0 {
                            return undefined("integer division by zero");
                        }
                        let (xi, yi) = (x as i128, y as i128);
                        (xi / yi) as f64 // truncating
                    }
                }
                "Mod" => {
                    if float {
                        if !fmod {
                            return invalid("Mod with fmod=0 on floating point input");
                        }
                        if y == 0.0 {
                            return undefined("fmod by zero");
                        }
                        x % y
                    } else {
                        if y == 0.0 {
                            return undefined("integer mod by zero");
                        }
                        let (xi, yi) = (x as i128, y as i128);
                        if fmod {
                            (xi % yi) as f64
                        } else {
                            (xi.rem_euclid(yi) + if yi < 0 && xi.rem_euclid(yi) != 0 { yi } else { 0 }) as f64
                        }
                    }
                }
                "Pow" => {
                    if float {
                        if x < 0.0 && y != y.trunc() {
                            return undefined("pow of negative base with fractional exponent");
                        }
                        if x == 0.0 && y < 0.0 {
                            return undefined("pow(0, negative)");
                        }
                        x.powf(y)
                    } else {
                        if y != y.trunc() || y < 0.0 {
                            return undefined("integer base with negative or fractional exponent");
                        }
                        int_pow(x as i128, y as i64)?
                    }
                }
                "PRelu" => {
                    if x < 0.0 {
                        if float { x * y } else { ((x as i128) * (y as i128)) as f64 }
                    } else {
                        x
                    }
                }
                "Equal" => (x == y) as i32 as f64,
                "Less" => (x < y) as i32 as f64,
                "LessOrEqual" => (x <= y) as i32 as f64,
                "Greater" => (x > y) as i32 as f64,
                "GreaterOrEqual" => (x >= y) as i32 as f64,
                "And" => ((x != 0.0) && (y != 0.0)) as i32 as f64,
                "Or" => ((x != 0.0) || (y != 0.0)) as i32 as f64,
                "Xor" => ((x != 0.0) != (y != 0.0)) as i32 as f64,
                _ => unreachable!(),
            })
        })();
        match r {
            Ok(v) => v,
            Err(e) => {
                if err.is_none() {
                    err = Some(e);
                }
                0.0
            }
        }
    });
    if let Some(e) = err {
        return Err(e);
    }
    Ok(vec![out])
}

fn float_only(op: &str) -> bool {
    !matches!(op, "Abs" | "Neg" | "Sign" | "Relu" | "Not" | "Identity")
}

pub fn unary(case: &Case) -> RefResult {
    let op = case.op;
    let x = need(case, 0)?;
    let dt = x.dt;
    if op == "Identity" {
        return Ok(vec![x.clone()]);
    }
    if op == "Not" {
        if dt != Dt::Bool {
            return invalid("Not needs bool");
        }
    } else if dt == Dt::Bool {
        return invalid("bool input");
    } else if float_only(op) && !dt.is_float() {
        return invalid("operator is defined for floating point tensors only");
    } else if matches!(op, "Neg" | "Relu") && dt == Dt::U8 {
        return invalid("unsigned input");
    }
    let alpha_default = match op {
        "LeakyRelu" => 0.01,
        "Elu" => 1.0,
        "HardSigmoid" => 0.2,
        _ => 0.0,
    };
    let alpha = case.float("alpha", alpha_default) as f64;
    let beta = case.float("beta", 0.5) as f64;
    let approx = case.string("approximate", "none");
    let out_dt = if matches!(op, "IsNaN" | "IsInf") { Dt::Bool } else { dt };
    let mut err = None;
    let data: Vec<f64> = x
        .data
        .iter()
        .map(|&v| match op {
            "Abs" => v.abs(),
            "Neg" => -v,
            "Sign" => {
                if v > 0.0 {
                    1.0
                } else if v < 0.0 {
                    -1.0
                } else {
                    v * 0.0 + 0.0 // sign(±0) = 0
                }
            }
            "Relu" => {
                if v > 0.0 {
                    v
                } else {
                    0.0
                }
            }
            "LeakyRelu" => {
                if v < 0.0 {
                    // alpha is an f32 attribute, the product is formed in f32 by any f32 implementation
                    alpha * v
                } else {
                    v
                }
            }
            "Floor" => v.floor(),
            "Ceil" => v.ceil(),
            "Round" => round_half_even(v),
            "Sqrt" => {
                if v < 0.0 {
                    err = Some(RefErr::Undefined("sqrt of negative".into()));
                }
                v.sqrt()
            }
            "Reciprocal" => 1.0 / v,
            "Exp" => v.exp(),
            "Log" => {
                if v <= 0.0 {
                    err = Some(RefErr::Undefined("log of non-positive".into()));
                }
                v.ln()
            }
            "Sigmoid" => 1.0 / (1.0 + (-v).exp()),
            "Tanh" => v.tanh(),
            "Erf" => libm::erf(v),
            "Not" => (v == 0.0) as i32 as f64,
            "Sin" => v.sin(),
            "Cos" => v.cos(),
            "Tan" => v.tan(),
            "Asin" | "Acos" => {
                if v.abs() > 1.0 {
                    err = Some(RefErr::Undefined("asin/acos outside [-1,1]".into()));
                }
                if op == "Asin" { v.asin() } else { v.acos() }
            }
            "Atan" => v.atan(),
            "Sinh" => v.sinh(),
            "Cosh" => v.cosh(),
            "Asinh" => v.asinh(),
            "Acosh" => {
                if v < 1.0 {
                    err = Some(RefErr::Undefined("acosh below 1".into()));
                }
                v.acosh()
            }
            "Atanh" => {
                if v.abs() >= 1.0 {
                    err = Some(RefErr::Undefined("atanh outside (-1,1)".into()));
                }
                v.atanh()
            }
            "Softplus" => (1.0 + v.exp()).ln(),
            "Elu" => {
                if v < 0.0 {
                    alpha * (v.exp() - 1.0)
                } else {
                    v
                }
            }
            "HardSigmoid" => (alpha * v + beta).clamp(0.0, 1.0),
            "HardSwish" => v * (v / 6.0 + 0.5).clamp(0.0, 1.0),
            "Gelu" => {
                if approx == "tanh" {
                    0.5 * v * (1.0 + ((2.0 / std::f64::consts::PI).sqrt() * (v + 0.044715 * v * v * v)).tanh())
                } else {
                    0.5 * v * (1.0 + libm::erf(v / std::f64::consts::SQRT_2))
                }
            }
            "IsNaN" => v.is_nan() as i32 as f64,
            "IsInf" => {
                let pos = case.int("detect_positive", 1) != 0;
                let neg = case.int("detect_negative", 1) != 0;
                ((v == f64::INFINITY && pos) || (v == f64::NEG_INFINITY && neg)) as i32 as f64
            }
            _ => {
                err = Some(RefErr::Unimplemented(op.into()));
                0.0
            }
        })
        .collect();
    if let Some(e) = err {
        return Err(e);
    }
    Ok(vec![RT { dt: out_dt, shape: x.shape.clone(), data }])
}

pub fn variadic(case: &Case) -> RefResult {
    let op = case.op;
    let ins: Vec<&RT> = case.inputs.iter().map(|i| i.as_ref().ok_or(RefErr::Invalid("missing variadic input".into()))).collect::<Result<_, _>>()?;
    if ins.is_empty() {
        return invalid("no inputs");
    }
    let dt = ins[0].dt;
    if ins.iter().any(|t| t.dt != dt) {
        return invalid("element types differ");
    }
    if dt == Dt::Bool {
        return invalid("bool input");
    }
    if matches!(op, "Sum" | "Mean") && !dt.is_float() {
        return invalid("Sum/Mean are defined for floating point tensors");
    }
    let shapes: Vec<&[usize]> = ins.iter().map(|t| t.shape.as_slice()).collect();
    let shape = broadcast_all(&shapes).ok_or(RefErr::Invalid("not broadcastable".into()))?;
    let n = ins.len() as f64;
    let out = RT::from_fn(dt, &shape, |idx| {
        let vals = ins.iter().map(|t| t.at_bcast(idx));
        match op {
            "Max" => vals.fold(f64::NEG_INFINITY, f64::max),
            "Min" => vals.fold(f64::INFINITY, f64::min),
            "Sum" => vals.sum(),
            "Mean" => vals.sum::<f64>() / n,
            _ => unreachable!(),
        }
    });
    Ok(vec![out])
}

pub fn where_(case: &Case) -> RefResult {
    let c = need(case, 0)?;
    let x = need(case, 1)?;
    let y = need(case, 2)?;
    if c.dt != Dt::Bool {
        return invalid("condition must be bool");
    }
    if x.dt != y.dt {
        return invalid("X/Y element types differ");
    }
    let shape = broadcast_all(&[&c.shape, &x.shape, &y.shape]).ok_or(RefErr::Invalid("not broadcastable".into()))?;
    Ok(vec![RT::from_fn(x.dt, &shape, |idx| if c.at_bcast(idx) != 0.0 { x.at_bcast(idx) } else { y.at_bcast(idx) })])
}

pub fn clip(case: &Case) -> RefResult {
    let x = need(case, 0)?;
    if x.dt == Dt::Bool {
        return invalid("bool input");
    }
    let mut lo = f64::NEG_INFINITY;
    let mut hi = f64::INFINITY;
    if case.opset < 11 {
        if let Some(v) = case.float_opt("min") {
            lo = v as f64;
        }
        if let Some(v) = case.float_opt("max") {
            hi = v as f64;
        }
    } else {
        for (i, slot) in [(1usize, &mut lo), (2usize, &mut hi)] {
            if let Some(t) = case.input(i) {
                if t.dt != x.dt {
                    return invalid("min/max element type differs from input");
                }
                if !t.shape.is_empty() {
                    return invalid("min/max must be scalars (empty shape)");
                }
                *slot = t.data[0];
            }
        }
    }
    Ok(vec![RT { dt: x.dt, shape: x.shape.clone(), data: x.data.iter().map(|v| v.max(lo).min(hi)).collect() }])
}

pub fn cast_to(x: &RT, to: Dt) -> RefResult {
    let mut data = Vec::with_capacity(x.data.len());
    for &v in &x.data {
        let r = match to {
            Dt::F32 | Dt::F64 => v,
            Dt::Bool => (v != 0.0) as i32 as f64,
            _ => {
                if x.dt.is_float() {
                    if !v.is_finite() {
                        return undefined("float -> int cast of non-finite value");
                    }
                    v.trunc()
                } else {
                    v
                }
            }
        };
        data.push(r);
    }
    Ok(vec![RT { dt: to, shape: x.shape.clone(), data }])
}

pub fn cast(case: &Case) -> RefResult {
    let x = need(case, 0)?;
    let to = case.int_opt("to").and_then(Dt::from_onnx).ok_or(RefErr::Invalid("bad `to`".into()))?;
    cast_to(x, to)
}

pub fn cast_like(case: &Case) -> RefResult {
    let x = need(case, 0)?;
    let t = need(case, 1)?;
    cast_to(x, t.dt)
}
