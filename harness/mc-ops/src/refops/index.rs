//! Indexing, slicing and layout operators.

use super::{RefErr, RefResult, invalid, need, norm_axis, undefined};
use crate::case::{AV, Case};
use crate::rt::{Dt, RT, broadcast_shapes, numel, ravel, unravel};

fn is_index_dt(dt: Dt) -> bool {
    matches!(dt, Dt::I32 | Dt::I64)
}

/// Resolve an index in [-s, s-1] to [0, s-1].
fn norm_index(i: f64, s: usize) -> Result<usize, RefErr> {
    let i = i as i64;
    let s = s as i64;
    if i < -s || i >= s {
        return invalid(format!("index {i} out of bounds for axis of size {s}"));
    }
    Ok(if i < 0 { (i + s) as usize } else { i as usize })
}

pub fn gather(case: &Case) -> RefResult {
    let data = need(case, 0)?;
    let ind = need(case, 1)?;
    if !is_index_dt(ind.dt) {
        return invalid("indices must be int32/int64");
    }
    let r = data.rank();
    if r == 0 {
        return invalid("data must have rank >= 1");
    }
    let axis = norm_axis(case.int("axis", 0), r)?;
    let q = ind.rank();
    let mut out_shape = Vec::new();
    out_shape.extend_from_slice(&data.shape[..axis]);
    out_shape.extend_from_slice(&ind.shape);
    out_shape.extend_from_slice(&data.shape[axis + 1..]);
    let mut err = None;
    let out = RT::from_fn(data.dt, &out_shape, |idx| {
        let iidx = &idx[axis..axis + q];
        let i = ind.at(iidx);
        let i = match norm_index(i, data.shape[axis]) {
            Ok(i) => i,
            Err(e) => {
                err = Some(e);
                0
            }
        };
        let mut d = Vec::with_capacity(r);
        d.extend_from_slice(&idx[..axis]);
        d.push(i);
        d.extend_from_slice(&idx[axis + q..]);
        if err.is_some() { 0.0 } else { data.at(&d) }
    });
    if let Some(e) = err {
        return Err(e);
    }
    Ok(vec![out])
}

pub fn gather_elements(case: &Case) -> RefResult {
    let data = need(case, 0)?;
    let ind = need(case, 1)?;
    if !is_index_dt(ind.dt) {
        return invalid("indices must be int32/int64");
    }
    let r = data.rank();
    if r == 0 || ind.rank() != r {
        return invalid("data and indices must have the same rank >= 1");
    }
    let axis = norm_axis(case.int("axis", 0), r)?;
    for d in 0..r {
        if d != axis && ind.shape[d] > data.shape[d] {
            return invalid("indices extent exceeds data extent on a non-axis dimension");
        }
    }
    let mut err = None;
    let out = RT::from_fn(data.dt, &ind.shape, |idx| {
        let mut d = idx.to_vec();
        match norm_index(ind.at(idx), data.shape[axis]) {
            Ok(i) => {
                d[axis] = i;
                data.at(&d)
            }
            Err(e) => {
                err = Some(e);
                0.0
            }
        }
    });
    if let Some(e) = err {
        return Err(e);
    }
    Ok(vec![out])
}

pub fn gather_nd(case: &Case) -> RefResult {
    let data = need(case, 0)?;
    let ind = need(case, 1)?;
    if ind.dt != Dt::I64 {
        return invalid("indices must be int64");
    }
    let b = case.int("batch_dims", 0);
    let r = data.rank();
    let q = ind.rank();
    if r == 0 || q == 0 {
        return invalid("rank >= 1 required");
    }
    if b < 0 || b as usize >= r.min(q) {
        return invalid("batch_dims out of range");
    }
    let b = b as usize;
    if data.shape[..b] != ind.shape[..b] {
        return invalid("batch dimensions differ");
    }
    let last = ind.shape[q - 1];
    if last < 1 || last > r - b {
        return invalid("indices last dimension out of range");
    }
    let mut out_shape: Vec<usize> = ind.shape[..q - 1].to_vec();
    out_shape.extend_from_slice(&data.shape[b + last..]);
    let mut err = None;
    let out = RT::from_fn(data.dt, &out_shape, |idx| {
        let pre = &idx[..q - 1];
        let rest = &idx[q - 1..];
        let mut d: Vec<usize> = pre[..b].to_vec();
        for k in 0..last {
            let mut ii = pre.to_vec();
            ii.push(k);
            match norm_index(ind.at(&ii), data.shape[b + k]) {
                Ok(i) => d.push(i),
                Err(e) => {
                    err = Some(e);
                    d.push(0);
                }
            }
        }
        d.extend_from_slice(rest);
        if err.is_some() { 0.0 } else { data.at(&d) }
    });
    if let Some(e) = err {
        return Err(e);
    }
    Ok(vec![out])
}

fn apply_reduction(red: &str, old: f64, upd: f64) -> f64 {
    match red {
        "add" => old + upd,
        "mul" => old * upd,
        "max" => old.max(upd),
        "min" => old.min(upd),
        _ => upd,
    }
}

pub fn scatter_elements(case: &Case) -> RefResult {
    let data = need(case, 0)?;
    let ind = need(case, 1)?;
    let upd = need(case, 2)?;
    if !is_index_dt(ind.dt) {
        return invalid("indices must be int32/int64");
    }
    if upd.dt != data.dt {
        return invalid("updates element type differs");
    }
    let r = data.rank();
    if r == 0 || ind.rank() != r || upd.shape != ind.shape {
        return invalid("rank/shape mismatch");
    }
    let axis = norm_axis(case.int("axis", 0), r)?;
    let red = case.string("reduction", "none");
    if !matches!(red.as_str(), "none" | "add" | "mul" | "max" | "min") {
        return invalid("unknown reduction");
    }
    if red != "none" && data.dt == Dt::Bool {
        return invalid("reduction on bool");
    }
    for d in 0..r {
        if d != axis && ind.shape[d] > data.shape[d] {
            return invalid("indices extent exceeds data extent on a non-axis dimension");
        }
    }
    let mut out = data.clone();
    let mut written = vec![false; out.data.len()];
    for l in 0..ind.numel() {
        let idx = unravel(l, &ind.shape);
        let mut d = idx.clone();
        d[axis] = norm_index(ind.data[l], data.shape[axis])?;
        let o = ravel(&d, &data.shape);
        if red == "none" {
            if written[o] && out.data[o] != upd.data[l] {
                return undefined("duplicate indices with reduction=none: the winner is not specified");
            }
            written[o] = true;
        }
        out.data[o] = apply_reduction(&red, out.data[o], upd.data[l]);
    }
    Ok(vec![out])
}

pub fn scatter_nd(case: &Case) -> RefResult {
    let data = need(case, 0)?;
    let ind = need(case, 1)?;
    let upd = need(case, 2)?;
    if ind.dt != Dt::I64 {
        return invalid("indices must be int64");
    }
    if upd.dt != data.dt {
        return invalid("updates element type differs");
    }
    let r = data.rank();
    let q = ind.rank();
    if r == 0 || q == 0 {
        return invalid("rank >= 1 required");
    }
    let k = ind.shape[q - 1];
    if k > r {
        return invalid("indices last dimension exceeds data rank");
    }
    let mut expect: Vec<usize> = ind.shape[..q - 1].to_vec();
    expect.extend_from_slice(&data.shape[k..]);
    if upd.shape != expect {
        return invalid("updates shape");
    }
    let red = case.string("reduction", "none");
    if !matches!(red.as_str(), "none" | "add" | "mul" | "max" | "min") {
        return invalid("unknown reduction");
    }
    let mut out = data.clone();
    let mut written = vec![false; out.data.len()];
    let slice_shape: Vec<usize> = data.shape[k..].to_vec();
    let nslice = numel(&slice_shape);
    let npre = numel(&ind.shape[..q - 1]);
    for p in 0..npre {
        let pre = unravel(p, &ind.shape[..q - 1]);
        let mut d0: Vec<usize> = Vec::new();
        for j in 0..k {
            let mut ii = pre.clone();
            ii.push(j);
            let v = ind.at(&ii) as i64;
            if v < 0 {
                return undefined("negative index in ScatterND (not mentioned by the specification)");
            }
            if v as usize >= data.shape[j] {
                return invalid("index out of bounds");
            }
            d0.push(v as usize);
        }
        for s in 0..nslice {
            let rest = unravel(s, &slice_shape);
            let mut d = d0.clone();
            d.extend_from_slice(&rest);
            let o = ravel(&d, &data.shape);
            let mut u = pre.clone();
            u.extend_from_slice(&rest);
            let uv = upd.at(&u);
            if red == "none" {
                if written[o] && out.data[o] != uv {
                    return undefined("duplicate indices with reduction=none");
                }
                written[o] = true;
            }
            out.data[o] = apply_reduction(&red, out.data[o], uv);
        }
    }
    Ok(vec![out])
}

fn index_vec(case: &Case, attr: &str, input: usize) -> Result<Option<Vec<i64>>, RefErr> {
    if let Some(v) = case.ints(attr) {
        return Ok(Some(v));
    }
    match case.input(input) {
        None => Ok(None),
        Some(t) => {
            if !is_index_dt(t.dt) {
                return invalid(format!("{attr} must be int32/int64"));
            }
            if t.rank() != 1 {
                return invalid(format!("{attr} must be 1-D"));
            }
            Ok(Some(t.ints()))
        }
    }
}

pub fn slice(case: &Case) -> RefResult {
    let data = need(case, 0)?;
    let r = data.rank();
    let starts = index_vec(case, "starts", 1)?.ok_or(RefErr::Invalid("starts missing".into()))?;
    let ends = index_vec(case, "ends", 2)?.ok_or(RefErr::Invalid("ends missing".into()))?;
    let axes = index_vec(case, "axes", 3)?;
    let steps = if case.opset >= 10 { index_vec(case, "steps", 4)? } else { None };
    let n = starts.len();
    if ends.len() != n {
        return invalid("starts/ends length mismatch");
    }
    if axes.is_none() && n != r {
        return invalid("axes omitted: starts/ends must cover every axis");
    }
    let axes: Vec<i64> = axes.unwrap_or_else(|| (0..n as i64).collect());
    let steps: Vec<i64> = steps.unwrap_or_else(|| vec![1; n]);
    if axes.len() != n || steps.len() != n {
        return invalid("axes/steps length mismatch");
    }
    if r == 0 {
        return invalid("scalar data");
    }
    // per-axis (start, step, count)
    let mut plan: Vec<(i64, i64, usize)> = data.shape.iter().map(|&d| (0i64, 1i64, d)).collect();
    let mut seen = Vec::new();
    for k in 0..n {
        let a = norm_axis(axes[k], r)?;
        if seen.contains(&a) {
            return invalid("duplicate axis");
        }
        seen.push(a);
        let dim = data.shape[a] as i64;
        let step = steps[k];
        if step == 0 {
            return invalid("zero step");
        }
        if dim == 0 {
            if step < 0 {
                return undefined("negative step on an empty axis (clamp range [0, dim-1] is empty)");
            }
            plan[a] = (0, step, 0);
            continue;
        }
        let mut s = starts[k];
        let mut e = ends[k];
        if s < 0 {
            s = s.saturating_add(dim);
        }
        if e < 0 {
            e = e.saturating_add(dim);
        }
        let count;
        if step > 0 {
            s = s.clamp(0, dim);
            e = e.clamp(0, dim);
            count = if e > s { ((e - s) as i128 + step as i128 - 1) / step as i128 } else { 0 };
        } else {
            if s < 0 {
                return undefined("negative step with start below -dim: specification text (clamp to 0) and numpy-based reference implementation (empty) disagree");
            }
            s = s.clamp(0, dim - 1);
            e = e.clamp(-1, dim - 1);
            let neg = -(step as i128);
            count = if s > e { ((s - e) as i128 + neg - 1) / neg } else { 0 };
        }
        let count = if dim == 0 { 0 } else { count };
        plan[a] = (s, step, count as usize);
    }
    let out_shape: Vec<usize> = plan.iter().map(|p| p.2).collect();
    let out = RT::from_fn(data.dt, &out_shape, |idx| {
        let d: Vec<usize> = (0..r).map(|a| (plan[a].0 + plan[a].1 * idx[a] as i64) as usize).collect();
        data.at(&d)
    });
    Ok(vec![out])
}

pub fn pad(case: &Case) -> RefResult {
    let data = need(case, 0)?;
    let r = data.rank();
    let mode = case.string("mode", "constant");
    let (pads, cval, axes): (Vec<i64>, f64, Option<Vec<i64>>) = if case.opset < 11 {
        (case.ints("pads").ok_or(RefErr::Invalid("pads attribute missing".into()))?, case.float("value", 0.0) as f64, None)
    } else {
        let p = need(case, 1)?;
        if p.dt != Dt::I64 || p.rank() != 1 {
            return invalid("pads must be 1-D int64");
        }
        let cv = match case.input(2) {
            Some(t) => {
                if t.dt != data.dt {
                    return invalid("constant_value type differs");
                }
                if t.numel() != 1 {
                    return invalid("constant_value must be a scalar");
                }
                t.data[0]
            }
            None => 0.0,
        };
        let axes = match case.input(3) {
            Some(t) => {
                if !is_index_dt(t.dt) || t.rank() != 1 {
                    return invalid("axes must be 1-D int32/int64");
                }
                Some(t.ints())
            }
            None => None,
        };
        (p.ints(), cv, axes)
    };
    let axes: Vec<usize> = match axes {
        Some(a) => {
            let mut v = Vec::new();
            for x in a {
                let x = norm_axis(x, r)?;
                if v.contains(&x) {
                    return invalid("duplicate axis");
                }
                v.push(x);
            }
            v
        }
        None => (0..r).collect(),
    };
    if pads.len() != 2 * axes.len() {
        return invalid("pads length");
    }
    let mut begin = vec![0i64; r];
    let mut end = vec![0i64; r];
    for (k, &a) in axes.iter().enumerate() {
        begin[a] = pads[k];
        end[a] = pads[k + axes.len()];
    }
    let mut out_shape = Vec::new();
    for d in 0..r {
        let s = data.shape[d] as i64 + begin[d] + end[d];
        if s < 0 {
            return invalid("negative output extent");
        }
        out_shape.push(s as usize);
    }
    let any_neg = begin.iter().chain(end.iter()).any(|p| *p < 0);
    if any_neg && mode != "constant" {
        return undefined("negative pads combined with a non-constant mode");
    }
    for d in 0..r {
        let dim = data.shape[d] as i64;
        let need_src = begin[d] > 0 || end[d] > 0;
        match mode.as_str() {
            "constant" => {}
            "reflect" => {
                if need_src && (dim < 1 || begin[d] > dim - 1 || end[d] > dim - 1) {
                    return undefined("reflect padding wider than dim-1");
                }
            }
            "edge" | "wrap" => {
                if need_src && dim < 1 {
                    return undefined("edge/wrap padding of an empty axis");
                }
                if mode == "wrap" && case.opset < 19 {
                    return invalid("wrap mode needs opset 19");
                }
            }
            _ => return invalid("unknown mode"),
        }
    }
    let out = RT::from_fn(data.dt, &out_shape, |idx| {
        let mut src = Vec::with_capacity(r);
        for d in 0..r {
            let dim = data.shape[d] as i64;
            let p = idx[d] as i64 - begin[d];
            if p >= 0 && p < dim {
                src.push(p as usize);
                continue;
            }
            match mode.as_str() {
                "constant" => return cval,
                "reflect" => {
                    let q = if p < 0 { -p } else { 2 * (dim - 1) - p };
                    src.push(q as usize);
                }
                "edge" => src.push(p.clamp(0, dim - 1) as usize),
                "wrap" => src.push(p.rem_euclid(dim) as usize),
                _ => return cval,
            }
        }
        data.at(&src)
    });
    Ok(vec![out])
}

pub fn concat(case: &Case) -> RefResult {
    let ins: Vec<&RT> = case.inputs.iter().map(|i| i.as_ref().ok_or(RefErr::Invalid("missing input".into()))).collect::<Result<_, _>>()?;
    if ins.is_empty() {
        return invalid("no inputs");
    }
    let r = ins[0].rank();
    if r == 0 {
        return invalid("scalar input");
    }
    let axis = norm_axis(case.int_opt("axis").ok_or(RefErr::Invalid("axis required".into()))?, r)?;
    let mut out_shape = ins[0].shape.clone();
    let mut total = 0usize;
    for t in &ins {
        if t.dt != ins[0].dt || t.rank() != r {
            return invalid("type/rank mismatch");
        }
        for d in 0..r {
            if d != axis && t.shape[d] != ins[0].shape[d] {
                return invalid("shape mismatch off the concat axis");
            }
        }
        total += t.shape[axis];
    }
    out_shape[axis] = total;
    let out = RT::from_fn(ins[0].dt, &out_shape, |idx| {
        let mut i = idx[axis];
        for t in &ins {
            if i < t.shape[axis] {
                let mut d = idx.to_vec();
                d[axis] = i;
                return t.at(&d);
            }
            i -= t.shape[axis];
        }
        unreachable!()
    });
    Ok(vec![out])
}

pub fn split(case: &Case) -> RefResult {
    let x = need(case, 0)?;
    let r = x.rank();
    if r == 0 {
        return invalid("scalar input");
    }
    let axis = norm_axis(case.int("axis", 0), r)?;
    let dim = x.shape[axis];
    let explicit: Option<Vec<i64>> = if case.opset < 13 {
        case.ints("split")
    } else {
        match case.input(1) {
            Some(t) => {
                if t.dt != Dt::I64 || t.rank() != 1 {
                    return invalid("split must be 1-D int64");
                }
                Some(t.ints())
            }
            None => None,
        }
    };
    let num_outputs = case.int_opt("num_outputs");
    let sizes: Vec<usize> = match explicit {
        Some(s) => {
            if num_outputs.is_some() {
                return invalid("both split and num_outputs given");
            }
            if s.iter().any(|v| *v < 0) || s.iter().sum::<i64>() != dim as i64 {
                return invalid("split sizes do not sum to the axis extent");
            }
            if s.len() != case.n_out {
                return invalid("number of split sizes != number of outputs");
            }
            s.iter().map(|v| *v as usize).collect()
        }
        None => {
            let n = match num_outputs {
                Some(n) => {
                    if case.opset < 18 {
                        return invalid("num_outputs needs opset 18");
                    }
                    if n < 1 || n as usize != case.n_out {
                        return invalid("num_outputs != number of outputs");
                    }
                    n as usize
                }
                None => {
                    if case.opset >= 18 {
                        return invalid("opset 18: either split or num_outputs is required");
                    }
                    case.n_out
                }
            };
            if dim % n == 0 {
                vec![dim / n; n]
            } else {
                if case.opset < 18 {
                    return invalid("uneven split without sizes");
                }
                let chunk = dim.div_ceil(n);
                let mut v = vec![chunk; n - 1];
                let used = chunk * (n - 1);
                if used > dim {
                    return undefined("uneven split whose last chunk would be negative");
                }
                v.push(dim - used);
                v
            }
        }
    };
    let mut outs = Vec::new();
    let mut off = 0usize;
    for s in sizes {
        let mut shape = x.shape.clone();
        shape[axis] = s;
        outs.push(RT::from_fn(x.dt, &shape, |idx| {
            let mut d = idx.to_vec();
            d[axis] += off;
            x.at(&d)
        }));
        off += s;
    }
    Ok(outs)
}

fn shape_input(t: &RT) -> Result<Vec<i64>, RefErr> {
    if t.dt != Dt::I64 || t.rank() != 1 {
        return invalid("shape must be 1-D int64");
    }
    Ok(t.ints())
}

pub fn expand(case: &Case) -> RefResult {
    let x = need(case, 0)?;
    let s = shape_input(need(case, 1)?)?;
    if s.iter().any(|v| *v < 0) {
        return invalid("negative dimension");
    }
    let s: Vec<usize> = s.iter().map(|v| *v as usize).collect();
    let out_shape = broadcast_shapes(&x.shape, &s).ok_or(RefErr::Invalid("not broadcastable".into()))?;
    Ok(vec![RT::from_fn(x.dt, &out_shape, |idx| x.at_bcast(idx))])
}

pub fn tile(case: &Case) -> RefResult {
    let x = need(case, 0)?;
    let rep = shape_input(need(case, 1)?)?;
    if rep.len() != x.rank() || rep.iter().any(|v| *v < 0) {
        return invalid("repeats");
    }
    let out_shape: Vec<usize> = x.shape.iter().zip(&rep).map(|(d, r)| d * *r as usize).collect();
    Ok(vec![RT::from_fn(x.dt, &out_shape, |idx| {
        let d: Vec<usize> = idx.iter().zip(&x.shape).map(|(i, s)| i % s).collect();
        x.at(&d)
    })])
}

pub fn transpose(case: &Case) -> RefResult {
    let x = need(case, 0)?;
    let r = x.rank();
    let perm: Vec<usize> = match case.ints("perm") {
        Some(p) => {
            if p.len() != r {
                return invalid("perm length");
            }
            let mut seen = vec![false; r];
            let mut out = Vec::new();
            for v in p {
                if v < 0 || v as usize >= r || seen[v as usize] {
                    return invalid("perm is not a permutation");
                }
                seen[v as usize] = true;
                out.push(v as usize);
            }
            out
        }
        None => (0..r).rev().collect(),
    };
    let out_shape: Vec<usize> = perm.iter().map(|&p| x.shape[p]).collect();
    Ok(vec![RT::from_fn(x.dt, &out_shape, |idx| {
        let mut d = vec![0usize; r];
        for (k, &p) in perm.iter().enumerate() {
            d[p] = idx[k];
        }
        x.at(&d)
    })])
}

pub fn reshape(case: &Case) -> RefResult {
    let x = need(case, 0)?;
    let s = if case.opset < 5 { case.ints("shape").ok_or(RefErr::Invalid("shape attribute missing".into()))? } else { shape_input(need(case, 1)?)? };
    let allowzero = case.int("allowzero", 0) != 0;
    let mut out: Vec<i64> = Vec::new();
    let mut minus = None;
    for (k, &v) in s.iter().enumerate() {
        if v == -1 {
            if minus.is_some() {
                return invalid("more than one -1");
            }
            minus = Some(k);
            out.push(1);
        } else if v == 0 && !allowzero {
            if k >= x.rank() {
                return invalid("0 refers to a dimension the input does not have");
            }
            out.push(x.shape[k] as i64);
        } else if v < 0 {
            return invalid("negative dimension");
        } else {
            out.push(v);
        }
    }
    if allowzero && minus.is_some() && s.iter().any(|v| *v == 0) {
        return invalid("allowzero with both 0 and -1");
    }
    let n = x.numel() as i64;
    if let Some(k) = minus {
        let rest: i64 = out.iter().product();
        if rest == 0 || n % rest != 0 {
            return invalid("cannot infer -1");
        }
        out[k] = n / rest;
    }
    if out.iter().product::<i64>() != n {
        return invalid("element count mismatch");
    }
    Ok(vec![RT { dt: x.dt, shape: out.iter().map(|v| *v as usize).collect(), data: x.data.clone() }])
}

fn axes_arg(case: &Case, attr_before: i64) -> Result<Option<Vec<i64>>, RefErr> {
    if case.opset < attr_before {
        Ok(case.ints("axes"))
    } else {
        match case.input(1) {
            Some(t) => {
                if t.dt != Dt::I64 || t.rank() != 1 {
                    return invalid("axes must be 1-D int64");
                }
                Ok(Some(t.ints()))
            }
            None => Ok(None),
        }
    }
}

pub fn squeeze(case: &Case) -> RefResult {
    let x = need(case, 0)?;
    let r = x.rank();
    let axes = axes_arg(case, 13)?;
    let rm: Vec<usize> = match axes {
        Some(a) => {
            let mut v = Vec::new();
            for x_ in a {
                let ax = norm_axis(x_, r)?;
                if x.shape[ax] != 1 {
                    return invalid("squeezed dimension is not 1");
                }
                if v.contains(&ax) {
                    return invalid("duplicate axis");
                }
                v.push(ax);
            }
            v
        }
        None => (0..r).filter(|d| x.shape[*d] == 1).collect(),
    };
    let shape: Vec<usize> = (0..r).filter(|d| !rm.contains(d)).map(|d| x.shape[d]).collect();
    Ok(vec![RT { dt: x.dt, shape, data: x.data.clone() }])
}

pub fn unsqueeze(case: &Case) -> RefResult {
    let x = need(case, 0)?;
    let axes = axes_arg(case, 13)?.ok_or(RefErr::Invalid("axes required".into()))?;
    let out_rank = x.rank() + axes.len();
    let mut pos = Vec::new();
    for a in axes {
        let a = norm_axis(a, out_rank)?;
        if pos.contains(&a) {
            return invalid("duplicate axis");
        }
        pos.push(a);
    }
    let mut shape = Vec::new();
    let mut src = x.shape.iter();
    for d in 0..out_rank {
        if pos.contains(&d) {
            shape.push(1);
        } else {
            shape.push(*src.next().unwrap());
        }
    }
    Ok(vec![RT { dt: x.dt, shape, data: x.data.clone() }])
}

pub fn flatten(case: &Case) -> RefResult {
    let x = need(case, 0)?;
    let r = x.rank() as i64;
    let axis = case.int("axis", 1);
    if axis < -r || axis > r {
        return invalid("axis out of range");
    }
    let axis = if axis < 0 { axis + r } else { axis } as usize;
    let a: usize = x.shape[..axis].iter().product();
    let b: usize = x.shape[axis..].iter().product();
    Ok(vec![RT { dt: x.dt, shape: vec![a, b], data: x.data.clone() }])
}

pub fn shape(case: &Case) -> RefResult {
    let x = need(case, 0)?;
    let r = x.rank() as i64;
    let clampi = |v: i64| -> i64 {
        let v = if v < 0 { v + r } else { v };
        v.clamp(0, r)
    };
    let start = clampi(case.int("start", 0));
    let end = match case.int_opt("end") {
        Some(e) => clampi(e),
        None => r,
    };
    let dims: Vec<f64> = if end > start { x.shape[start as usize..end as usize].iter().map(|d| *d as f64).collect() } else { vec![] };
    Ok(vec![RT::vec(Dt::I64, &dims)])
}

pub fn size(case: &Case) -> RefResult {
    let x = need(case, 0)?;
    Ok(vec![RT::scalar(Dt::I64, x.numel() as f64)])
}

pub fn trilu(case: &Case) -> RefResult {
    let x = need(case, 0)?;
    let r = x.rank();
    if r < 2 {
        return invalid("rank >= 2 required");
    }
    let k = match case.input(1) {
        Some(t) => {
            if t.dt != Dt::I64 || t.rank() != 0 {
                return invalid("k must be a 0-D int64 tensor");
            }
            t.data[0] as i64
        }
        None => 0,
    };
    let upper = case.int("upper", 1) != 0;
    Ok(vec![RT::from_fn(x.dt, &x.shape, |idx| {
        let i = idx[r - 2] as i64;
        let j = idx[r - 1] as i64;
        let keep = if upper { j - i >= k } else { j - i <= k };
        if keep { x.at(idx) } else { 0.0 }
    })])
}

pub fn range(case: &Case) -> RefResult {
    let s = need(case, 0)?;
    let l = need(case, 1)?;
    let d = need(case, 2)?;
    if s.dt != l.dt || s.dt != d.dt || matches!(s.dt, Dt::Bool | Dt::I8 | Dt::U8) {
        return invalid("types");
    }
    if s.rank() != 0 || l.rank() != 0 || d.rank() != 0 {
        return invalid("scalars required");
    }
    let (s0, l0, d0) = (s.data[0], l.data[0], d.data[0]);
    if d0 == 0.0 {
        return invalid("zero delta");
    }
    let n = ((l0 - s0) / d0).ceil().max(0.0) as usize;
    Ok(vec![RT::vec(s.dt, &(0..n).map(|i| s0 + i as f64 * d0).collect::<Vec<_>>())])
}

pub fn one_hot(case: &Case) -> RefResult {
    let ind = need(case, 0)?;
    let depth = need(case, 1)?;
    let values = need(case, 2)?;
    if ind.dt == Dt::Bool || depth.dt == Dt::Bool {
        return invalid("types");
    }
    if depth.numel() != 1 || depth.rank() > 1 {
        return invalid("depth must be a scalar or 1-element tensor");
    }
    if values.shape != [2] {
        return invalid("values must have shape [2]");
    }
    let depth_v = depth.data[0];
    if depth_v < 1.0 || depth_v != depth_v.trunc() {
        return undefined("non-positive or fractional depth");
    }
    let depth_n = depth_v as usize;
    let out_rank = ind.rank() + 1;
    let axis = norm_axis(case.int("axis", -1), out_rank)?;
    let mut out_shape = ind.shape.clone();
    out_shape.insert(axis, depth_n);
    if ind.dt.is_float() && ind.data.iter().any(|v| *v != v.trunc()) {
        return undefined("fractional float indices");
    }
    Ok(vec![RT::from_fn(values.dt, &out_shape, |idx| {
        let mut ii = idx.to_vec();
        let pos = ii.remove(axis) as i64;
        let mut v = ind.at(&ii) as i64;
        if v < 0 {
            v += depth_n as i64;
        }
        if v == pos { values.data[1] } else { values.data[0] }
    })])
}

pub fn constant_of_shape(case: &Case) -> RefResult {
    let s = shape_input(need(case, 0)?)?;
    if s.iter().any(|v| *v < 0) {
        return invalid("negative dimension");
    }
    let shape: Vec<usize> = s.iter().map(|v| *v as usize).collect();
    let (dt, v) = match case.get("value") {
        Some(AV::Tensor(t)) => {
            if t.numel() != 1 {
                return invalid("value must have one element");
            }
            (t.dt, t.data[0])
        }
        _ => (Dt::F32, 0.0),
    };
    Ok(vec![RT::new(dt, &shape, vec![v; numel(&shape)])])
}

pub fn eye_like(case: &Case) -> RefResult {
    let x = need(case, 0)?;
    if x.rank() != 2 {
        return invalid("2-D input required");
    }
    let dt = match case.int_opt("dtype") {
        Some(d) => Dt::from_onnx(d).ok_or(RefErr::Undefined("dtype outside the harness's type set".into()))?,
        None => x.dt,
    };
    let k = case.int("k", 0);
    Ok(vec![RT::from_fn(dt, &x.shape, |idx| if idx[1] as i64 - idx[0] as i64 == k { 1.0 } else { 0.0 })])
}

pub fn depth_to_space(case: &Case) -> RefResult {
    let x = need(case, 0)?;
    if x.rank() != 4 {
        return invalid("4-D input required");
    }
    let bs = case.int_opt("blocksize").ok_or(RefErr::Invalid("blocksize required".into()))?;
    if bs < 1 {
        return invalid("blocksize");
    }
    let bs = bs as usize;
    let (n, c, h, w) = (x.shape[0], x.shape[1], x.shape[2], x.shape[3]);
    if c % (bs * bs) != 0 {
        return invalid("channels not divisible by blocksize^2");
    }
    let co = c / (bs * bs);
    let mode = case.string("mode", "DCR");
    if mode != "DCR" && mode != "CRD" {
        return invalid("mode");
    }
    let out_shape = [n, co, h * bs, w * bs];
    Ok(vec![RT::from_fn(x.dt, &out_shape, |idx| {
        let (b, cc, y, xx) = (idx[0], idx[1], idx[2], idx[3]);
        let (hh, by) = (y / bs, y % bs);
        let (ww, bx) = (xx / bs, xx % bs);
        // DCR: input channel = (by*bs + bx)*co + cc ; CRD: cc*bs*bs + by*bs + bx
        let ci = if mode == "DCR" { (by * bs + bx) * co + cc } else { cc * bs * bs + by * bs + bx };
        x.at(&[b, ci, hh, ww])
    })])
}
