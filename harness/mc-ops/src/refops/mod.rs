//! Naive reference semantics of the ONNX operators in the catalogue, written
//! from the ONNX operator specification (opset 21 unless a case says
//! otherwise). Everything works on `RT` (row-major `Vec<f64>`), one element at
//! a time, with explicit index arithmetic. Nothing here calls rten.

pub mod elem;
pub mod index;
pub mod nn;
pub mod reduce;

use crate::case::Case;
use crate::rt::{Dt, RT};

#[derive(Clone, Debug, PartialEq)]
pub enum RefErr {
    /// The ONNX specification does not define (or is ambiguous about) this
    /// case: it is outside the claimed catalogue.
    Undefined(String),
    /// The specification says the inputs are invalid: no expectation.
    Invalid(String),
    /// The reference does not implement this operator (machinery).
    Unimplemented(String),
}

pub type RefResult = Result<Vec<RT>, RefErr>;

pub fn undefined<T>(s: impl Into<String>) -> Result<T, RefErr> {
    Err(RefErr::Undefined(s.into()))
}
pub fn invalid<T>(s: impl Into<String>) -> Result<T, RefErr> {
    Err(RefErr::Invalid(s.into()))
}

/// Normalise a possibly negative axis against `rank`.
pub fn norm_axis(axis: i64, rank: usize) -> Result<usize, RefErr> {
    let r = rank as i64;
    if axis < -r || axis >= r {
        return invalid(format!("axis {axis} out of range for rank {rank}"));
    }
    Ok(if axis < 0 { (axis + r) as usize } else { axis as usize })
}

pub fn need<'a>(case: &'a Case, i: usize) -> Result<&'a RT, RefErr> {
    case.input(i).ok_or_else(|| RefErr::Invalid(format!("missing required input {i}")))
}

/// Round half to even (ONNX Round, QuantizeLinear).
pub fn round_half_even(v: f64) -> f64 {
    if !v.is_finite() {
        return v;
    }
    let f = v.floor();
    let d = v - f;
    if d < 0.5 {
        f
    } else if d > 0.5 {
        f + 1.0
    } else if (f / 2.0).floor() * 2.0 == f {
        f
    } else {
        f + 1.0
    }
}

/// Check every element of an integer-typed result is representable in the type.
pub fn check_int_range(t: &RT) -> Result<(), RefErr> {
    if let Some((lo, hi)) = t.dt.int_range() {
        for v in &t.data {
            if !(*v >= lo && *v <= hi) || *v != v.trunc() {
                return undefined(format!("integer result {v} not representable in {} (overflow behaviour is not specified)", t.dt.name()));
            }
        }
    }
    Ok(())
}

pub fn eval(case: &Case) -> RefResult {
    let outs = eval_inner(case)?;
    let mut res = Vec::with_capacity(outs.len());
    for o in outs {
        check_int_range(&o)?;
        // results that rten must hold in i32 (i64 outputs) must fit there
        if o.dt == Dt::I64 {
            for v in &o.data {
                if *v < i32::MIN as f64 || *v > i32::MAX as f64 {
                    return undefined("i64 result outside the i32 range rten represents it in");
                }
            }
        }
        res.push(o.rounded());
    }
    Ok(res)
}

fn eval_inner(case: &Case) -> RefResult {
    match case.op {
        // ---- element-wise
        "Add" | "Sub" | "Mul" | "Div" | "Pow" | "Mod" | "And" | "Or" | "Xor" | "Equal" | "Less" | "LessOrEqual" | "Greater" | "GreaterOrEqual" | "PRelu" => elem::binary(case),
        "Abs" | "Neg" | "Sign" | "Relu" | "LeakyRelu" | "Floor" | "Ceil" | "Round" | "Sqrt" | "Reciprocal" | "Exp" | "Log" | "Sigmoid" | "Tanh" | "Erf" | "Not" | "Sin" | "Cos" | "Tan" | "Asin"
        | "Acos" | "Atan" | "Sinh" | "Cosh" | "Asinh" | "Acosh" | "Atanh" | "Softplus" | "Elu" | "HardSigmoid" | "HardSwish" | "Gelu" | "IsNaN" | "IsInf" | "Identity" => elem::unary(case),
        "Max" | "Min" | "Sum" | "Mean" => elem::variadic(case),
        "Where" => elem::where_(case),
        "Clip" => elem::clip(case),
        "Cast" => elem::cast(case),
        "CastLike" => elem::cast_like(case),
        // ---- reductions
        "ReduceSum" | "ReduceMean" | "ReduceMax" | "ReduceMin" | "ReduceProd" | "ReduceL1" | "ReduceL2" | "ReduceSumSquare" | "ReduceLogSum" | "ReduceLogSumExp" => reduce::reduce(case),
        "ArgMax" | "ArgMin" => reduce::arg_reduce(case),
        "CumSum" => reduce::cumsum(case),
        "TopK" => reduce::topk(case),
        "Softmax" | "LogSoftmax" => reduce::softmax(case),
        // ---- indexing / layout
        "Gather" => index::gather(case),
        "GatherElements" => index::gather_elements(case),
        "GatherND" => index::gather_nd(case),
        "ScatterElements" => index::scatter_elements(case),
        "ScatterND" => index::scatter_nd(case),
        "Slice" => index::slice(case),
        "Pad" => index::pad(case),
        "Concat" => index::concat(case),
        "Split" => index::split(case),
        "Expand" => index::expand(case),
        "Tile" => index::tile(case),
        "Transpose" => index::transpose(case),
        "Reshape" => index::reshape(case),
        "Squeeze" => index::squeeze(case),
        "Unsqueeze" => index::unsqueeze(case),
        "Flatten" => index::flatten(case),
        "Shape" => index::shape(case),
        "Size" => index::size(case),
        "Trilu" => index::trilu(case),
        "Range" => index::range(case),
        "OneHot" => index::one_hot(case),
        "ConstantOfShape" => index::constant_of_shape(case),
        "EyeLike" => index::eye_like(case),
        "DepthToSpace" => index::depth_to_space(case),
        // ---- nn / linear algebra
        "MatMul" => nn::matmul(case),
        "Gemm" => nn::gemm(case),
        "Conv" => nn::conv(case, false),
        "ConvInteger" => nn::conv(case, true),
        "ConvTranspose" => nn::conv_transpose(case),
        "MaxPool" | "AveragePool" => nn::pool(case),
        "GlobalAveragePool" | "GlobalMaxPool" => nn::global_pool(case),
        "LayerNormalization" => nn::layer_norm(case),
        "InstanceNormalization" => nn::instance_norm(case),
        "BatchNormalization" => nn::batch_norm(case),
        "Resize" => nn::resize(case),
        "QuantizeLinear" => nn::quantize_linear(case),
        "DequantizeLinear" => nn::dequantize_linear(case),
        "DynamicQuantizeLinear" => nn::dynamic_quantize_linear(case),
        "MatMulInteger" => nn::matmul_integer(case),
        "Einsum" => nn::einsum(case),
        other => Err(RefErr::Unimplemented(other.to_string())),
    }
}
