//! Linear algebra, convolution, pooling, normalisation, resize, quantisation, einsum.

use super::{RefErr, RefResult, invalid, need, norm_axis, round_half_even, undefined};
use crate::case::Case;
use crate::rt::{Dt, RT, broadcast_shapes, numel, unravel};

fn num_dt_check(a: &RT, b: &RT) -> Result<(), RefErr> {
    if a.dt != b.dt {
        return invalid("element types differ");
    }
    if matches!(a.dt, Dt::Bool | Dt::I8 | Dt::U8) {
        return invalid("element type");
    }
    Ok(())
}

/// numpy.matmul on two tensors (values only).
fn matmul_values(a: &RT, b: &RT, out_dt: Dt, af: &dyn Fn(&[usize], f64) -> f64, bf: &dyn Fn(&[usize], f64) -> f64) -> Result<RT, RefErr> {
    if a.rank() == 0 || b.rank() == 0 {
        return invalid("scalar operand");
    }
    // promote 1-D operands
    let a_shape: Vec<usize> = if a.rank() == 1 { vec![1, a.shape[0]] } else { a.shape.clone() };
    let b_shape: Vec<usize> = if b.rank() == 1 { vec![b.shape[0], 1] } else { b.shape.clone() };
    let (ra, rb) = (a_shape.len(), b_shape.len());
    let (m, k) = (a_shape[ra - 2], a_shape[ra - 1]);
    let (k2, n) = (b_shape[rb - 2], b_shape[rb - 1]);
    if k != k2 {
        return invalid("inner dimensions differ");
    }
    let batch = broadcast_shapes(&a_shape[..ra - 2], &b_shape[..rb - 2]).ok_or(RefErr::Invalid("batch dims not broadcastable".into()))?;
    let mut full = batch.clone();
    full.push(m);
    full.push(n);
    let a2 = RT { dt: a.dt, shape: a_shape.clone(), data: a.data.clone() };
    let b2 = RT { dt: b.dt, shape: b_shape.clone(), data: b.data.clone() };
    let nb = batch.len();
    let out = RT::from_fn(out_dt, &full, |idx| {
        let (i, j) = (idx[nb], idx[nb + 1]);
        let mut s = 0.0;
        for kk in 0..k {
            // index into a: broadcast batch part
            let mut ai: Vec<usize> = Vec::with_capacity(ra);
            for d in 0..ra - 2 {
                let bi = idx[nb - (ra - 2) + d];
                ai.push(if a_shape[d] == 1 { 0 } else { bi });
            }
            ai.push(i);
            ai.push(kk);
            let mut bi_: Vec<usize> = Vec::with_capacity(rb);
            for d in 0..rb - 2 {
                let bi = idx[nb - (rb - 2) + d];
                bi_.push(if b_shape[d] == 1 { 0 } else { bi });
            }
            bi_.push(kk);
            bi_.push(j);
            s += af(&ai, a2.at(&ai)) * bf(&bi_, b2.at(&bi_));
        }
        s
    });
    // drop the promoted dims
    let mut shape = batch;
    if a.rank() != 1 {
        shape.push(m);
    }
    if b.rank() != 1 {
        shape.push(n);
    }
    Ok(RT { dt: out_dt, shape, data: out.data })
}

pub fn matmul(case: &Case) -> RefResult {
    let a = need(case, 0)?;
    let b = need(case, 1)?;
    num_dt_check(a, b)?;
    Ok(vec![matmul_values(a, b, a.dt, &|_, v| v, &|_, v| v)?])
}

pub fn matmul_integer(case: &Case) -> RefResult {
    let a = need(case, 0)?;
    let b = need(case, 1)?;
    if !matches!(a.dt, Dt::I8 | Dt::U8) || !matches!(b.dt, Dt::I8 | Dt::U8) {
        return invalid("operands must be int8/uint8");
    }
    let azp = case.input(2);
    let bzp = case.input(3);
    if let Some(z) = azp {
        if z.dt != a.dt {
            return invalid("a_zero_point type");
        }
        if z.rank() != 0 && !(a.rank() == 2 && z.rank() == 1 && z.shape[0] == a.shape[0]) {
            return invalid("a_zero_point shape");
        }
    }
    if let Some(z) = bzp {
        if z.dt != b.dt {
            return invalid("b_zero_point type");
        }
        if z.rank() != 0 && !(b.rank() == 2 && z.rank() == 1 && z.shape[0] == b.shape[1]) {
            return invalid("b_zero_point shape");
        }
    }
    let af = |idx: &[usize], v: f64| -> f64 {
        match azp {
            None => v,
            Some(z) if z.rank() == 0 => v - z.data[0],
            Some(z) => v - z.data[idx[idx.len() - 2]],
        }
    };
    let bf = |idx: &[usize], v: f64| -> f64 {
        match bzp {
            None => v,
            Some(z) if z.rank() == 0 => v - z.data[0],
            Some(z) => v - z.data[idx[idx.len() - 1]],
        }
    };
    Ok(vec![matmul_values(a, b, Dt::I32, &af, &bf)?])
}

pub fn gemm(case: &Case) -> RefResult {
    let a = need(case, 0)?;
    let b = need(case, 1)?;
    num_dt_check(a, b)?;
    if a.rank() != 2 || b.rank() != 2 {
        return invalid("2-D operands required");
    }
    let ta = case.int("transA", 0) != 0;
    let tb = case.int("transB", 0) != 0;
    let alpha = case.float("alpha", 1.0) as f64;
    let beta = case.float("beta", 1.0) as f64;
    let (m, k) = if ta { (a.shape[1], a.shape[0]) } else { (a.shape[0], a.shape[1]) };
    let (k2, n) = if tb { (b.shape[1], b.shape[0]) } else { (b.shape[0], b.shape[1]) };
    if k != k2 {
        return invalid("inner dimensions differ");
    }
    let c = case.input(2);
    if let Some(c) = c {
        if c.dt != a.dt {
            return invalid("C type");
        }
        let bs = broadcast_shapes(&c.shape, &[m, n]).ok_or(RefErr::Invalid("C not broadcastable".into()))?;
        if bs != [m, n] {
            return invalid("C not unidirectionally broadcastable to (M,N)");
        }
    }
    if !a.dt.is_float() && (alpha != alpha.trunc() || beta != beta.trunc()) {
        return undefined("integer Gemm with fractional alpha/beta");
    }
    Ok(vec![RT::from_fn(a.dt, &[m, n], |idx| {
        let (i, j) = (idx[0], idx[1]);
        let mut s = 0.0;
        for kk in 0..k {
            let av = if ta { a.at(&[kk, i]) } else { a.at(&[i, kk]) };
            let bv = if tb { b.at(&[j, kk]) } else { b.at(&[kk, j]) };
            s += av * bv;
        }
        let mut v = alpha * s;
        if let Some(c) = c {
            v += beta * c.at_bcast(idx);
        }
        v
    })])
}

struct SpatialAttrs {
    kernel: Vec<usize>,
    strides: Vec<usize>,
    dilations: Vec<usize>,
    pads_begin: Vec<i64>,
    pads_end: Vec<i64>,
    out: Vec<usize>,
}

fn usize_list(v: Vec<i64>, what: &str) -> Result<Vec<usize>, RefErr> {
    if v.iter().any(|x| *x < 1) {
        return invalid(format!("{what} must be positive"));
    }
    Ok(v.iter().map(|x| *x as usize).collect())
}

/// Resolve strides/dilations/pads/auto_pad and the output extents of a
/// convolution or pooling window (`ceil_mode` only for pooling).
fn spatial(case: &Case, in_dims: &[usize], kernel: Vec<usize>, ceil_mode: bool) -> Result<SpatialAttrs, RefErr> {
    let n = in_dims.len();
    if kernel.len() != n {
        return invalid("kernel rank");
    }
    let strides = match case.ints("strides") {
        Some(s) => usize_list(s, "strides")?,
        None => vec![1; n],
    };
    let dilations = match case.ints("dilations") {
        Some(s) => usize_list(s, "dilations")?,
        None => vec![1; n],
    };
    if strides.len() != n || dilations.len() != n {
        return invalid("strides/dilations rank");
    }
    let auto_pad = case.string("auto_pad", "NOTSET");
    let mut pb = vec![0i64; n];
    let mut pe = vec![0i64; n];
    let mut out = vec![0usize; n];
    let ke: Vec<i64> = (0..n).map(|d| ((kernel[d] - 1) * dilations[d] + 1) as i64).collect();
    match auto_pad.as_str() {
        "NOTSET" | "VALID" => {
            if auto_pad == "NOTSET" {
                if let Some(p) = case.ints("pads") {
                    if p.len() != 2 * n || p.iter().any(|v| *v < 0) {
                        return invalid("pads");
                    }
                    for d in 0..n {
                        pb[d] = p[d];
                        pe[d] = p[d + n];
                    }
                }
            } else if case.ints("pads").is_some() {
                return invalid("pads together with auto_pad");
            }
            if auto_pad == "VALID" && ceil_mode {
                return undefined("auto_pad=VALID with ceil_mode=1");
            }
            for d in 0..n {
                let numer = in_dims[d] as i64 + pb[d] + pe[d] - ke[d];
                if numer < 0 {
                    return invalid("window larger than padded input");
                }
                let s = strides[d] as i64;
                let mut o = if ceil_mode { (numer + s - 1) / s + 1 } else { numer / s + 1 };
                if ceil_mode && (o - 1) * s >= in_dims[d] as i64 + pb[d] {
                    // a window that would start in the right padding is ignored
                    o -= 1;
                }
                out[d] = o as usize;
            }
        }
        "SAME_UPPER" | "SAME_LOWER" => {
            if case.ints("pads").is_some() {
                return invalid("pads together with auto_pad");
            }
            if ceil_mode {
                return undefined("auto_pad=SAME_* with ceil_mode=1");
            }
            for d in 0..n {
                let s = strides[d] as i64;
                let i = in_dims[d] as i64;
                let o = (i + s - 1) / s;
                let total = ((o - 1) * s + ke[d] - i).max(0);
                if auto_pad == "SAME_UPPER" {
                    pb[d] = total / 2;
                    pe[d] = total - total / 2;
                } else {
                    pb[d] = total - total / 2;
                    pe[d] = total / 2;
                }
                out[d] = o as usize;
            }
        }
        _ => return invalid("auto_pad"),
    }
    Ok(SpatialAttrs { kernel, strides, dilations, pads_begin: pb, pads_end: pe, out })
}

pub fn conv(case: &Case, integer: bool) -> RefResult {
    let x = need(case, 0)?;
    let w = need(case, 1)?;
    let (bias, xzp, wzp) = if integer { (None, case.input(2), case.input(3)) } else { (case.input(2), None, None) };
    if integer {
        if !matches!(x.dt, Dt::I8 | Dt::U8) || !matches!(w.dt, Dt::I8 | Dt::U8) {
            return invalid("ConvInteger operands must be int8/uint8");
        }
        if let Some(z) = xzp {
            if z.dt != x.dt || z.numel() != 1 || z.rank() > 1 {
                return invalid("x_zero_point");
            }
        }
        if let Some(z) = wzp {
            if z.dt != w.dt || !(z.numel() == 1 && z.rank() <= 1 || z.rank() == 1 && z.shape[0] == w.shape[0]) {
                return invalid("w_zero_point");
            }
        }
    } else {
        if !x.dt.is_float() || w.dt != x.dt {
            return invalid("float operands required");
        }
    }
    if x.rank() < 3 || w.rank() != x.rank() {
        return invalid("rank");
    }
    let ns = x.rank() - 2;
    let group = case.int("group", 1);
    if group < 1 {
        return invalid("group");
    }
    let group = group as usize;
    let (n, c) = (x.shape[0], x.shape[1]);
    let (m, cg) = (w.shape[0], w.shape[1]);
    if c != cg * group || m % group != 0 {
        return invalid("channel/group mismatch");
    }
    let kernel: Vec<usize> = w.shape[2..].to_vec();
    if let Some(ks) = case.ints("kernel_shape") {
        if ks.iter().map(|v| *v as usize).collect::<Vec<_>>() != kernel {
            return invalid("kernel_shape differs from the weight shape");
        }
    }
    if kernel.iter().any(|k| *k == 0) {
        return invalid("empty kernel");
    }
    let sp = spatial(case, &x.shape[2..], kernel, false)?;
    if let Some(b) = bias {
        if b.dt != x.dt || b.shape != [m] {
            return invalid("bias");
        }
    }
    let mut out_shape = vec![n, m];
    out_shape.extend_from_slice(&sp.out);
    let mg = m / group;
    let nk = numel(&sp.kernel);
    let out_dt = if integer { Dt::I32 } else { x.dt };
    let xz = xzp.map(|z| z.data[0]).unwrap_or(0.0);
    Ok(vec![RT::from_fn(out_dt, &out_shape, |idx| {
        let (b, oc) = (idx[0], idx[1]);
        let g = oc / mg;
        let wz = match wzp {
            None => 0.0,
            Some(z) if z.numel() == 1 => z.data[0],
            Some(z) => z.data[oc],
        };
        let mut s = 0.0;
        for ic in 0..cg {
            for kl in 0..nk {
                let kidx = unravel(kl, &sp.kernel);
                let mut xi = vec![b, g * cg + ic];
                let mut inside = true;
                for d in 0..ns {
                    let p = (idx[2 + d] * sp.strides[d] + kidx[d] * sp.dilations[d]) as i64 - sp.pads_begin[d];
                    if p < 0 || p >= x.shape[2 + d] as i64 {
                        inside = false;
                        break;
                    }
                    xi.push(p as usize);
                }
                if !inside {
                    continue;
                }
                let mut wi = vec![oc, ic];
                wi.extend_from_slice(&kidx);
                s += (x.at(&xi) - xz) * (w.at(&wi) - wz);
            }
        }
        if let Some(bv) = bias {
            s += bv.data[oc];
        }
        s
    })])
}

pub fn conv_transpose(case: &Case) -> RefResult {
    let x = need(case, 0)?;
    let w = need(case, 1)?;
    let bias = case.input(2);
    if !x.dt.is_float() || w.dt != x.dt {
        return invalid("float operands required");
    }
    if x.rank() < 3 || w.rank() != x.rank() {
        return invalid("rank");
    }
    let ns = x.rank() - 2;
    let group = case.int("group", 1).max(1) as usize;
    let (n, c) = (x.shape[0], x.shape[1]);
    if w.shape[0] != c || c % group != 0 {
        return invalid("channel/group mismatch");
    }
    let mg = w.shape[1];
    let m = mg * group;
    let cg = c / group;
    let kernel: Vec<usize> = w.shape[2..].to_vec();
    if let Some(ks) = case.ints("kernel_shape") {
        if ks.iter().map(|v| *v as usize).collect::<Vec<_>>() != kernel {
            return invalid("kernel_shape differs from the weight shape");
        }
    }
    let strides = match case.ints("strides") {
        Some(s) => usize_list(s, "strides")?,
        None => vec![1; ns],
    };
    let dilations = match case.ints("dilations") {
        Some(s) => usize_list(s, "dilations")?,
        None => vec![1; ns],
    };
    let opad: Vec<i64> = case.ints("output_padding").unwrap_or_else(|| vec![0; ns]);
    if strides.len() != ns || dilations.len() != ns || opad.len() != ns {
        return invalid("attribute rank");
    }
    for d in 0..ns {
        if opad[d] < 0 || (opad[d] as usize >= strides[d] && opad[d] as usize >= dilations[d]) {
            return invalid("output_padding must be smaller than stride or dilation");
        }
    }
    if case.ints("output_shape").is_some() {
        return undefined("output_shape attribute");
    }
    let auto_pad = case.string("auto_pad", "NOTSET");
    let mut pb = vec![0i64; ns];
    let mut pe = vec![0i64; ns];
    let mut out_dims = vec![0usize; ns];
    let ke: Vec<i64> = (0..ns).map(|d| ((kernel[d] - 1) * dilations[d] + 1) as i64).collect();
    match auto_pad.as_str() {
        "NOTSET" | "VALID" => {
            if auto_pad == "NOTSET" {
                if let Some(p) = case.ints("pads") {
                    if p.len() != 2 * ns || p.iter().any(|v| *v < 0) {
                        return invalid("pads");
                    }
                    for d in 0..ns {
                        pb[d] = p[d];
                        pe[d] = p[d + ns];
                    }
                }
            }
            for d in 0..ns {
                let o = strides[d] as i64 * (x.shape[2 + d] as i64 - 1) + opad[d] + ke[d] - pb[d] - pe[d];
                if o < 0 {
                    return invalid("negative output extent");
                }
                out_dims[d] = o as usize;
            }
        }
        "SAME_UPPER" | "SAME_LOWER" => {
            for d in 0..ns {
                let o = x.shape[2 + d] as i64 * strides[d] as i64;
                let total = strides[d] as i64 * (x.shape[2 + d] as i64 - 1) + opad[d] + ke[d] - o;
                if total < 0 {
                    return undefined("SAME auto_pad with negative total padding");
                }
                if total % 2 != 0 {
                    return undefined("SAME_UPPER/SAME_LOWER with odd total padding: the specification text for ConvTranspose is inconsistent about which side gets the extra cell");
                }
                pb[d] = total / 2;
                pe[d] = total / 2;
                out_dims[d] = o as usize;
            }
        }
        _ => return invalid("auto_pad"),
    }
    if let Some(b) = bias {
        if b.dt != x.dt || b.shape != [m] {
            return invalid("bias");
        }
    }
    let mut out_shape = vec![n, m];
    out_shape.extend_from_slice(&out_dims);
    let mut out = RT::new(x.dt, &out_shape, vec![0.0; numel(&out_shape)]);
    if let Some(b) = bias {
        for l in 0..out.data.len() {
            let idx = unravel(l, &out_shape);
            out.data[l] = b.data[idx[1]];
        }
    }
    let nk = numel(&kernel);
    let in_sp: Vec<usize> = x.shape[2..].to_vec();
    for b in 0..n {
        for g in 0..group {
            for ic in 0..cg {
                let cin = g * cg + ic;
                for il in 0..numel(&in_sp) {
                    let iidx = unravel(il, &in_sp);
                    let mut xi = vec![b, cin];
                    xi.extend_from_slice(&iidx);
                    let xv = x.at(&xi);
                    for oc in 0..mg {
                        for kl in 0..nk {
                            let kidx = unravel(kl, &kernel);
                            let mut oi = vec![b, g * mg + oc];
                            let mut inside = true;
                            for d in 0..ns {
                                let p = (iidx[d] * strides[d] + kidx[d] * dilations[d]) as i64 - pb[d];
                                if p < 0 || p >= out_dims[d] as i64 {
                                    inside = false;
                                    break;
                                }
                                oi.push(p as usize);
                            }
                            if !inside {
                                continue;
                            }
                            let mut wi = vec![cin, oc];
                            wi.extend_from_slice(&kidx);
                            let o = crate::rt::ravel(&oi, &out_shape);
                            out.data[o] += xv * w.at(&wi);
                        }
                    }
                }
            }
        }
    }
    Ok(vec![out])
}

pub fn pool(case: &Case) -> RefResult {
    let x = need(case, 0)?;
    if !x.dt.is_float() {
        return invalid("float input required (catalogue)");
    }
    if x.rank() < 3 {
        return invalid("rank");
    }
    let ns = x.rank() - 2;
    let kernel = usize_list(case.ints("kernel_shape").ok_or(RefErr::Invalid("kernel_shape required".into()))?, "kernel_shape")?;
    let ceil_mode = case.int("ceil_mode", 0) != 0;
    let is_max = case.op == "MaxPool";
    let include_pad = case.int("count_include_pad", 0) != 0;
    if case.int("storage_order", 0) != 0 {
        return undefined("storage_order=1 only affects the Indices output");
    }
    if !is_max && case.ints("dilations").is_some() && case.opset < 19 {
        return invalid("AveragePool dilations need opset 19");
    }
    let sp = spatial(case, &x.shape[2..], kernel, ceil_mode)?;
    for d in 0..ns {
        // ONNX: padding must be smaller than the kernel (otherwise windows can be all padding)
        if sp.pads_begin[d] >= sp.kernel[d] as i64 * sp.dilations[d] as i64 || sp.pads_end[d] >= sp.kernel[d] as i64 * sp.dilations[d] as i64 {
            return undefined("padding not smaller than the window");
        }
    }
    let mut out_shape = vec![x.shape[0], x.shape[1]];
    out_shape.extend_from_slice(&sp.out);
    let nk = numel(&sp.kernel);
    let mut err = None;
    let out = RT::from_fn(x.dt, &out_shape, |idx| {
        let mut acc = if is_max { f64::NEG_INFINITY } else { 0.0 };
        let mut valid = 0usize; // cells inside the input
        let mut in_padded = 0usize; // cells inside input + explicit padding
        for kl in 0..nk {
            let kidx = unravel(kl, &sp.kernel);
            let mut xi = vec![idx[0], idx[1]];
            let mut inside = true;
            let mut inside_padded = true;
            for d in 0..ns {
                let p = (idx[2 + d] * sp.strides[d] + kidx[d] * sp.dilations[d]) as i64 - sp.pads_begin[d];
                let dim = x.shape[2 + d] as i64;
                if p < -sp.pads_begin[d] || p >= dim + sp.pads_end[d] {
                    inside_padded = false;
                }
                if p < 0 || p >= dim {
                    inside = false;
                } else {
                    xi.push(p as usize);
                }
            }
            if inside_padded {
                in_padded += 1;
            }
            if inside {
                valid += 1;
                let v = x.at(&xi);
                if is_max {
                    acc = acc.max(v);
                } else {
                    acc += v;
                }
            }
        }
        if is_max {
            if valid == 0 {
                err = Some(RefErr::Undefined("max over a window with no input cell".into()));
            }
            acc
        } else if include_pad {
            if in_padded != nk {
                // window hangs over the padded extent (ceil_mode): divisor is contested
                err = Some(RefErr::Undefined("count_include_pad=1 with a window that extends beyond the padded input".into()));
            }
            acc / nk as f64
        } else {
            if valid == 0 {
                err = Some(RefErr::Undefined("average over a window with no input cell".into()));
            }
            acc / valid as f64
        }
    });
    if let Some(e) = err {
        return Err(e);
    }
    Ok(vec![out])
}

pub fn global_pool(case: &Case) -> RefResult {
    let x = need(case, 0)?;
    if !x.dt.is_float() || x.rank() < 3 {
        return invalid("float input of rank >= 3 required");
    }
    let sp: Vec<usize> = x.shape[2..].to_vec();
    let n = numel(&sp);
    if n == 0 {
        return undefined("empty spatial extent");
    }
    let mut out_shape = vec![x.shape[0], x.shape[1]];
    out_shape.extend(std::iter::repeat(1).take(sp.len()));
    let is_max = case.op == "GlobalMaxPool";
    Ok(vec![RT::from_fn(x.dt, &out_shape, |idx| {
        let mut acc = if is_max { f64::NEG_INFINITY } else { 0.0 };
        for l in 0..n {
            let mut xi = vec![idx[0], idx[1]];
            xi.extend(unravel(l, &sp));
            let v = x.at(&xi);
            if is_max {
                acc = acc.max(v);
            } else {
                acc += v;
            }
        }
        if is_max { acc } else { acc / n as f64 }
    })])
}

pub fn layer_norm(case: &Case) -> RefResult {
    let x = need(case, 0)?;
    let scale = need(case, 1)?;
    let bias = case.input(2);
    if !x.dt.is_float() || scale.dt != x.dt {
        return invalid("types");
    }
    let r = x.rank();
    if r == 0 {
        return invalid("scalar input");
    }
    let axis = norm_axis(case.int("axis", -1), r)?;
    let eps = case.float("epsilon", 1e-5) as f64;
    let norm_shape: Vec<usize> = x.shape[axis..].to_vec();
    for t in [Some(scale), bias].into_iter().flatten() {
        let bs = broadcast_shapes(&t.shape, &norm_shape).ok_or(RefErr::Invalid("scale/bias not broadcastable".into()))?;
        if bs != norm_shape {
            return invalid("scale/bias not broadcastable to the normalised shape");
        }
    }
    let n = numel(&norm_shape);
    if n == 0 {
        return undefined("empty normalised extent");
    }
    Ok(vec![RT::from_fn(x.dt, &x.shape, |idx| {
        let mut mean = 0.0;
        for l in 0..n {
            let mut xi = idx[..axis].to_vec();
            xi.extend(unravel(l, &norm_shape));
            mean += x.at(&xi);
        }
        mean /= n as f64;
        let mut var = 0.0;
        for l in 0..n {
            let mut xi = idx[..axis].to_vec();
            xi.extend(unravel(l, &norm_shape));
            var += (x.at(&xi) - mean).powi(2);
        }
        var /= n as f64;
        let nidx = &idx[axis..];
        let mut v = (x.at(idx) - mean) / (var + eps).sqrt() * scale.at_bcast(nidx);
        if let Some(b) = bias {
            v += b.at_bcast(nidx);
        }
        v
    })])
}

pub fn instance_norm(case: &Case) -> RefResult {
    let x = need(case, 0)?;
    let scale = need(case, 1)?;
    let bias = need(case, 2)?;
    if !x.dt.is_float() || scale.dt != x.dt || bias.dt != x.dt {
        return invalid("types");
    }
    if x.rank() < 3 {
        return invalid("rank >= 3 required");
    }
    let c = x.shape[1];
    if scale.shape != [c] || bias.shape != [c] {
        return invalid("scale/bias shape");
    }
    let eps = case.float("epsilon", 1e-5) as f64;
    let sp: Vec<usize> = x.shape[2..].to_vec();
    let n = numel(&sp);
    if n == 0 {
        return undefined("empty spatial extent");
    }
    Ok(vec![RT::from_fn(x.dt, &x.shape, |idx| {
        let mut mean = 0.0;
        for l in 0..n {
            let mut xi = vec![idx[0], idx[1]];
            xi.extend(unravel(l, &sp));
            mean += x.at(&xi);
        }
        mean /= n as f64;
        let mut var = 0.0;
        for l in 0..n {
            let mut xi = vec![idx[0], idx[1]];
            xi.extend(unravel(l, &sp));
            var += (x.at(&xi) - mean).powi(2);
        }
        var /= n as f64;
        (x.at(idx) - mean) / (var + eps).sqrt() * scale.data[idx[1]] + bias.data[idx[1]]
    })])
}

pub fn batch_norm(case: &Case) -> RefResult {
    let x = need(case, 0)?;
    let scale = need(case, 1)?;
    let bias = need(case, 2)?;
    let mean = need(case, 3)?;
    let var = need(case, 4)?;
    if !x.dt.is_float() || [scale, bias, mean, var].iter().any(|t| t.dt != x.dt) {
        return invalid("types");
    }
    if x.rank() < 2 {
        return invalid("rank >= 2 required");
    }
    if case.int("training_mode", 0) != 0 {
        return undefined("training mode");
    }
    let c = x.shape[1];
    if [scale, bias, mean, var].iter().any(|t| t.shape != [c]) {
        return invalid("parameter shape");
    }
    let eps = case.float("epsilon", 1e-5) as f64;
    if var.data.iter().any(|v| v + eps <= 0.0) {
        return undefined("non-positive variance");
    }
    Ok(vec![RT::from_fn(x.dt, &x.shape, |idx| {
        let ch = idx[1];
        (x.at(idx) - mean.data[ch]) / (var.data[ch] + eps).sqrt() * scale.data[ch] + bias.data[ch]
    })])
}

pub fn resize(case: &Case) -> RefResult {
    let x = need(case, 0)?;
    if !x.dt.is_float() {
        return invalid("float input (catalogue)");
    }
    if case.opset < 11 {
        return undefined("pre-11 Resize");
    }
    let r = x.rank();
    let scales_in = case.input(2).filter(|t| t.numel() > 0);
    let sizes_in = case.input(3).filter(|t| t.numel() > 0);
    let (out_shape, scales): (Vec<usize>, Vec<f64>) = match (scales_in, sizes_in) {
        (Some(s), None) => {
            if s.dt != Dt::F32 || s.shape != [r] {
                return invalid("scales");
            }
            if s.data.iter().any(|v| *v <= 0.0) {
                return invalid("non-positive scale");
            }
            let out: Vec<usize> = (0..r).map(|d| (x.shape[d] as f64 * s.data[d]).floor() as usize).collect();
            (out, s.data.clone())
        }
        (None, Some(z)) => {
            if z.dt != Dt::I64 || z.shape != [r] {
                return invalid("sizes");
            }
            if z.data.iter().any(|v| *v < 1.0) {
                return invalid("non-positive size");
            }
            let out: Vec<usize> = z.data.iter().map(|v| *v as usize).collect();
            let sc: Vec<f64> = (0..r).map(|d| out[d] as f64 / x.shape[d] as f64).collect();
            (out, sc)
        }
        _ => return invalid("exactly one of scales / sizes must be given"),
    };
    if x.shape.iter().any(|d| *d == 0) || out_shape.iter().any(|d| *d == 0) {
        return undefined("empty input or output");
    }
    let mode = case.string("mode", "nearest");
    let ctm = case.string("coordinate_transformation_mode", "half_pixel");
    let nearest_mode = case.string("nearest_mode", "round_prefer_floor");
    if case.int("antialias", 0) != 0 || case.int("exclude_outside", 0) != 0 {
        return undefined("antialias / exclude_outside");
    }
    let orig = |d: usize, o: usize| -> Result<f64, RefErr> {
        let xo = o as f64;
        let (li, lo) = (x.shape[d] as f64, out_shape[d] as f64);
        Ok(match ctm.as_str() {
            "half_pixel" => (xo + 0.5) / scales[d] - 0.5,
            "pytorch_half_pixel" => {
                if lo > 1.0 {
                    (xo + 0.5) / scales[d] - 0.5
                } else {
                    0.0
                }
            }
            "align_corners" => {
                if lo == 1.0 {
                    0.0
                } else {
                    xo * (li - 1.0) / (lo - 1.0)
                }
            }
            "asymmetric" => xo / scales[d],
            _ => return undefined("coordinate_transformation_mode outside the catalogue"),
        })
    };
    let mut err = None;
    let out = match mode.as_str() {
        "nearest" => RT::from_fn(x.dt, &out_shape, |idx| {
            let mut xi = Vec::with_capacity(r);
            for d in 0..r {
                let xo = match orig(d, idx[d]) {
                    Ok(v) => v,
                    Err(e) => {
                        err = Some(e);
                        0.0
                    }
                };
                let n = match nearest_mode.as_str() {
                    "round_prefer_floor" => {
                        if xo == xo.floor() + 0.5 {
                            xo.floor()
                        } else {
                            xo.round()
                        }
                    }
                    "round_prefer_ceil" => (xo + 0.5).floor(),
                    "floor" => xo.floor(),
                    "ceil" => xo.ceil(),
                    _ => {
                        err = Some(RefErr::Invalid("nearest_mode".into()));
                        0.0
                    }
                };
                xi.push(n.clamp(0.0, x.shape[d] as f64 - 1.0) as usize);
            }
            x.at(&xi)
        }),
        "linear" => RT::from_fn(x.dt, &out_shape, |idx| {
            // N-linear interpolation: product of per-axis weights
            let mut lo = Vec::with_capacity(r);
            let mut hi = Vec::with_capacity(r);
            let mut wt = Vec::with_capacity(r);
            for d in 0..r {
                let xo = match orig(d, idx[d]) {
                    Ok(v) => v,
                    Err(e) => {
                        err = Some(e);
                        0.0
                    }
                };
                let xo = xo.clamp(0.0, x.shape[d] as f64 - 1.0);
                let x0 = xo.floor();
                let x1 = (x0 + 1.0).min(x.shape[d] as f64 - 1.0);
                lo.push(x0 as usize);
                hi.push(x1 as usize);
                wt.push(xo - x0);
            }
            let mut s = 0.0;
            for corner in 0..(1usize << r) {
                let mut w = 1.0;
                let mut xi = Vec::with_capacity(r);
                for d in 0..r {
                    if corner >> d & 1 == 1 {
                        w *= wt[d];
                        xi.push(hi[d]);
                    } else {
                        w *= 1.0 - wt[d];
                        xi.push(lo[d]);
                    }
                }
                if w != 0.0 {
                    s += w * x.at(&xi);
                }
            }
            s
        }),
        _ => return undefined("resize mode outside the catalogue"),
    };
    if let Some(e) = err {
        return Err(e);
    }
    Ok(vec![out])
}

fn qparams<'a>(x: &RT, scale: &'a RT, zp: Option<&'a RT>, axis_attr: i64) -> Result<(Option<usize>, &'a RT, Option<&'a RT>), RefErr> {
    if scale.rank() == 0 {
        if let Some(z) = zp {
            if z.rank() != 0 {
                return invalid("zero point shape differs from scale shape");
            }
        }
        return Ok((None, scale, zp));
    }
    if scale.rank() != 1 {
        return undefined("blocked quantisation");
    }
    let axis = norm_axis(axis_attr, x.rank())?;
    if scale.shape[0] != x.shape[axis] {
        return invalid("scale length differs from the axis extent");
    }
    if let Some(z) = zp {
        if z.shape != scale.shape {
            return invalid("zero point shape differs from scale shape");
        }
    }
    Ok((Some(axis), scale, zp))
}

pub fn quantize_linear(case: &Case) -> RefResult {
    let x = need(case, 0)?;
    let scale = need(case, 1)?;
    let zp = case.input(2);
    if x.dt != Dt::F32 || scale.dt != Dt::F32 {
        return invalid("f32 input and scale (catalogue)");
    }
    let out_dt = match (zp, case.int_opt("output_dtype").filter(|v| *v != 0)) {
        (Some(z), None) => z.dt,
        (None, None) => Dt::U8,
        (None, Some(d)) => Dt::from_onnx(d).ok_or(RefErr::Invalid("output_dtype".into()))?,
        (Some(z), Some(d)) => {
            if Dt::from_onnx(d) != Some(z.dt) {
                return invalid("output_dtype differs from the zero point type");
            }
            z.dt
        }
    };
    if !matches!(out_dt, Dt::U8 | Dt::I8) {
        return invalid("output type (catalogue: uint8/int8)");
    }
    let (axis, scale, zp) = qparams(x, scale, zp, case.int("axis", 1))?;
    if scale.data.iter().any(|s| *s <= 0.0) {
        return undefined("non-positive scale");
    }
    let (lo, hi) = out_dt.int_range().unwrap();
    Ok(vec![RT::from_fn(out_dt, &x.shape, |idx| {
        let k = axis.map(|a| idx[a]).unwrap_or(0);
        let s = scale.data[k];
        let z = zp.map(|z| z.data[k]).unwrap_or(0.0);
        // x / y_scale is an f32 division
        let q = ((x.at(idx) as f32) / (s as f32)) as f64;
        (round_half_even(q) + z).clamp(lo, hi)
    })])
}

pub fn dequantize_linear(case: &Case) -> RefResult {
    let x = need(case, 0)?;
    let scale = need(case, 1)?;
    let zp = case.input(2);
    if !matches!(x.dt, Dt::U8 | Dt::I8 | Dt::I32) || scale.dt != Dt::F32 {
        return invalid("types");
    }
    if let Some(z) = zp {
        if z.dt != x.dt {
            return invalid("zero point type");
        }
    }
    let (axis, scale, zp) = qparams(x, scale, zp, case.int("axis", 1))?;
    Ok(vec![RT::from_fn(Dt::F32, &x.shape, |idx| {
        let k = axis.map(|a| idx[a]).unwrap_or(0);
        (x.at(idx) - zp.map(|z| z.data[k]).unwrap_or(0.0)) * scale.data[k]
    })])
}

pub fn dynamic_quantize_linear(case: &Case) -> RefResult {
    let x = need(case, 0)?;
    if x.dt != Dt::F32 {
        return invalid("f32 input");
    }
    if x.numel() == 0 {
        return undefined("empty input");
    }
    // all steps in f32, as the specification's formulas are over float tensors
    let xs: Vec<f32> = x.data.iter().map(|v| *v as f32).collect();
    let mn = xs.iter().cloned().fold(0.0f32, f32::min);
    let mx = xs.iter().cloned().fold(0.0f32, f32::max);
    let scale = (mx - mn) / 255.0f32;
    if scale == 0.0 {
        return undefined("all-zero input (scale 0)");
    }
    let izp = 0.0f32 - mn / scale;
    let zp = round_half_even(izp.clamp(0.0, 255.0) as f64);
    let y: Vec<f64> = xs.iter().map(|v| (round_half_even((*v / scale) as f64) + zp).clamp(0.0, 255.0)).collect();
    Ok(vec![RT { dt: Dt::U8, shape: x.shape.clone(), data: y }, RT::scalar(Dt::F32, scale as f64), RT::scalar(Dt::U8, zp)])
}

pub fn einsum(case: &Case) -> RefResult {
    let eq = case.string("equation", "");
    let ins: Vec<&RT> = case.inputs.iter().map(|i| i.as_ref().ok_or(RefErr::Invalid("missing input".into()))).collect::<Result<_, _>>()?;
    if ins.is_empty() {
        return invalid("no inputs");
    }
    let dt = ins[0].dt;
    if ins.iter().any(|t| t.dt != dt) || matches!(dt, Dt::Bool | Dt::I8 | Dt::U8) {
        return invalid("types");
    }
    let eq: String = eq.chars().filter(|c| !c.is_whitespace()).collect();
    if eq.contains('.') {
        return undefined("ellipsis is outside the catalogue");
    }
    let (lhs, rhs) = match eq.split_once("->") {
        Some((l, r)) => (l.to_string(), Some(r.to_string())),
        None => (eq.clone(), None),
    };
    let terms: Vec<Vec<char>> = lhs.split(',').map(|t| t.chars().collect()).collect();
    if terms.len() != ins.len() {
        return invalid("number of terms differs from the number of inputs");
    }
    let mut size: std::collections::BTreeMap<char, usize> = Default::default();
    let mut count: std::collections::BTreeMap<char, usize> = Default::default();
    for (t, x) in terms.iter().zip(&ins) {
        if t.len() != x.rank() {
            return invalid("term rank differs from the operand rank");
        }
        for (k, c) in t.iter().enumerate() {
            if !c.is_ascii_alphabetic() {
                return invalid("bad label");
            }
            *count.entry(*c).or_insert(0) += 1;
            match size.get(c) {
                Some(s) if *s != x.shape[k] => {
                    if *s == 1 || x.shape[k] == 1 {
                        return undefined("broadcasting of a repeated label");
                    }
                    return invalid("label extent mismatch");
                }
                _ => {
                    size.insert(*c, x.shape[k]);
                }
            }
        }
    }
    let out_labels: Vec<char> = match rhs {
        Some(r) => {
            let v: Vec<char> = r.chars().collect();
            for (i, c) in v.iter().enumerate() {
                if !size.contains_key(c) || v[..i].contains(c) {
                    return invalid("bad output term");
                }
            }
            v
        }
        None => count.iter().filter(|(_, n)| **n == 1).map(|(c, _)| *c).collect(),
    };
    let sum_labels: Vec<char> = size.keys().filter(|c| !out_labels.contains(c)).cloned().collect();
    let out_shape: Vec<usize> = out_labels.iter().map(|c| size[c]).collect();
    let sum_shape: Vec<usize> = sum_labels.iter().map(|c| size[c]).collect();
    let nsum = numel(&sum_shape);
    Ok(vec![RT::from_fn(dt, &out_shape, |idx| {
        let mut s = 0.0;
        for l in 0..nsum {
            let sidx = unravel(l, &sum_shape);
            let val = |c: char| -> usize {
                if let Some(p) = out_labels.iter().position(|x| *x == c) {
                    idx[p]
                } else {
                    sidx[sum_labels.iter().position(|x| *x == c).unwrap()]
                }
            };
            let mut p = 1.0;
            for (t, x) in terms.iter().zip(&ins) {
                let xi: Vec<usize> = t.iter().map(|c| val(*c)).collect();
                p *= x.at(&xi);
            }
            s += p;
        }
        s
    })])
}
