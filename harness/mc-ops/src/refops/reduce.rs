//! Reductions along axes: Reduce*, ArgMax/ArgMin, CumSum, TopK, Softmax/LogSoftmax.

use super::{RefErr, RefResult, invalid, need, norm_axis, undefined};
use crate::case::Case;
use crate::rt::{Dt, RT, numel, unravel};

/// Resolve the axes of a Reduce* node: attribute (older opsets) or input 1.
fn reduce_axes(case: &Case, rank: usize) -> Result<Option<Vec<usize>>, RefErr> {
    let raw: Option<Vec<i64>> = if let Some(a) = case.ints("axes") {
        Some(a)
    } else if let Some(t) = case.input(1) {
        if !matches!(t.dt, Dt::I64) {
            return invalid("axes input must be int64");
        }
        if t.rank() != 1 {
            return invalid("axes input must be 1-D");
        }
        Some(t.ints())
    } else {
        None
    };
    match raw {
        None => Ok(None),
        Some(v) => {
            let mut out = Vec::new();
            for a in v {
                let a = norm_axis(a, rank)?;
                if out.contains(&a) {
                    return invalid("duplicate axis");
                }
                out.push(a);
            }
            Ok(Some(out))
        }
    }
}

pub fn reduce(case: &Case) -> RefResult {
    let op = case.op;
    let x = need(case, 0)?;
    let rank = x.rank();
    let keepdims = case.int("keepdims", 1) != 0;
    let noop = case.int("noop_with_empty_axes", 0) != 0;
    if x.dt == Dt::Bool || matches!(x.dt, Dt::I8 | Dt::U8) && !matches!(op, "ReduceMax" | "ReduceMin") {
        return invalid("element type not in the operator's type constraint");
    }
    if !x.dt.is_float() && matches!(op, "ReduceMean" | "ReduceL2" | "ReduceLogSum" | "ReduceLogSumExp") {
        return undefined("integer input: rounding of the result is not specified");
    }
    let axes = reduce_axes(case, rank)?;
    let axes: Vec<usize> = match axes {
        Some(a) if !a.is_empty() => a,
        _ => {
            if noop {
                if matches!(op, "ReduceSum" | "ReduceMax" | "ReduceMin" | "ReduceMean" | "ReduceProd") {
                    return Ok(vec![x.clone()]);
                }
                return undefined("noop_with_empty_axes with an operator that applies a function to each element: specification text and reference implementation disagree");
            }
            (0..rank).collect()
        }
    };
    let mut out_shape_keep = x.shape.clone();
    for &a in &axes {
        out_shape_keep[a] = 1;
    }
    let out_shape: Vec<usize> = if keepdims { out_shape_keep.clone() } else { (0..rank).filter(|d| !axes.contains(d)).map(|d| x.shape[d]).collect() };
    let red_shape: Vec<usize> = axes.iter().map(|&a| x.shape[a]).collect();
    let nred = numel(&red_shape);
    let nout = numel(&out_shape_keep);
    let mut data = Vec::with_capacity(nout);
    for l in 0..nout {
        let base = unravel(l, &out_shape_keep);
        let mut vals = Vec::with_capacity(nred);
        for r in 0..nred {
            let ridx = unravel(r, &red_shape);
            let mut idx = base.clone();
            for (k, &a) in axes.iter().enumerate() {
                idx[a] = ridx[k];
            }
            vals.push(x.at(&idx));
        }
        if vals.is_empty() && !matches!(op, "ReduceSum" | "ReduceProd" | "ReduceSumSquare" | "ReduceL1") {
            return undefined("reduction over an empty set of elements");
        }
        let v = match op {
            "ReduceSum" => vals.iter().sum::<f64>(),
            "ReduceMean" => vals.iter().sum::<f64>() / vals.len() as f64,
            "ReduceMax" => vals.iter().cloned().fold(f64::NEG_INFINITY, f64::max),
            "ReduceMin" => vals.iter().cloned().fold(f64::INFINITY, f64::min),
            "ReduceProd" => vals.iter().product::<f64>(),
            "ReduceL1" => vals.iter().map(|v| v.abs()).sum::<f64>(),
            "ReduceL2" => vals.iter().map(|v| v * v).sum::<f64>().sqrt(),
            "ReduceSumSquare" => vals.iter().map(|v| v * v).sum::<f64>(),
            "ReduceLogSum" => {
                let s = vals.iter().sum::<f64>();
                if s <= 0.0 {
                    return undefined("log of non-positive sum");
                }
                s.ln()
            }
            "ReduceLogSumExp" => {
                let m = vals.iter().cloned().fold(f64::NEG_INFINITY, f64::max);
                m + vals.iter().map(|v| (v - m).exp()).sum::<f64>().ln()
            }
            _ => return Err(RefErr::Unimplemented(op.into())),
        };
        data.push(v);
    }
    Ok(vec![RT { dt: x.dt, shape: out_shape, data }])
}

pub fn arg_reduce(case: &Case) -> RefResult {
    let x = need(case, 0)?;
    if x.dt == Dt::Bool {
        return invalid("bool input");
    }
    let rank = x.rank();
    if rank == 0 {
        return invalid("axis out of range for a scalar");
    }
    let axis = norm_axis(case.int("axis", 0), rank)?;
    let keepdims = case.int("keepdims", 1) != 0;
    let last = case.int("select_last_index", 0) != 0;
    let is_max = case.op == "ArgMax";
    if x.shape[axis] == 0 {
        return undefined("arg-reduction over an empty axis");
    }
    let mut keep = x.shape.clone();
    keep[axis] = 1;
    let out_shape: Vec<usize> = if keepdims { keep.clone() } else { (0..rank).filter(|d| *d != axis).map(|d| x.shape[d]).collect() };
    let mut data = Vec::new();
    for l in 0..numel(&keep) {
        let mut idx = unravel(l, &keep);
        let mut best = 0usize;
        let mut bestv = f64::NAN;
        for i in 0..x.shape[axis] {
            idx[axis] = i;
            let v = x.at(&idx);
            let better = if i == 0 {
                true
            } else if is_max {
                v > bestv || (last && v == bestv)
            } else {
                v < bestv || (last && v == bestv)
            };
            if better {
                best = i;
                bestv = v;
            }
        }
        data.push(best as f64);
    }
    Ok(vec![RT { dt: Dt::I64, shape: out_shape, data }])
}

pub fn cumsum(case: &Case) -> RefResult {
    let x = need(case, 0)?;
    let ax = need(case, 1)?;
    if matches!(x.dt, Dt::Bool | Dt::I8 | Dt::U8) {
        return invalid("element type");
    }
    if !matches!(ax.dt, Dt::I32 | Dt::I64) || ax.numel() != 1 || ax.rank() > 1 {
        return invalid("axis must be a 0-D (or 1-element) int32/int64 tensor");
    }
    if ax.rank() == 1 {
        return undefined("axis given as a 1-D tensor: the specification says 0-D");
    }
    let rank = x.rank();
    if rank == 0 {
        return invalid("scalar input");
    }
    let axis = norm_axis(ax.data[0] as i64, rank)?;
    let exclusive = case.int("exclusive", 0) != 0;
    let reverse = case.int("reverse", 0) != 0;
    let n = x.shape[axis];
    let out = RT::from_fn(x.dt, &x.shape, |idx| {
        let i = idx[axis];
        let mut j = idx.to_vec();
        let mut s = 0.0;
        for k in 0..n {
            let take = if !reverse {
                if exclusive { k < i } else { k <= i }
            } else if exclusive {
                k > i
            } else {
                k >= i
            };
            if take {
                j[axis] = k;
                s += x.at(&j);
            }
        }
        s
    });
    Ok(vec![out])
}

pub fn topk(case: &Case) -> RefResult {
    let x = need(case, 0)?;
    if matches!(x.dt, Dt::Bool) {
        return invalid("bool input");
    }
    let k: i64 = if case.opset < 10 {
        case.int_opt("k").ok_or(RefErr::Invalid("k attribute missing".into()))?
    } else {
        let kt = need(case, 1)?;
        if kt.dt != Dt::I64 || kt.shape != [1] {
            return invalid("K must be a 1-D int64 tensor with one element");
        }
        kt.data[0] as i64
    };
    let rank = x.rank();
    if rank == 0 {
        return invalid("scalar input");
    }
    let axis = norm_axis(case.int("axis", -1), rank)?;
    let largest = case.int("largest", 1) != 0;
    let sorted = case.int("sorted", 1) != 0;
    if !sorted {
        return undefined("sorted=0: order of the returned elements is not specified");
    }
    if k < 0 || k as usize > x.shape[axis] {
        return invalid("k out of range");
    }
    let k = k as usize;
    let mut out_shape = x.shape.clone();
    out_shape[axis] = k;
    let mut keep = x.shape.clone();
    keep[axis] = 1;
    let mut vals = RT::new(x.dt, &out_shape, vec![0.0; numel(&out_shape)]);
    let mut inds = RT::new(Dt::I64, &out_shape, vec![0.0; numel(&out_shape)]);
    for l in 0..numel(&keep) {
        let mut idx = unravel(l, &keep);
        let mut lane: Vec<(f64, usize)> = (0..x.shape[axis])
            .map(|i| {
                idx[axis] = i;
                (x.at(&idx), i)
            })
            .collect();
        // stable sort: equal values keep ascending index order ("the element
        // with the lower index will appear first")
        if largest {
            lane.sort_by(|a, b| b.0.partial_cmp(&a.0).unwrap().then(a.1.cmp(&b.1)));
        } else {
            lane.sort_by(|a, b| a.0.partial_cmp(&b.0).unwrap().then(a.1.cmp(&b.1)));
        }
        for (j, (v, i)) in lane.iter().take(k).enumerate() {
            idx[axis] = j;
            let o = crate::rt::ravel(&idx, &out_shape);
            vals.data[o] = *v;
            inds.data[o] = *i as f64;
        }
    }
    Ok(vec![vals, inds])
}

pub fn softmax(case: &Case) -> RefResult {
    let x = need(case, 0)?;
    if !x.dt.is_float() {
        return invalid("float input required");
    }
    if case.opset < 13 {
        return undefined("pre-13 Softmax (flatten-to-2D semantics) is outside the catalogue");
    }
    let rank = x.rank();
    if rank == 0 {
        return invalid("scalar input");
    }
    let axis = norm_axis(case.int("axis", -1), rank)?;
    let log = case.op == "LogSoftmax";
    let n = x.shape[axis];
    let out = RT::from_fn(x.dt, &x.shape, |idx| {
        let mut j = idx.to_vec();
        let mut m = f64::NEG_INFINITY;
        for k in 0..n {
            j[axis] = k;
            m = m.max(x.at(&j));
        }
        let mut s = 0.0;
        for k in 0..n {
            j[axis] = k;
            s += (x.at(&j) - m).exp();
        }
        let v = x.at(idx) - m;
        if log { v - s.ln() } else { v.exp() / s }
    });
    Ok(vec![out])
}
