//! Reference tensor used by the naive ONNX reference semantics.
//!
//! `RT { dt, shape, data: Vec<f64> }`, row-major. Every element is held as an
//! `f64`; for the integer/boolean ONNX element types the stored number is
//! always integral (|v| <= 2^63, the only values above 2^53 that are ever used
//! are the i64 "to the end" sentinels of Slice, which are powers of two and
//! convert back with a saturating cast). All float accumulation is in f64.

use vp_core::{Json, json};

#[derive(Clone, Copy, PartialEq, Eq, Debug, Hash, PartialOrd, Ord)]
pub enum Dt {
    F32,
    F64,
    I32,
    I64,
    I8,
    U8,
    Bool,
}

/// Element types of rten values.
#[derive(Clone, Copy, PartialEq, Eq, Debug, Hash, PartialOrd, Ord)]
pub enum RDt {
    F32,
    I32,
    I8,
    U8,
}

impl Dt {
    pub fn onnx(self) -> i32 {
        match self {
            Dt::F32 => 1,
            Dt::U8 => 2,
            Dt::I8 => 3,
            Dt::I32 => 6,
            Dt::I64 => 7,
            Dt::Bool => 9,
            Dt::F64 => 11,
        }
    }
    pub fn from_onnx(v: i64) -> Option<Dt> {
        Some(match v {
            1 => Dt::F32,
            2 => Dt::U8,
            3 => Dt::I8,
            6 => Dt::I32,
            7 => Dt::I64,
            9 => Dt::Bool,
            11 => Dt::F64,
            _ => return None,
        })
    }
    pub fn is_float(self) -> bool {
        matches!(self, Dt::F32 | Dt::F64)
    }
    pub fn is_int(self) -> bool {
        !self.is_float()
    }
    /// How rten represents this ONNX element type (property text of C15).
    pub fn rten(self) -> RDt {
        match self {
            Dt::F32 | Dt::F64 => RDt::F32,
            Dt::I32 | Dt::I64 | Dt::Bool => RDt::I32,
            Dt::I8 => RDt::I8,
            Dt::U8 => RDt::U8,
        }
    }
    /// i64/bool/f64 have no run-time representation in rten; the C15 protocol
    /// supplies them as typed ONNX initializers.
    pub fn needs_initializer(self) -> bool {
        matches!(self, Dt::I64 | Dt::Bool | Dt::F64)
    }
    pub fn name(self) -> &'static str {
        match self {
            Dt::F32 => "f32",
            Dt::F64 => "f64",
            Dt::I32 => "i32",
            Dt::I64 => "i64",
            Dt::I8 => "i8",
            Dt::U8 => "u8",
            Dt::Bool => "bool",
        }
    }
    pub fn from_name(s: &str) -> Option<Dt> {
        Some(match s {
            "f32" => Dt::F32,
            "f64" => Dt::F64,
            "i32" => Dt::I32,
            "i64" => Dt::I64,
            "i8" => Dt::I8,
            "u8" => Dt::U8,
            "bool" => Dt::Bool,
            _ => return None,
        })
    }
    /// Inclusive integer range of the type (None for floats).
    pub fn int_range(self) -> Option<(f64, f64)> {
        Some(match self {
            Dt::I32 => (i32::MIN as f64, i32::MAX as f64),
            Dt::I64 => (i64::MIN as f64, i64::MAX as f64),
            Dt::I8 => (-128.0, 127.0),
            Dt::U8 => (0.0, 255.0),
            Dt::Bool => (0.0, 1.0),
            _ => return None,
        })
    }
}

impl RDt {
    pub fn name(self) -> &'static str {
        match self {
            RDt::F32 => "f32",
            RDt::I32 => "i32",
            RDt::I8 => "i8",
            RDt::U8 => "u8",
        }
    }
}

#[derive(Clone, Debug, PartialEq)]
pub struct RT {
    pub dt: Dt,
    pub shape: Vec<usize>,
    pub data: Vec<f64>,
}

pub fn numel(shape: &[usize]) -> usize {
    shape.iter().product()
}

pub fn strides_of(shape: &[usize]) -> Vec<usize> {
    let mut s = vec![0usize; shape.len()];
    let mut acc = 1usize;
    for d in (0..shape.len()).rev() {
        s[d] = acc;
        acc *= shape[d];
    }
    s
}

pub fn ravel(idx: &[usize], shape: &[usize]) -> usize {
    let mut lin = 0usize;
    for d in 0..shape.len() {
        debug_assert!(idx[d] < shape[d]);
        lin = lin * shape[d] + idx[d];
    }
    lin
}

pub fn unravel(mut lin: usize, shape: &[usize]) -> Vec<usize> {
    let mut idx = vec![0usize; shape.len()];
    for d in (0..shape.len()).rev() {
        if shape[d] > 0 {
            idx[d] = lin % shape[d];
            lin /= shape[d];
        }
    }
    idx
}

/// All indices of `shape` in row-major order.
pub fn indices(shape: &[usize]) -> Vec<Vec<usize>> {
    let n = numel(shape);
    (0..n).map(|l| unravel(l, shape)).collect()
}

/// NumPy-style multidirectional broadcast of two shapes.
pub fn broadcast_shapes(a: &[usize], b: &[usize]) -> Option<Vec<usize>> {
    let r = a.len().max(b.len());
    let mut out = vec![0usize; r];
    for i in 0..r {
        let da = if i + a.len() >= r { a[i + a.len() - r] } else { 1 };
        let db = if i + b.len() >= r { b[i + b.len() - r] } else { 1 };
        out[i] = if da == db {
            da
        } else if da == 1 {
            db
        } else if db == 1 {
            da
        } else {
            return None;
        };
    }
    Some(out)
}

pub fn broadcast_all(shapes: &[&[usize]]) -> Option<Vec<usize>> {
    let mut cur: Vec<usize> = Vec::new();
    for s in shapes {
        cur = broadcast_shapes(&cur, s)?;
    }
    Some(cur)
}

impl RT {
    pub fn new(dt: Dt, shape: &[usize], data: Vec<f64>) -> RT {
        assert_eq!(numel(shape), data.len(), "RT::new shape/data mismatch");
        RT { dt, shape: shape.to_vec(), data }
    }
    pub fn scalar(dt: Dt, v: f64) -> RT {
        RT { dt, shape: vec![], data: vec![v] }
    }
    pub fn vec(dt: Dt, v: &[f64]) -> RT {
        RT { dt, shape: vec![v.len()], data: v.to_vec() }
    }
    pub fn ivec(dt: Dt, v: &[i64]) -> RT {
        RT { dt, shape: vec![v.len()], data: v.iter().map(|x| *x as f64).collect() }
    }
    pub fn from_fn(dt: Dt, shape: &[usize], mut f: impl FnMut(&[usize]) -> f64) -> RT {
        let n = numel(shape);
        let mut data = Vec::with_capacity(n);
        for l in 0..n {
            let idx = unravel(l, shape);
            data.push(f(&idx));
        }
        RT { dt, shape: shape.to_vec(), data }
    }
    pub fn rank(&self) -> usize {
        self.shape.len()
    }
    pub fn numel(&self) -> usize {
        self.data.len()
    }
    pub fn at(&self, idx: &[usize]) -> f64 {
        self.data[ravel(idx, &self.shape)]
    }
    /// Element at the position `idx` of a tensor this one is broadcast to.
    pub fn at_bcast(&self, idx: &[usize]) -> f64 {
        let r = idx.len();
        let k = self.shape.len();
        let mut lin = 0usize;
        for d in 0..k {
            let i = idx[r - k + d];
            let i = if self.shape[d] == 1 { 0 } else { i };
            lin = lin * self.shape[d] + i;
        }
        self.data[lin]
    }
    pub fn ints(&self) -> Vec<i64> {
        self.data.iter().map(|v| *v as i64).collect()
    }
    pub fn with_dt(mut self, dt: Dt) -> RT {
        self.dt = dt;
        self
    }
    /// Round every element to what the element type can hold (f32 rounding for
    /// F32; nothing for the rest - integer results are produced integral).
    pub fn rounded(mut self) -> RT {
        if self.dt == Dt::F32 {
            for v in self.data.iter_mut() {
                *v = *v as f32 as f64;
            }
        }
        self
    }

    pub fn to_json(&self) -> Json {
        json!({
            "dt": self.dt.name(),
            "shape": self.shape,
            "data": self.data.iter().map(|v| num_to_json(*v)).collect::<Vec<_>>(),
        })
    }
    pub fn from_json(j: &Json) -> Option<RT> {
        let dt = Dt::from_name(j["dt"].as_str()?)?;
        let shape: Vec<usize> = j["shape"].as_array()?.iter().map(|v| v.as_u64().map(|x| x as usize)).collect::<Option<_>>()?;
        let data: Vec<f64> = j["data"].as_array()?.iter().map(num_from_json).collect::<Option<_>>()?;
        if numel(&shape) != data.len() {
            return None;
        }
        Some(RT { dt, shape, data })
    }
    pub fn brief(&self) -> String {
        let shown: Vec<String> = self.data.iter().take(24).map(|v| fmt_num(*v)).collect();
        format!(
            "{}{:?}[{}{}]",
            self.dt.name(),
            self.shape,
            shown.join(","),
            if self.data.len() > 24 { ",…" } else { "" }
        )
    }
}

pub fn fmt_num(v: f64) -> String {
    if v.is_nan() {
        "nan".into()
    } else if v == v.trunc() && v.abs() < 1e15 {
        if v == 0.0 && v.is_sign_negative() { "-0".into() } else { format!("{}", v as i64) }
    } else {
        format!("{v}")
    }
}

pub fn num_to_json(v: f64) -> Json {
    if v.is_nan() {
        json!("nan")
    } else if v == f64::INFINITY {
        json!("inf")
    } else if v == f64::NEG_INFINITY {
        json!("-inf")
    } else if v == 0.0 && v.is_sign_negative() {
        json!("-0")
    } else if v == v.trunc() && v.abs() < 9.0e15 {
        json!(v as i64)
    } else if v.abs() >= 9.0e15 {
        // i64 sentinels etc: keep exact through a string
        json!(format!("{:e}", v))
    } else {
        json!(v)
    }
}

pub fn num_from_json(j: &Json) -> Option<f64> {
    if let Some(s) = j.as_str() {
        return Some(match s {
            "nan" => f64::NAN,
            "inf" => f64::INFINITY,
            "-inf" => f64::NEG_INFINITY,
            "-0" => -0.0,
            other => other.parse::<f64>().ok()?,
        });
    }
    j.as_f64()
}
