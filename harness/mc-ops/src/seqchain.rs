//! C12 sub-box "sequence chains": the sequence-consuming operators
//! (SequenceInsert, SequenceAt, SequenceErase, SequenceLength,
//! ConcatFromSequence) cannot be reached by single-operator models with tensor
//! inputs, so they are exercised through small chains
//!
//!   S  = SequenceEmpty(dtype = A | absent)  |  SequenceConstruct(X1: A, X2: A)
//!   S2 = SequenceInsert(S, T: B)
//!   Y  = SequenceAt(S2, 0) ; L = SequenceLength(S2) ; C = ConcatFromSequence(S2, axis 0) ; S3 = SequenceErase(S2, 0)
//!
//! for every pair (A, B) of element types. After each successful run the
//! declared `output_types()` rule of every operator whose inputs and outputs
//! were observed is resolved against the *actual* input types and compared
//! with the produced type; the labels of `infer_shapes` are compared too.

use std::collections::HashMap;

use rten::verif::graph::Node;
use rten::verif::infer_shapes::{InferShapeOptions, infer_shapes};
use rten::verif::operator::{OutputType, OutputTypesContext};
use rten::{ModelOptions, NodeId, ValueType};
use vp_core::{Json, json};
use vp_onnx as onnx;

use crate::common::Report;

const DTS: [(i32, &str); 6] = [
    (onnx::dtype::FLOAT, "f32"),
    (onnx::dtype::INT32, "i32"),
    (onnx::dtype::INT64, "i64"),
    (onnx::dtype::UINT8, "u8"),
    (onnx::dtype::INT8, "i8"),
    (onnx::dtype::BOOL, "bool"),
];
const STARTS: [&str; 3] = ["SequenceEmpty(dtype)", "SequenceEmpty(no dtype)", "SequenceConstruct"];

fn tensor(name: &str, dt: i32, dims: &[i64]) -> onnx::Tensor {
    let n: i64 = dims.iter().product();
    match dt {
        onnx::dtype::FLOAT => onnx::Tensor::f32(name, dims, &(0..n).map(|i| i as f32).collect::<Vec<_>>()),
        onnx::dtype::INT32 => onnx::Tensor::i32(name, dims, &(0..n).map(|i| i as i32).collect::<Vec<_>>()),
        onnx::dtype::INT64 => onnx::Tensor::i64(name, dims, &(0..n).collect::<Vec<_>>()),
        onnx::dtype::UINT8 => onnx::Tensor::u8(name, dims, &(0..n).map(|i| i as u8).collect::<Vec<_>>()),
        onnx::dtype::INT8 => onnx::Tensor::i8(name, dims, &(0..n).map(|i| i as i8).collect::<Vec<_>>()),
        _ => onnx::Tensor::bool(name, dims, &(0..n).map(|i| i % 2 == 0).collect::<Vec<_>>()),
    }
}

fn model_bytes(start: usize, a: i32, b: i32) -> Vec<u8> {
    let mut g = onnx::Graph::new("seqchain");
    g.initializers.push(tensor("X1", a, &[2, 2]));
    g.initializers.push(tensor("X2", a, &[1, 2]));
    g.initializers.push(tensor("T", b, &[3, 2]));
    g.initializers.push(onnx::Tensor::i64("I0", &[], &[0]));
    match start {
        0 => g.nodes.push(onnx::Node::new("SequenceEmpty", &[], &["S"]).attr("dtype", onnx::Attr::Int(a as i64)).named("n_start")),
        1 => g.nodes.push(onnx::Node::new("SequenceEmpty", &[], &["S"]).named("n_start")),
        _ => g.nodes.push(onnx::Node::new("SequenceConstruct", &["X1", "X2"], &["S"]).named("n_start")),
    }
    g.nodes.push(onnx::Node::new("SequenceInsert", &["S", "T"], &["S2"]).named("n_insert"));
    g.nodes.push(onnx::Node::new("SequenceAt", &["S2", "I0"], &["Y"]).named("n_at"));
    g.nodes.push(onnx::Node::new("SequenceLength", &["S2"], &["L"]).named("n_len"));
    g.nodes.push(onnx::Node::new("ConcatFromSequence", &["S2"], &["C"]).attr("axis", onnx::Attr::Int(0)).named("n_concat"));
    g.nodes.push(onnx::Node::new("SequenceErase", &["S2", "I0"], &["S3"]).named("n_erase"));
    for o in ["S", "S2", "Y", "L", "C", "S3"] {
        g.outputs.push(onnx::ValueInfo::untyped(o));
    }
    onnx::model_bytes(&g)
}

fn case_json(start: usize, a: usize, b: usize) -> Json {
    json!({"seqchain": {"start": STARTS[start], "start_index": start, "sequence_element_type": DTS[a].1, "a": a, "inserted_tensor_type": DTS[b].1, "b": b}})
}

pub fn run_case(start: usize, a: usize, b: usize, rep: &mut Report) {
    let op = "sequence-chains";
    rep.stat(op, "cases");
    let bytes = model_bytes(start, DTS[a].0, DTS[b].0);
    let mut mo = ModelOptions::with_all_ops();
    mo.enable_optimization(false);
    let model = match vp_core::catch(|| mo.load(bytes)) {
        Ok(Ok(m)) => m,
        Ok(Err(_)) => {
            rep.stat(op, "declined");
            return;
        }
        Err(p) => {
            rep.observe(format!("sequence chain: load panics: {}", vp_core::truncate(&p, 60)));
            return;
        }
    };
    let graph = model.verif_graph();
    let id = |n: &str| model.find_node(n);
    // observed types: constants from the graph, values from successful runs
    let mut seen: HashMap<NodeId, ValueType> = HashMap::new();
    for (nid, node) in graph.iter() {
        if let Node::Constant(c) = node {
            seen.insert(nid, c.as_view().dtype());
        }
    }
    for req in [vec!["S"], vec!["S", "S2"], vec!["S2", "Y"], vec!["S2", "L"], vec!["S2", "C"], vec!["S2", "S3"]] {
        let ids: Option<Vec<NodeId>> = req.iter().map(|n| id(n)).collect();
        let Some(ids) = ids else { continue };
        match vp_core::catch(|| model.run(vec![], &ids, None)) {
            Ok(Ok(vals)) => {
                rep.stat(op, "successful_runs");
                for (i, v) in ids.iter().zip(vals.iter()) {
                    seen.insert(*i, v.dtype());
                }
            }
            Ok(Err(_)) => rep.stat(op, "run_error"),
            Err(p) => rep.observe(format!("sequence chain: run panics: {}", vp_core::truncate(&p, 60))),
        }
    }
    let labels = vp_core::catch(|| infer_shapes(graph, InferShapeOptions::default())).ok().and_then(|r| r.ok());
    for (_, node) in graph.iter() {
        let Node::Operator(opn) = node else { continue };
        let name = opn.operator().name().to_string();
        let in_types: Vec<Option<ValueType>> = opn.input_ids().iter().map(|i| i.and_then(|i| seen.get(&i).copied())).collect();
        let Some(rules) = opn.operator().output_types(&OutputTypesContext { num_outputs: opn.output_ids().len() }) else { continue };
        let get_in = |k: u32| in_types.get(k as usize).copied().flatten();
        for (i, oid) in opn.output_ids().iter().enumerate() {
            let (Some(oid), Some(rule)) = (oid, rules.get(i)) else { continue };
            let Some(actual) = seen.get(oid).copied() else { continue };
            let (rule_name, predicted) = match rule {
                OutputType::Fixed(v) => ("Fixed", Some(*v)),
                OutputType::CopyFromInput(k) => ("CopyFromInput", get_in(*k)),
                OutputType::ElementTypeOfInputSequence(k) => ("ElementTypeOfInputSequence", get_in(*k).map(|t| match t {
                    ValueType::Sequence(d) | ValueType::Tensor(d) => ValueType::Tensor(d),
                    other => other,
                })),
                OutputType::SequenceWithElementTypeOfInput(k) => ("SequenceWithElementTypeOfInput", get_in(*k).map(|t| match t {
                    ValueType::Sequence(d) | ValueType::Tensor(d) => ValueType::Sequence(d),
                    other => other,
                })),
            };
            let Some(predicted) = predicted else {
                rep.stat(op, "rule_unresolvable");
                continue;
            };
            rep.stat(op, "outputs_checked");
            rep.stat(&name, "outputs_checked");
            rep.outcome_hashes.insert(vp_core::fnv(format!("seqchain/{name}/{i}/{rule_name}/{actual}").as_bytes()));
            let in_names: Vec<String> = in_types.iter().map(|t| t.map(|t| format!("{t}")).unwrap_or_else(|| "-".into())).collect();
            if predicted != actual {
                rep.violation(
                    format!("{name} (in a sequence chain): output {i} has type {actual} but declared rule {rule_name} predicts {predicted} [inputs {}]", in_names.join(",")),
                    json!({"case": case_json(start, a, b)}),
                    format!("start {} with element type {}, inserted tensor {}", STARTS[start], DTS[a].1, DTS[b].1),
                );
            } else if let Some(l) = labels.as_ref().and_then(|l| l.types.get(oid)) {
                rep.stat(op, "graph_level_labels_checked");
                if *l != actual {
                    rep.violation(
                        format!("{name} (in a sequence chain): infer_shapes labels output {i} as {l} but the run produces {actual}"),
                        json!({"case": case_json(start, a, b)}),
                        format!("start {} with element type {}, inserted tensor {}", STARTS[start], DTS[a].1, DTS[b].1),
                    );
                }
            }
        }
    }
}

pub fn run_all(rep: &mut Report) {
    for start in 0..STARTS.len() {
        for a in 0..DTS.len() {
            for b in 0..DTS.len() {
                run_case(start, a, b, rep);
            }
        }
    }
}

pub fn replay(j: &Json, rep: &mut Report) -> bool {
    let s = &j["seqchain"];
    if s.is_null() {
        return false;
    }
    run_case(s["start_index"].as_u64().unwrap_or(0) as usize, s["a"].as_u64().unwrap_or(0) as usize, s["b"].as_u64().unwrap_or(0) as usize, rep);
    true
}
