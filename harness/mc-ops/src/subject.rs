//! Driving the real rten: single-operator ONNX model -> `Model::load` -> `Model::run`,
//! plus direct `Operator::run` / `run_in_place` calls on the loaded operator node.

use std::cell::RefCell;
use std::sync::Arc;

use rten::verif::graph::{Node, OperatorNode};
use rten::verif::operator::{InPlaceInputs, InputList, OpRunContext, Operator};
use rten::{BufferPool, Model, ModelOptions, NodeId, RunOptions, ThreadPool, Value, ValueOrView, ValueView};
use rten_tensor::prelude::*;
use rten_tensor::{Tensor, TensorView};

use crate::case::{AV, Case};
use crate::rt::{Dt, RDt, RT, numel, strides_of};

thread_local! {
    static OPTS: RefCell<Option<ModelOptions>> = const { RefCell::new(None) };
    static POOL: RefCell<Option<Arc<ThreadPool>>> = const { RefCell::new(None) };
}

pub fn thread_pool() -> Arc<ThreadPool> {
    POOL.with(|p| {
        let mut p = p.borrow_mut();
        if p.is_none() {
            *p = Some(Arc::new(ThreadPool::with_num_threads(1)));
        }
        p.as_ref().unwrap().clone()
    })
}

fn run_opts() -> Option<RunOptions> {
    Some(RunOptions::default().with_thread_pool(Some(thread_pool())))
}

/// How the case inputs are presented to the model.
#[derive(Clone, Copy, Debug, PartialEq, Eq)]
pub enum InputMode {
    /// C15 protocol: i64/bool/f64 inputs are typed ONNX initializers, the rest
    /// are graph inputs supplied at run time.
    Spec,
    /// Every input is a graph input (declared with its ONNX element type) and
    /// supplied at run time in rten's representation (i32/i32/f32). Used where
    /// the layout / ownership of inputs is the thing varied (C13, C14).
    AllRuntime,
}

fn in_name(i: usize) -> String {
    format!("in{i}")
}
fn out_name(i: usize) -> String {
    format!("out{i}")
}

fn onnx_tensor(name: &str, t: &RT) -> vp_onnx::Tensor {
    let dims: Vec<i64> = t.shape.iter().map(|d| *d as i64).collect();
    match t.dt {
        Dt::F32 => vp_onnx::Tensor::f32(name, &dims, &t.data.iter().map(|v| *v as f32).collect::<Vec<_>>()),
        Dt::F64 => vp_onnx::Tensor::f64(name, &dims, &t.data),
        Dt::I32 => vp_onnx::Tensor::i32(name, &dims, &t.data.iter().map(|v| *v as i32).collect::<Vec<_>>()),
        Dt::I64 => vp_onnx::Tensor::i64(name, &dims, &t.data.iter().map(|v| *v as i64).collect::<Vec<_>>()),
        Dt::I8 => vp_onnx::Tensor::i8(name, &dims, &t.data.iter().map(|v| *v as i8).collect::<Vec<_>>()),
        Dt::U8 => vp_onnx::Tensor::u8(name, &dims, &t.data.iter().map(|v| *v as u8).collect::<Vec<_>>()),
        Dt::Bool => vp_onnx::Tensor::bool(name, &dims, &t.data.iter().map(|v| *v != 0.0).collect::<Vec<_>>()),
    }
}

pub fn is_runtime_input(t: &RT, mode: InputMode) -> bool {
    match mode {
        InputMode::Spec => !t.dt.needs_initializer(),
        InputMode::AllRuntime => true,
    }
}

/// Encode the node of a case. (Local copy of the few lines of
/// `vp_onnx::Node::encode`, with one difference: repeated `ints` / `floats`
/// attribute fields are written *unpacked*, as proto2 writers - the ONNX
/// exporters - do; rten's decoder rejects the packed form with "field type
/// mismatch".)
fn encode_node(case: &Case, in_names: &[String], out_names: &[String]) -> vp_onnx::pb::Msg {
    use vp_onnx::pb::Msg;
    let mut m = Msg::new();
    for i in in_names {
        m.string(1, i);
    }
    for o in out_names {
        m.string(2, o);
    }
    m.string(3, "the_op");
    m.string(4, case.op);
    for (name, a) in &case.attrs {
        let mut am = Msg::new();
        am.string(1, name);
        match a {
            AV::Int(i) => {
                am.varint(3, *i as u64);
                am.varint(20, 2);
            }
            AV::Float(f) => {
                am.fixed32(2, f.to_bits());
                am.varint(20, 1);
            }
            AV::Str(s) => {
                am.bytes(4, s.as_bytes());
                am.varint(20, 3);
            }
            AV::Ints(v) => {
                for x in v {
                    am.varint(8, *x as u64);
                }
                am.varint(20, 7);
            }
            AV::Floats(v) => {
                for x in v {
                    am.fixed32(7, x.to_bits());
                }
                am.varint(20, 6);
            }
            AV::Tensor(t) => {
                am.msg(5, &onnx_tensor("", t).encode());
                am.varint(20, 4);
            }
        }
        m.msg(5, &am);
    }
    if !case.domain.is_empty() {
        m.string(7, case.domain);
    }
    m
}

pub fn build_bytes(case: &Case, mode: InputMode) -> Vec<u8> {
    use vp_onnx::pb::Msg;
    let in_names: Vec<String> = case.inputs.iter().enumerate().map(|(i, t)| if t.is_some() { in_name(i) } else { String::new() }).collect();
    // trailing absent inputs are simply not listed
    let mut listed = in_names.clone();
    while matches!(listed.last(), Some(s) if s.is_empty()) {
        listed.pop();
    }
    let out_names: Vec<String> = (0..case.n_out).map(out_name).collect();
    // GraphProto
    let mut g = Msg::new();
    g.msg(1, &encode_node(case, &listed, &out_names));
    g.string(2, "case");
    for (i, t) in case.inputs.iter().enumerate() {
        let Some(t) = t else { continue };
        if !is_runtime_input(t, mode) {
            g.msg(5, &onnx_tensor(&in_names[i], t).encode());
        }
    }
    for (i, t) in case.inputs.iter().enumerate() {
        let Some(t) = t else { continue };
        if is_runtime_input(t, mode) {
            g.msg(11, &vp_onnx::ValueInfo::typed_no_shape(&in_names[i], t.dt.onnx()).encode());
        }
    }
    for o in &out_names {
        g.msg(12, &vp_onnx::ValueInfo::untyped(o).encode());
    }
    // ModelProto: ir_version 8, default-domain opset, com.microsoft v1
    let mut m = Msg::new();
    m.varint(1, 8);
    m.string(2, "mc-ops");
    m.msg(7, &g);
    let mut os = Msg::new();
    os.string(1, "");
    os.varint(2, case.opset as u64);
    m.msg(8, &os);
    let mut ms = Msg::new();
    ms.string(1, "com.microsoft");
    ms.varint(2, 1);
    m.msg(8, &ms);
    m.into_bytes()
}

pub struct Subject {
    pub model: Model,
    /// per case input: node id if it is a run-time graph input
    pub in_ids: Vec<Option<NodeId>>,
    pub out_ids: Vec<NodeId>,
}

#[derive(Clone, Debug, PartialEq)]
pub enum Fail {
    /// load error (unsupported attribute/operator form)
    LoadRejected(String),
    LoadPanic(String),
    RunError(String),
    RunPanic(String),
}

impl Fail {
    pub fn text(&self) -> String {
        match self {
            Fail::LoadRejected(s) => format!("load rejected: {s}"),
            Fail::LoadPanic(s) => format!("load PANIC: {s}"),
            Fail::RunError(s) => format!("run error: {s}"),
            Fail::RunPanic(s) => format!("run PANIC: {s}"),
        }
    }
}

pub fn load(case: &Case, mode: InputMode) -> Result<Subject, Fail> {
    let bytes = build_bytes(case, mode);
    let res = OPTS.with(|o| {
        let mut o = o.borrow_mut();
        if o.is_none() {
            let mut mo = ModelOptions::with_all_ops();
            mo.enable_optimization(false);
            *o = Some(mo);
        }
        let mo = o.as_ref().unwrap();
        vp_core::catch(|| mo.load(bytes))
    });
    let model = match res {
        Ok(Ok(m)) => m,
        Ok(Err(e)) => return Err(Fail::LoadRejected(format!("{e}"))),
        Err(p) => return Err(Fail::LoadPanic(p)),
    };
    let mut in_ids = Vec::new();
    for (i, t) in case.inputs.iter().enumerate() {
        match t {
            Some(t) if is_runtime_input(t, mode) => match model.find_node(&in_name(i)) {
                Some(id) => in_ids.push(Some(id)),
                None => return Err(Fail::LoadRejected(format!("input node in{i} missing after load"))),
            },
            _ => in_ids.push(None),
        }
    }
    let mut out_ids = Vec::new();
    for i in 0..case.n_out {
        match model.find_node(&out_name(i)) {
            Some(id) => out_ids.push(id),
            None => return Err(Fail::LoadRejected(format!("output node out{i} missing after load"))),
        }
    }
    Ok(Subject { model, in_ids, out_ids })
}

// ---------------------------------------------------------------------------
// Input buffers with explicit layouts
// ---------------------------------------------------------------------------

/// A typed buffer + layout describing one logical tensor.
#[derive(Clone, Debug)]
pub struct Laid<T> {
    pub buf: Vec<T>,
    pub base: usize,
    pub shape: Vec<usize>,
    pub strides: Vec<usize>,
}

#[derive(Clone, Debug)]
pub enum LaidAny {
    F(Laid<f32>),
    I(Laid<i32>),
    I8(Laid<i8>),
    U8(Laid<u8>),
}

/// Layout variants of C14.
#[derive(Clone, Debug, PartialEq, Eq)]
pub enum LayoutKind {
    Contiguous,
    /// physical axis order `perm` (a permuted view of a permuted buffer)
    Permuted(Vec<usize>),
    /// padded buffer; logical index i of axis d lives at 1 + i*step[d]
    Stepped(Vec<usize>),
    /// axis `k` (along which the data is constant) is stored once, stride 0
    Broadcast(usize),
}

impl LayoutKind {
    pub fn name(&self) -> String {
        match self {
            LayoutKind::Contiguous => "contiguous".into(),
            LayoutKind::Permuted(_) => "permuted view".into(),
            LayoutKind::Stepped(_) => "stepped slice".into(),
            LayoutKind::Broadcast(_) => "broadcast view".into(),
        }
    }
    pub fn to_json(&self) -> vp_core::Json {
        match self {
            LayoutKind::Contiguous => vp_core::json!({"kind": "contiguous"}),
            LayoutKind::Permuted(p) => vp_core::json!({"kind": "permuted", "perm": p}),
            LayoutKind::Stepped(s) => vp_core::json!({"kind": "stepped", "steps": s}),
            LayoutKind::Broadcast(k) => vp_core::json!({"kind": "broadcast", "axis": k}),
        }
    }
    pub fn from_json(j: &vp_core::Json) -> Option<LayoutKind> {
        let us = |v: &vp_core::Json| -> Option<Vec<usize>> { v.as_array()?.iter().map(|x| x.as_u64().map(|x| x as usize)).collect() };
        Some(match j["kind"].as_str()? {
            "contiguous" => LayoutKind::Contiguous,
            "permuted" => LayoutKind::Permuted(us(&j["perm"])?),
            "stepped" => LayoutKind::Stepped(us(&j["steps"])?),
            "broadcast" => LayoutKind::Broadcast(j["axis"].as_u64()? as usize),
            _ => return None,
        })
    }
}

fn lay<T: Copy>(data: &[T], shape: &[usize], kind: &LayoutKind, pad: T) -> Laid<T> {
    let n = numel(shape);
    assert_eq!(n, data.len());
    let r = shape.len();
    match kind {
        LayoutKind::Contiguous => Laid { buf: data.to_vec(), base: 0, shape: shape.to_vec(), strides: strides_of(shape) },
        LayoutKind::Permuted(perm) => {
            assert_eq!(perm.len(), r);
            let pshape: Vec<usize> = perm.iter().map(|&p| shape[p]).collect();
            let pstr = strides_of(&pshape);
            let mut strides = vec![0usize; r];
            for (k, &p) in perm.iter().enumerate() {
                strides[p] = pstr[k];
            }
            let mut buf = vec![pad; n];
            for l in 0..n {
                let idx = crate::rt::unravel(l, shape);
                let off: usize = (0..r).map(|d| idx[d] * strides[d]).sum();
                buf[off] = data[l];
            }
            Laid { buf, base: 0, shape: shape.to_vec(), strides }
        }
        LayoutKind::Stepped(steps) => {
            assert_eq!(steps.len(), r);
            // physical extent of axis d: 1 (leading pad) + shape*step + 1 (trailing pad)
            let pshape: Vec<usize> = (0..r).map(|d| 2 + shape[d] * steps[d]).collect();
            let pstr = strides_of(&pshape);
            let strides: Vec<usize> = (0..r).map(|d| pstr[d] * steps[d]).collect();
            let base: usize = (0..r).map(|d| pstr[d]).sum();
            // one extra element so that base is in range even for empty tensors
            let mut buf = vec![pad; numel(&pshape) + 1];
            for l in 0..n {
                let idx = crate::rt::unravel(l, shape);
                let off: usize = base + (0..r).map(|d| idx[d] * strides[d]).sum::<usize>();
                buf[off] = data[l];
            }
            Laid { buf, base, shape: shape.to_vec(), strides }
        }
        LayoutKind::Broadcast(k) => {
            let mut pshape = shape.to_vec();
            pshape[*k] = 1;
            let mut strides = strides_of(&pshape);
            strides[*k] = 0;
            let mut buf = vec![pad; numel(&pshape)];
            for l in 0..n {
                let idx = crate::rt::unravel(l, shape);
                if idx[*k] != 0 {
                    continue;
                }
                let off: usize = (0..r).map(|d| idx[d] * strides[d]).sum();
                buf[off] = data[l];
            }
            Laid { buf, base: 0, shape: shape.to_vec(), strides }
        }
    }
}

impl<T> Laid<T> {
    pub fn view(&self) -> Result<TensorView<'_, T>, String> {
        TensorView::from_slice_with_strides(&self.shape, &self.buf[self.base..], &self.strides).map_err(|e| format!("{e:?}"))
    }
}

pub fn lay_rt(t: &RT, kind: &LayoutKind) -> LaidAny {
    match t.dt.rten() {
        RDt::F32 => LaidAny::F(lay(&t.data.iter().map(|v| *v as f32).collect::<Vec<_>>(), &t.shape, kind, 7777.0)),
        RDt::I32 => LaidAny::I(lay(&t.data.iter().map(|v| sat_i32(*v)).collect::<Vec<_>>(), &t.shape, kind, 7777)),
        RDt::I8 => LaidAny::I8(lay(&t.data.iter().map(|v| *v as i8).collect::<Vec<_>>(), &t.shape, kind, 77)),
        RDt::U8 => LaidAny::U8(lay(&t.data.iter().map(|v| *v as u8).collect::<Vec<_>>(), &t.shape, kind, 77)),
    }
}

/// i64 -> i32 the way the loader does it for initializers (saturating).
pub fn sat_i32(v: f64) -> i32 {
    (v as i64).clamp(i32::MIN as i64, i32::MAX as i64) as i32
}

impl LaidAny {
    pub fn value_view(&self) -> Result<ValueView<'_>, String> {
        Ok(match self {
            LaidAny::F(l) => ValueView::FloatTensor(l.view()?),
            LaidAny::I(l) => ValueView::Int32Tensor(l.view()?),
            LaidAny::I8(l) => ValueView::Int8Tensor(l.view()?),
            LaidAny::U8(l) => ValueView::UInt8Tensor(l.view()?),
        })
    }
}

/// Owned-value variants of C13.
#[derive(Clone, Debug, PartialEq, Eq)]
pub enum OwnedKind {
    Contiguous,
    /// owned tensor whose buffer is in axis order `perm`, permuted in place
    Permuted(Vec<usize>),
    /// contiguous, `Vec` capacity larger than its length
    SpareCapacity,
    /// built with `Tensor::with_capacity(.., axis)` + `append`: room to grow along `axis`
    SpareAlongAxis(usize),
}

impl OwnedKind {
    pub fn name(&self) -> String {
        match self {
            OwnedKind::Contiguous => "contiguous owned".into(),
            OwnedKind::Permuted(_) => "non-contiguous owned".into(),
            OwnedKind::SpareCapacity => "owned with spare capacity".into(),
            OwnedKind::SpareAlongAxis(_) => "owned with spare capacity along an axis".into(),
        }
    }
    pub fn to_json(&self) -> vp_core::Json {
        match self {
            OwnedKind::Contiguous => vp_core::json!({"kind": "contiguous"}),
            OwnedKind::Permuted(p) => vp_core::json!({"kind": "permuted", "perm": p}),
            OwnedKind::SpareCapacity => vp_core::json!({"kind": "spare"}),
            OwnedKind::SpareAlongAxis(a) => vp_core::json!({"kind": "spare_axis", "axis": a}),
        }
    }
    pub fn from_json(j: &vp_core::Json) -> Option<OwnedKind> {
        Some(match j["kind"].as_str()? {
            "contiguous" => OwnedKind::Contiguous,
            "permuted" => OwnedKind::Permuted(j["perm"].as_array()?.iter().map(|x| x.as_u64().map(|x| x as usize)).collect::<Option<_>>()?),
            "spare" => OwnedKind::SpareCapacity,
            "spare_axis" => OwnedKind::SpareAlongAxis(j["axis"].as_u64()? as usize),
            _ => return None,
        })
    }
}

fn owned_t<T: Copy + Default>(data: Vec<T>, shape: &[usize], kind: &OwnedKind) -> Result<Tensor<T>, String>
where
    Value: From<Tensor<T>>,
{
    match kind {
        OwnedKind::Contiguous => Ok(Tensor::from_data(shape, data)),
        OwnedKind::Permuted(perm) => {
            let laid = lay(&data, shape, &LayoutKind::Permuted(perm.clone()), T::default());
            let pshape: Vec<usize> = perm.iter().map(|&p| shape[p]).collect();
            let mut inv = vec![0usize; perm.len()];
            for (k, &p) in perm.iter().enumerate() {
                inv[p] = k;
            }
            let t = Tensor::from_data(&pshape, laid.buf);
            let t = t.into_permuted(&inv);
            if t.shape() != shape {
                return Err("harness: permuted owned tensor has wrong shape".into());
            }
            Ok(t)
        }
        OwnedKind::SpareCapacity => {
            let mut v = Vec::with_capacity(data.len() * 2 + 64);
            v.extend_from_slice(&data);
            Ok(Tensor::from_data(shape, v))
        }
        OwnedKind::SpareAlongAxis(axis) => {
            let mut cap_shape = shape.to_vec();
            cap_shape[*axis] = shape[*axis] * 2 + 3;
            let mut t: Tensor<T> = Tensor::with_capacity(&cap_shape, *axis);
            let src = Tensor::from_data(shape, data);
            t.append(*axis, &src).map_err(|e| format!("harness: append failed: {e:?}"))?;
            if t.shape() != shape {
                return Err("harness: spare-axis tensor has wrong shape".into());
            }
            Ok(t)
        }
    }
}

pub fn owned_value(t: &RT, kind: &OwnedKind) -> Result<Value, String> {
    Ok(match t.dt.rten() {
        RDt::F32 => Value::from(owned_t(t.data.iter().map(|v| *v as f32).collect::<Vec<_>>(), &t.shape, kind)?),
        RDt::I32 => Value::from(owned_t(t.data.iter().map(|v| sat_i32(*v)).collect::<Vec<_>>(), &t.shape, kind)?),
        RDt::I8 => Value::from(owned_t(t.data.iter().map(|v| *v as i8).collect::<Vec<_>>(), &t.shape, kind)?),
        RDt::U8 => Value::from(owned_t(t.data.iter().map(|v| *v as u8).collect::<Vec<_>>(), &t.shape, kind)?),
    })
}

// ---------------------------------------------------------------------------
// Output snapshots
// ---------------------------------------------------------------------------

#[derive(Clone, Debug, PartialEq, Eq, Hash)]
pub enum Snap {
    Tensor { dt: RDt, shape: Vec<usize>, bits: Vec<u32> },
    Sequence { dt: RDt, items: Vec<Snap> },
}

fn rdt_of(d: rten::DataType) -> RDt {
    match d {
        rten::DataType::Float => RDt::F32,
        rten::DataType::Int32 => RDt::I32,
        rten::DataType::Int8 => RDt::I8,
        rten::DataType::UInt8 => RDt::U8,
        _ => RDt::F32,
    }
}

pub fn snap_view(v: &ValueView) -> Snap {
    match v {
        ValueView::FloatTensor(t) => Snap::Tensor { dt: RDt::F32, shape: t.shape().to_vec(), bits: t.iter().map(|x| x.to_bits()).collect() },
        ValueView::Int32Tensor(t) => Snap::Tensor { dt: RDt::I32, shape: t.shape().to_vec(), bits: t.iter().map(|x| *x as u32).collect() },
        ValueView::Int8Tensor(t) => Snap::Tensor { dt: RDt::I8, shape: t.shape().to_vec(), bits: t.iter().map(|x| *x as u8 as u32).collect() },
        ValueView::UInt8Tensor(t) => Snap::Tensor { dt: RDt::U8, shape: t.shape().to_vec(), bits: t.iter().map(|x| *x as u32).collect() },
        ValueView::Sequence(s) => Snap::Sequence { dt: rdt_of(s.dtype()), items: s.iter().map(|v| snap_view(&v)).collect() },
        _ => Snap::Sequence { dt: RDt::F32, items: vec![] },
    }
}

pub fn snap(v: &Value) -> Snap {
    snap_view(&v.as_view())
}

impl Snap {
    pub fn is_sequence(&self) -> bool {
        matches!(self, Snap::Sequence { .. })
    }
    pub fn dt(&self) -> RDt {
        match self {
            Snap::Tensor { dt, .. } | Snap::Sequence { dt, .. } => *dt,
        }
    }
    pub fn shape(&self) -> &[usize] {
        match self {
            Snap::Tensor { shape, .. } => shape,
            _ => &[],
        }
    }
    /// Values as f64 (tensor only).
    pub fn values(&self) -> Vec<f64> {
        match self {
            Snap::Tensor { dt, bits, .. } => bits
                .iter()
                .map(|b| match dt {
                    RDt::F32 => f32::from_bits(*b) as f64,
                    RDt::I32 => *b as i32 as f64,
                    RDt::I8 => *b as u8 as i8 as f64,
                    RDt::U8 => *b as u8 as f64,
                })
                .collect(),
            _ => vec![],
        }
    }
    pub fn brief(&self) -> String {
        match self {
            Snap::Tensor { dt, shape, .. } => {
                let vals = self.values();
                let shown: Vec<String> = vals.iter().take(24).map(|v| crate::rt::fmt_num(*v)).collect();
                format!("{}{:?}[{}{}]", dt.name(), shape, shown.join(","), if vals.len() > 24 { ",…" } else { "" })
            }
            Snap::Sequence { dt, items } => format!("seq<{}>[{}]", dt.name(), items.iter().map(|i| i.brief()).collect::<Vec<_>>().join(", ")),
        }
    }
    pub fn type_name(&self) -> String {
        match self {
            Snap::Tensor { dt, .. } => format!("tensor({})", dt.name()),
            Snap::Sequence { dt, .. } => format!("sequence({})", dt.name()),
        }
    }
}

// ---------------------------------------------------------------------------
// Running through Model::run
// ---------------------------------------------------------------------------

/// Run the model with every run-time input presented by `laid[i]`.
pub fn run_model(s: &Subject, laid: &[Option<LaidAny>]) -> Result<Vec<Snap>, Fail> {
    let mut inputs: Vec<(NodeId, ValueOrView)> = Vec::new();
    for (i, id) in s.in_ids.iter().enumerate() {
        let Some(id) = id else { continue };
        let Some(l) = laid[i].as_ref() else {
            return Err(Fail::RunError(format!("harness: no buffer for input {i}")));
        };
        let v = l.value_view().map_err(|e| Fail::RunError(format!("harness: view construction failed: {e}")))?;
        inputs.push((*id, ValueOrView::View(v)));
    }
    let res = vp_core::catch(|| s.model.run(inputs, &s.out_ids, run_opts()));
    match res {
        Ok(Ok(vals)) => Ok(vals.iter().map(snap).collect()),
        Ok(Err(e)) => Err(Fail::RunError(format!("{e}"))),
        Err(p) => Err(Fail::RunPanic(p)),
    }
}

/// Contiguous buffers for all run-time inputs of a case.
pub fn contiguous_inputs(case: &Case, mode: InputMode) -> Vec<Option<LaidAny>> {
    case.inputs
        .iter()
        .map(|t| match t {
            Some(t) if is_runtime_input(t, mode) => Some(lay_rt(t, &LayoutKind::Contiguous)),
            _ => None,
        })
        .collect()
}

pub fn load_and_run(case: &Case, mode: InputMode) -> Result<(Subject, Vec<Snap>), Fail> {
    let s = load(case, mode)?;
    let laid = contiguous_inputs(case, mode);
    let out = run_model(&s, &laid)?;
    Ok((s, out))
}

// ---------------------------------------------------------------------------
// Direct operator access
// ---------------------------------------------------------------------------

pub fn op_node(model: &Model) -> Option<&OperatorNode> {
    let mut found = None;
    for (_id, n) in model.verif_graph().iter() {
        if let Node::Operator(op) = n {
            if found.is_some() {
                return None;
            }
            found = Some(op);
        }
    }
    found
}

/// The operator's input list in graph order: constants of the graph
/// (initializers, attribute-promoted inputs) as views of the graph's constant,
/// run-time inputs from `vals` (indexed by case input). `skip` positions
/// (operator input positions) are replaced by `None`.
pub fn direct_input_views<'a>(s: &'a Subject, node: &OperatorNode, vals: &'a [Option<ValueView<'a>>], skip: &[usize]) -> Result<Vec<Option<ValueView<'a>>>, String> {
    let g = s.model.verif_graph();
    let mut out = Vec::new();
    for (pos, id) in node.input_ids().iter().enumerate() {
        if skip.contains(&pos) {
            out.push(None);
            continue;
        }
        let Some(id) = id else {
            out.push(None);
            continue;
        };
        match g.get_node(*id) {
            Some(Node::Constant(c)) => out.push(Some(c.as_view())),
            Some(Node::Value(_)) => {
                let j = s.in_ids.iter().position(|x| *x == Some(*id)).ok_or("harness: operator input is not a graph input")?;
                out.push(Some(vals[j].clone().ok_or("harness: missing run-time value")?));
            }
            _ => return Err("harness: operator input is an operator node".into()),
        }
    }
    Ok(out)
}

/// Which case input feeds operator input position `pos` (None if constant/absent).
pub fn case_input_of_pos(s: &Subject, node: &OperatorNode, pos: usize) -> Option<usize> {
    let id = (*node.input_ids().get(pos)?)?;
    s.in_ids.iter().position(|x| *x == Some(id))
}

/// `Operator::run` called directly, inside a one-thread rten pool.
pub fn direct_run(node: &OperatorNode, inputs: Vec<Option<ValueView>>) -> Result<Vec<Snap>, Fail> {
    let op = node.clone_operator();
    let mask = node.output_mask();
    let pool = thread_pool();
    let res = vp_core::catch(|| {
        pool.run(|| {
            let bp = BufferPool::new();
            let il = InputList::from_optional(&inputs);
            let mut ctx = OpRunContext::new(&bp, &il, mask);
            ctx.set_name(Some("the_op"));
            let op: &(dyn Operator + Send + Sync) = op.as_ref();
            op.run(&ctx).map(|outs| outs.iter().map(snap).collect::<Vec<_>>()).map_err(|e| format!("{e}"))
        })
    });
    match res {
        Ok(Ok(v)) => Ok(v),
        Ok(Err(e)) => Err(Fail::RunError(e)),
        Err(p) => Err(Fail::RunPanic(p)),
    }
}

/// `Operator::run_in_place` called the way `Graph::run_plan` does: the owned
/// values travel in `InPlaceInputs (pos, value)`, their positions in the input
/// list hold `None`.
pub fn direct_run_in_place(node: &OperatorNode, in_place: Vec<(usize, Value)>, inputs: Vec<Option<ValueView>>) -> Result<Vec<Snap>, Fail> {
    let op = node.clone_operator();
    let mask = node.output_mask();
    let pool = thread_pool();
    let res = vp_core::catch(|| {
        pool.run(|| {
            let bp = BufferPool::new();
            let il = InputList::from_optional(&inputs);
            let mut ctx = OpRunContext::new(&bp, &il, mask);
            ctx.set_name(Some("the_op"));
            let ipi = InPlaceInputs::from_iter(in_place);
            let op: &(dyn Operator + Send + Sync) = op.as_ref();
            op.run_in_place(ipi, &ctx).map(|outs| outs.iter().map(snap).collect::<Vec<_>>()).map_err(|e| format!("{e}"))
        })
    });
    match res {
        Ok(Ok(v)) => Ok(v),
        Ok(Err(e)) => Err(Fail::RunError(e)),
        Err(p) => Err(Fail::RunPanic(p)),
    }
}
