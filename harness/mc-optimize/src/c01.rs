//! C01 driver: enumerate every point of every template's hole box, evaluate
//! it differentially, minimise violating points inside the (complete) box by
//! table lookup, report one signature per (site, what, minimal hole class).

use std::collections::BTreeMap;
use std::sync::Mutex;
use std::sync::atomic::{AtomicBool, AtomicU64, Ordering};

use vp_core::{Ctx, Json, Samples, json};

use crate::exec;
use crate::prog::Prog;

pub struct Axis {
    pub name: &'static str,
    pub size: usize,
    /// Priority with which a deviation on this axis is named in the signature's
    /// hole class: 0 = context (named only if nothing else deviates), 1 = hole,
    /// 2 = primary hole (when one deviates, lower priorities are not named).
    pub in_sig: u8,
}

pub fn ax(name: &'static str, size: usize, in_sig: bool) -> Axis {
    Axis { name, size, in_sig: in_sig as u8 }
}

/// Primary hole (constant shape class).
pub fn ax2(name: &'static str, size: usize) -> Axis {
    Axis { name, size, in_sig: 2 }
}

pub struct Built {
    pub prog: Prog,
    /// label of the value chosen on each axis (in context)
    pub tags: Vec<String>,
}

pub type OpList = [(String, String, usize)];

pub struct Template {
    pub name: String,
    pub generator: &'static str,
    /// Fusion this template is meant to trigger (vacuity guard), if any.
    pub fusion: Option<&'static str>,
    pub axes: Vec<Axis>,
    /// None = the point is not a (well-typed / canonical-form) program.
    pub build: Box<dyn Fn(&[usize]) -> Option<Built> + Send + Sync>,
    /// Did the targeted rewrite happen, judged from the optimised graphs' operators.
    pub fired: Box<dyn Fn(&[usize], &OpList) -> bool + Send + Sync>,
    /// Bring a point into canonical form (used after reverting an axis).
    pub normalize: Option<Box<dyn Fn(&mut Vec<usize>) + Send + Sync>>,
}

impl Template {
    pub fn total(&self) -> usize {
        self.axes.iter().map(|a| a.size).product()
    }
    pub fn point(&self, mut flat: usize) -> Vec<usize> {
        let mut p = vec![0; self.axes.len()];
        for d in (0..self.axes.len()).rev() {
            p[d] = flat % self.axes[d].size;
            flat /= self.axes[d].size;
        }
        p
    }
    pub fn flat(&self, p: &[usize]) -> usize {
        let mut f = 0;
        for d in 0..self.axes.len() {
            f = f * self.axes[d].size + p[d];
        }
        f
    }
}

#[derive(Clone, Copy, Default)]
struct Cell {
    evaluated: bool,
    /// 0 = no violation, else interned (site, what) + 1
    core: u32,
}

#[derive(Default, Clone)]
struct TStats {
    points: u64,
    programs: u64,
    ref_loaded: u64,
    ref_ok: u64,
    ref_ok_runs: u64,
    ref_failed_runs: u64,
    comparisons: u64,
    graph_changed: u64,
    fired: u64,
    fired_and_compared: u64,
    strict_refused: u64,
    structural_nondet: u64,
    violations: u64,
}

impl TStats {
    fn to_json(&self) -> Json {
        json!({
            "points": self.points, "programs": self.programs, "reference_loaded": self.ref_loaded,
            "reference_ran_ok": self.ref_ok, "reference_ok_runs": self.ref_ok_runs,
            "reference_failed_runs": self.ref_failed_runs, "comparisons": self.comparisons,
            "optimized_graph_differs": self.graph_changed, "targeted_rewrite_fired": self.fired,
            "fired_and_compared": self.fired_and_compared, "strict_refused_to_load": self.strict_refused,
            "two_loads_differ_structurally": self.structural_nondet, "violating_programs": self.violations,
        })
    }
}

struct ChunkOut {
    t: usize,
    cells: Vec<(usize, Cell)>,
    stats: TStats,
    cores: Vec<(String, String)>,
    outcome_hashes: Vec<u64>,
}

/// In the shape-arithmetic grammar a violation that needs shape inference is
/// named after the folding site, not after whatever downstream operator was
/// subsequently fused or elided.
fn site_for(t: &Template, v: &exec::Violation) -> String {
    if t.generator == "shape-arithmetic" && v.only_with_inference { "shape-inference constant folding".to_string() } else { v.site.clone() }
}

fn hole_class(t: &Template, p: &[usize], tags: &[String]) -> String {
    if t.generator == "shape-arithmetic" {
        // chains: the set of operator kinds (order and constants are in the replayed program)
        let n = p.len();
        let mut ops: Vec<String> = (1..n - 1).filter(|d| p[*d] != 0).map(|d| tags[d].clone()).collect();
        ops.sort();
        ops.dedup();
        // Name the operator kinds whose folding is sensitive to element type, constant shape or
        // truth value; the remaining (incidental) operators of the chain are in the replayed
        // program. If none of these occurs, the full set is named.
        const PRIMARY: [&str; 6] = ["Div", "[1]-shaped", "Cast to bool", "Where", "Equal", "Slice"];
        let primary: Vec<String> = ops.iter().filter(|o| PRIMARY.iter().any(|k| o.contains(k))).cloned().collect();
        if !primary.is_empty() {
            ops = primary;
        }
        let mut parts = Vec::new();
        if p[0] != 0 {
            parts.push(format!("start={}", tags[0]));
        }
        parts.push(format!("ops={{{}}}", ops.join(", ")));
        if p[n - 1] != 0 {
            parts.push(format!("terminal={}", tags[n - 1]));
        }
        return parts.join(", ");
    }
    let top = (0..p.len()).filter(|d| p[*d] != 0).map(|d| t.axes[d].in_sig).max().unwrap_or(0);
    let parts: Vec<String> =
        (0..p.len()).filter(|d| p[*d] != 0 && t.axes[*d].in_sig == top).map(|d| format!("{}={}", t.axes[d].name, tags[d])).collect();
    if parts.is_empty() { "canonical instance".to_string() } else { parts.join(", ") }
}

fn case_json(t: &Template, p: &[usize], b: &Built, hole: &str) -> Json {
    let axes: BTreeMap<String, String> = (0..p.len()).map(|d| (t.axes[d].name.to_string(), b.tags[d].clone())).collect();
    json!({
        "generator": t.generator,
        "template": t.name,
        "point": p,
        "axes": axes,
        "hole_class": hole,
        "prog": b.prog.to_json(),
    })
}

fn replay(ctx: Ctx) -> ! {
    let case = vp_core::read_replay_case(ctx.replay.as_ref().unwrap());
    let prog = Prog::from_json(&case["prog"]);
    let hole = case["hole_class"].as_str().unwrap_or("replayed case").to_string();
    let r = rten::thread_pool().run(|| exec::with_configs(|cfgs| exec::eval_case(cfgs, &prog)));
    for l in prog.listing() {
        println!("  {l}");
    }
    let bytes = prog.to_bytes();
    exec::with_configs(|cfgs| {
        for (i, o) in cfgs.opts.iter().enumerate() {
            let l = exec::load(o, &bytes);
            let ops: Vec<String> = l.ops.iter().map(|o| format!("{}{}", o.dbg, o.wiring)).collect();
            println!("  [{}] {}", exec::CFG_NAMES[i], if l.model.is_some() { ops.join(" ; ") } else { format!("load error: {:?}", l.err) });
            if let Some(m) = &l.model {
                for (ri, shapes) in prog.runs.iter().enumerate() {
                    for k in 0..exec::N_FILLS {
                        println!("      run {ri} fill {k}: {}", exec::show_outputs(&exec::run(m, &prog, shapes, k)));
                    }
                }
            }
        }
    });
    println!(
        "replay: reference loaded={} ok runs={} failed runs={} comparisons={}",
        r.ref_loaded, r.ref_ok_runs, r.ref_failed_runs, r.comparisons
    );
    if let Some(v) = &r.violation {
        ctx.violation(format!("{}: {} [{}]", v.site, v.what, hole), case.clone(), v.detail.clone());
    }
    let cov = json!({
        "evaluations": r.comparisons.max(1), "distinct_nontrivial": 2, "rule": "replay of one recorded program under all configurations",
        "samples": [prog.listing()], "exhaustive": false,
    });
    ctx.finish("exploration", cov, vec!["replay of a single case".into()]);
}

pub fn run(ctx: Ctx) -> ! {
    // Run every worker inside rten's own thread pool so that Model::run and the
    // optimizer's constant propagation execute inline on the worker thread.
    let nthreads = vp_core::par::threads();
    // SAFETY: no other thread exists yet.
    unsafe { std::env::set_var("RTEN_NUM_THREADS", nthreads.to_string()) };
    if ctx.replay.is_some() {
        replay(ctx);
    }

    let thorough = ctx.tier.is_thorough();
    let mut templates = crate::patterns::templates(thorough);
    templates.extend(crate::shapegram::templates(thorough));
    if let Some(only) = ctx.extra_args.iter().find_map(|a| a.strip_prefix("--only=")) {
        templates.retain(|t| t.name.contains(only));
    }
    let verbose = ctx.extra_args.iter().any(|a| a == "--verbose");

    // chunk the flat index space of every template
    const CHUNK: usize = 128;
    let mut chunks: Vec<(usize, usize, usize)> = Vec::new();
    for (ti, t) in templates.iter().enumerate() {
        let total = t.total();
        let mut s = 0;
        while s < total {
            let e = (s + CHUNK).min(total);
            chunks.push((ti, s, e));
            s = e;
        }
    }
    // development aid: `--chunks=lo:hi` (permille of the chunk list) restricts the run; never used by ./check
    let chunk_range = ctx.extra_args.iter().find_map(|a| a.strip_prefix("--chunks=")).map(|r| {
        let (a, b) = r.split_once(':').unwrap_or(("0", "1000"));
        (a.parse::<usize>().unwrap_or(0), b.parse::<usize>().unwrap_or(1000))
    });
    if let Some((lo, hi)) = chunk_range {
        let n = chunks.len();
        chunks = chunks[n * lo / 1000..n * hi / 1000].to_vec();
    }
    // VERIF_SEED only permutes shard order
    if ctx.seed != 0 && !chunks.is_empty() {
        let n = chunks.len();
        let rot = (ctx.seed as usize) % n;
        chunks.rotate_left(rot);
    }

    let err_samples: Mutex<BTreeMap<String, String>> = Mutex::new(BTreeMap::new());
    let cpu_budget_hit = AtomicBool::new(false);
    let done_points = AtomicU64::new(0);
    // explicit wall cap (never hit in the delivered configuration; if hit, exhaustive=false)
    let cap_s: f64 = std::env::var("VERIF_C01_CAP_S").ok().and_then(|s| s.parse().ok()).unwrap_or(if thorough { 3000.0 } else { 600.0 });

    let outs: Vec<Option<ChunkOut>> = vp_core::par::map(chunks.len(), |ci| {
        if ctx.elapsed_s() > cap_s {
            cpu_budget_hit.store(true, Ordering::Relaxed);
            return None;
        }
        let (ti, s, e) = chunks[ci];
        let t = &templates[ti];
        let out = rten::thread_pool().run(|| exec::with_configs(|cfgs| {
            let mut out = ChunkOut { t: ti, cells: Vec::new(), stats: TStats::default(), cores: Vec::new(), outcome_hashes: Vec::new() };
            for flat in s..e {
                out.stats.points += 1;
                let p = t.point(flat);
                let Some(b) = (t.build)(&p) else { continue };
                out.stats.programs += 1;
                let t0 = std::time::Instant::now();
                if std::env::var_os("VERIF_C01_TRACE").is_some() {
                    eprintln!("[trace] {:?} {:?}", p, b.prog.listing());
                }
                let r = exec::eval_case(cfgs, &b.prog);
                if verbose && t0.elapsed().as_secs_f64() > 2.0 {
                    eprintln!("[slow case {:.1}s] {} {:?} {:?}", t0.elapsed().as_secs_f64(), t.name, p, b.prog.listing());
                }
                let mut cell = Cell { evaluated: true, core: 0 };
                if r.ref_loaded {
                    out.stats.ref_loaded += 1;
                } else if verbose {
                    let bytes = b.prog.to_bytes();
                    let l = exec::load(&cfgs.opts[0], &bytes);
                    let mut g = err_samples.lock().unwrap();
                    g.entry(format!("{} ref-load", t.name)).or_insert_with(|| format!("{:?} :: {:?}", l.err, b.prog.listing()));
                }
                if r.ref_ok_runs > 0 {
                    out.stats.ref_ok += 1;
                    out.outcome_hashes.push(r.outcome_hash);
                } else if verbose && r.ref_loaded {
                    let bytes = b.prog.to_bytes();
                    let l = exec::load(&cfgs.opts[0], &bytes);
                    let ro = exec::run(l.model.as_ref().unwrap(), &b.prog, &b.prog.runs[0], 0);
                    let mut g = err_samples.lock().unwrap();
                    g.entry(format!("{} ref-run", t.name)).or_insert_with(|| format!("{} :: {:?}", exec::show_outputs(&ro), b.prog.listing()));
                }
                out.stats.ref_ok_runs += r.ref_ok_runs as u64;
                out.stats.ref_failed_runs += r.ref_failed_runs as u64;
                out.stats.comparisons += r.comparisons as u64;
                if r.graph_changed {
                    out.stats.graph_changed += 1;
                }
                let fired = (t.fired)(&p, &r.opt_ops);
                if fired {
                    out.stats.fired += 1;
                    if r.comparisons > 0 {
                        out.stats.fired_and_compared += 1;
                    }
                }
                if r.strict_refused {
                    out.stats.strict_refused += 1;
                }
                if r.structural_nondeterminism {
                    out.stats.structural_nondet += 1;
                }
                if let Some(v) = &r.violation {
                    out.stats.violations += 1;
                    let key = (site_for(t, v), v.what.clone());
                    let id = match out.cores.iter().position(|c| *c == key) {
                        Some(i) => i,
                        None => {
                            out.cores.push(key);
                            out.cores.len() - 1
                        }
                    };
                    cell.core = id as u32 + 1;
                }
                out.cells.push((flat, cell));
            }
            out
        }));
        done_points.fetch_add((e - s) as u64, Ordering::Relaxed);
        Some(out)
    });

    let exhaustive = !cpu_budget_hit.load(Ordering::Relaxed);

    // merge
    let mut tables: Vec<Vec<Cell>> = templates.iter().map(|t| vec![Cell::default(); t.total()]).collect();
    let mut stats: Vec<TStats> = vec![TStats::default(); templates.len()];
    let mut cores: Vec<(String, String)> = Vec::new();
    let mut hashes: Vec<u64> = Vec::new();
    for o in outs.into_iter().flatten() {
        let map: Vec<u32> = o
            .cores
            .iter()
            .map(|c| match cores.iter().position(|x| x == c) {
                Some(i) => i as u32 + 1,
                None => {
                    cores.push(c.clone());
                    cores.len() as u32
                }
            })
            .collect();
        for (flat, mut cell) in o.cells {
            if cell.core != 0 {
                cell.core = map[cell.core as usize - 1];
            }
            tables[o.t][flat] = cell;
        }
        let s = &mut stats[o.t];
        let a = &o.stats;
        s.points += a.points;
        s.programs += a.programs;
        s.ref_loaded += a.ref_loaded;
        s.ref_ok += a.ref_ok;
        s.ref_ok_runs += a.ref_ok_runs;
        s.ref_failed_runs += a.ref_failed_runs;
        s.comparisons += a.comparisons;
        s.graph_changed += a.graph_changed;
        s.fired += a.fired;
        s.fired_and_compared += a.fired_and_compared;
        s.strict_refused += a.strict_refused;
        s.structural_nondet += a.structural_nondet;
        s.violations += a.violations;
        hashes.extend(o.outcome_hashes);
    }
    hashes.sort();
    hashes.dedup();

    // minimise violating points by table lookup inside the complete box
    struct Rep {
        t: usize,
        p: Vec<usize>,
        deviations: usize,
        count: u64,
    }
    let mut sigs: BTreeMap<String, Rep> = BTreeMap::new();
    for (ti, t) in templates.iter().enumerate() {
        for flat in 0..t.total() {
            let cell = tables[ti][flat];
            if cell.core == 0 {
                continue;
            }
            let mut p = t.point(flat);
            loop {
                let mut moved = false;
                for d in 0..p.len() {
                    if p[d] == 0 {
                        continue;
                    }
                    // try the canonical value first, then every simpler value
                    for v in 0..p[d] {
                        let mut q = p.clone();
                        q[d] = v;
                        if let Some(n) = &t.normalize {
                            n(&mut q);
                        }
                        let c = tables[ti][t.flat(&q)];
                        if c.evaluated && c.core == cell.core && q != p {
                            p = q;
                            moved = true;
                            break;
                        }
                    }
                }
                if !moved {
                    break;
                }
            }
            let b = (t.build)(&p).expect("minimal point must be buildable");
            let hole = hole_class(t, &p, &b.tags);
            let (site, what) = &cores[cell.core as usize - 1];
            let sig = format!("{site}: {what} [{hole}]");
            let dev = p.iter().filter(|x| **x != 0).count();
            match sigs.get_mut(&sig) {
                Some(r) => {
                    r.count += 1;
                    if dev < r.deviations {
                        r.deviations = dev;
                        r.t = ti;
                        r.p = p;
                    }
                }
                None => {
                    sigs.insert(sig, Rep { t: ti, p, deviations: dev, count: 1 });
                }
            }
        }
    }

    // report: re-run the minimal representative (must reproduce), attach detail
    for (sig, rep) in &sigs {
        let t = &templates[rep.t];
        let b = (t.build)(&rep.p).unwrap();
        let r1 = rten::thread_pool().run(|| exec::with_configs(|cfgs| exec::eval_case(cfgs, &b.prog)));
        let r2 = rten::thread_pool().run(|| exec::with_configs(|cfgs| exec::eval_case(cfgs, &b.prog)));
        let (Some(v1), Some(v2)) = (&r1.violation, &r2.violation) else {
            ctx.machinery(&format!("violation did not reproduce on re-run (uncontrolled nondeterminism): {sig}"));
        };
        if v1.site != v2.site || v1.what != v2.what || !sig.starts_with(&format!("{}: {} [", site_for(t, v1), v1.what)) {
            ctx.machinery(&format!("violation changed on re-run (uncontrolled nondeterminism): {sig}"));
        }
        let hole = hole_class(t, &rep.p, &b.tags);
        let case = case_json(t, &rep.p, &b, &hole);
        let detail = format!("template {} | program: {} | {}", t.name, b.prog.listing().join(" ; "), v1.detail);
        for _ in 0..rep.count {
            ctx.violation(sig.clone(), case.clone(), detail.clone());
        }
    }

    // evidence
    let samples = Samples::new(12);
    for (ti, t) in templates.iter().enumerate() {
        // first evaluated point whose reference ran
        if let Some(flat) = (0..t.total()).find(|f| tables[ti][*f].evaluated) {
            let p = t.point(flat);
            if let Some(b) = (t.build)(&p) {
                samples.push(|| json!({"template": t.name, "point": p, "program": b.prog.listing()}));
            }
        }
    }
    let mut per_t = BTreeMap::new();
    let mut tot = TStats::default();
    let mut fired_counts = BTreeMap::new();
    for (ti, t) in templates.iter().enumerate() {
        let s = &stats[ti];
        let mut j = s.to_json();
        j["axes"] = json!(t.axes.iter().map(|a| json!({"name": a.name, "size": a.size})).collect::<Vec<_>>());
        j["generator"] = json!(t.generator);
        if let Some(f) = t.fusion {
            j["targets_fusion"] = json!(f);
            *fired_counts.entry(f.to_string()).or_insert(0u64) += s.fired_and_compared;
        }
        per_t.insert(t.name.clone(), j);
        tot.points += s.points;
        tot.programs += s.programs;
        tot.ref_loaded += s.ref_loaded;
        tot.ref_ok += s.ref_ok;
        tot.ref_ok_runs += s.ref_ok_runs;
        tot.ref_failed_runs += s.ref_failed_runs;
        tot.comparisons += s.comparisons;
        tot.graph_changed += s.graph_changed;
        tot.fired += s.fired;
        tot.fired_and_compared += s.fired_and_compared;
        tot.strict_refused += s.strict_refused;
        tot.structural_nondet += s.structural_nondet;
        tot.violations += s.violations;
    }
    if tot.structural_nondet > 0 {
        ctx.observe_n("two loads of one configuration produced structurally different graphs (results compared equal unless reported)", tot.structural_nondet);
    }

    if verbose {
        for (k, v) in err_samples.lock().unwrap().iter() {
            eprintln!("[sample failure] {k}: {v}");
        }
        for (ti, t) in templates.iter().enumerate() {
            let s = &stats[ti];
            eprintln!(
                "[template] {:<34} points={:<8} programs={:<8} ref_ok={:<8} changed={:<8} fired={:<8} strict_refused={:<7} viol={}",
                t.name, s.points, s.programs, s.ref_ok, s.graph_changed, s.fired_and_compared, s.strict_refused, s.violations
            );
        }
    }

    // vacuity guards (machinery failures, not verdicts)
    if exhaustive && ctx.extra_args.iter().all(|a| !a.starts_with("--only=") && !a.starts_with("--chunks=")) {
        for (f, n) in &fired_counts {
            if *n == 0 {
                ctx.machinery(&format!("vacuous: no program made fusion {f} fire with a successful reference run"));
            }
        }
        for (ti, t) in templates.iter().enumerate() {
            if stats[ti].ref_ok == 0 {
                ctx.machinery(&format!("vacuous: template {} never produced a successful reference run", t.name));
            }
        }
    }

    println!(
        "C01 summary: templates={} points={} programs={} reference-ok programs={} comparisons={} graph-changed={} fired={} distinct reference outcomes={} violating programs={} signatures={} exhaustive={}",
        templates.len(), tot.points, tot.programs, tot.ref_ok, tot.comparisons, tot.graph_changed, tot.fired_and_compared, hashes.len(), tot.violations, sigs.len(), exhaustive
    );

    let cov = json!({
        "evaluations": tot.comparisons,
        "distinct_nontrivial": hashes.len(),
        "rule": "complete product of every template's hole axes (pattern grammar) and every well-typed chain of the shape-arithmetic grammar; each program loaded twice under {optimize off} and {optimize on} x {infer off,on,strict}; each run on every listed input shape x 3 fills; reference = optimize off; oracle per DESIGN 2.3",
        "samples": samples.take(),
        "exhaustive": exhaustive,
        "cap_s": cap_s,
        "programs": tot.programs,
        "points_enumerated": tot.points,
        "reference_ok_programs": tot.ref_ok,
        "programs_whose_optimized_graph_differs": tot.graph_changed,
        "programs_where_targeted_rewrite_fired_and_was_compared": tot.fired_and_compared,
        "fired_per_fusion": fired_counts,
        "strict_refusals_not_counted_as_violations": tot.strict_refused,
        "configurations": exec::CFG_NAMES,
        "fills_per_run_shape": exec::N_FILLS,
        "loads_per_configuration": 2,
        "distinct_violation_cores": cores.len(),
        "per_template": per_t,
        "threads": nthreads,
    });
    let assumptions = vec![
        "HashMap iteration order inside rten (shape-inference result application, node name map) is covered only by two loads per configuration, not exhaustively".to_string(),
        "float comparison tolerance |a-b| <= 1e-4*max(1,|ref|), NaN positions must coincide; integers bit-exact".to_string(),
        "strict shape inference refusing to load is documented behaviour and not flagged".to_string(),
        "no value_info is emitted for intermediate values; outputs declare an element type but no shape".to_string(),
    ];
    ctx.finish("exploration", cov, assumptions);
}
