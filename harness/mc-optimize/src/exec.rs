//! Differential execution of one program under every load configuration of
//! the real rten code, and the C01 oracle (§2.3 of the design).

use rten::{LoadErrorKind, Model, ModelOptions, ShapeInferenceMode, Value};
use rten_tensor::Tensor;
use rten_tensor::prelude::*;

use crate::prog::{Dt, Prog, fmt_num};

pub const N_FILLS: usize = 3;
pub const CFG_NAMES: [&str; 4] = ["optimize=off", "optimize=on,infer=off", "optimize=on,infer=on", "optimize=on,infer=strict"];

pub struct Configs {
    pub opts: Vec<ModelOptions>,
}

thread_local! {
    static CFGS: Configs = Configs::new();
}

/// `ModelOptions` is not `Sync`; every worker thread owns one set.
pub fn with_configs<R>(f: impl FnOnce(&Configs) -> R) -> R {
    CFGS.with(|c| f(c))
}

impl Configs {
    pub fn new() -> Configs {
        let mut reference = ModelOptions::with_all_ops();
        reference.enable_optimization(false);
        let mut off = ModelOptions::with_all_ops();
        off.enable_optimization(true).shape_inference(ShapeInferenceMode::Off);
        let mut on = ModelOptions::with_all_ops();
        on.enable_optimization(true).shape_inference(ShapeInferenceMode::On);
        let mut strict = ModelOptions::with_all_ops();
        strict.enable_optimization(true).shape_inference(ShapeInferenceMode::Strict);
        Configs { opts: vec![reference, off, on, strict] }
    }
}

#[derive(Clone, Debug, PartialEq, Eq, PartialOrd, Ord)]
pub struct OpSummary {
    pub name: String,
    pub dbg: String,
    pub n_in: usize,
    pub wiring: String,
}

pub struct Loaded {
    pub model: Option<Model>,
    /// (is a shape-inference refusal, message)
    pub err: Option<(bool, String)>,
    pub ops: Vec<OpSummary>,
}

fn summarize(model: &Model) -> Vec<OpSummary> {
    use rten::verif::graph::Node;
    let g = model.verif_graph();
    let mut out = Vec::new();
    let describe = |id: rten::NodeId| -> String {
        match g.get_node(id) {
            Some(n @ Node::Value(_)) => format!("%{}", n.name().unwrap_or("?")),
            Some(Node::Constant(c)) => format!("const{:?}", c.shape()),
            Some(Node::Operator(_)) => "op?".into(),
            None => "missing".into(),
        }
    };
    for (_, node) in g.iter() {
        if let Node::Operator(op) = node {
            let ins: Vec<String> =
                op.input_ids().iter().map(|i| i.map(|i| describe(i)).unwrap_or_else(|| "-".into())).collect();
            let outs: Vec<String> =
                op.output_ids().iter().map(|i| i.map(|i| describe(i)).unwrap_or_else(|| "-".into())).collect();
            out.push(OpSummary {
                name: op.operator().name().to_string(),
                dbg: format!("{:?}", op.operator()),
                n_in: op.input_ids().len(),
                wiring: format!("({})->({})", ins.join(","), outs.join(",")),
            });
        }
    }
    out.sort();
    out
}

pub fn load(opts: &ModelOptions, bytes: &[u8]) -> Loaded {
    match vp_core::catch(|| opts.load(bytes.to_vec())) {
        Ok(Ok(model)) => {
            let ops = summarize(&model);
            Loaded { model: Some(model), err: None, ops }
        }
        Ok(Err(e)) => {
            let shape_inf = matches!(e.kind(), LoadErrorKind::ShapeInferenceFailed);
            Loaded { model: None, err: Some((shape_inf, e.to_string())), ops: vec![] }
        }
        Err(p) => Loaded { model: None, err: Some((false, format!("PANIC during load: {p}"))), ops: vec![] },
    }
}

/// Deterministic input fills. `k` = 0,1: small integers / dyadic rationals
/// including 0 and negatives; `k` = 2: lanes that make Softmax produce NaN
/// (an all -inf lane), a +inf, a NaN and a -inf in otherwise finite lanes.
pub fn fill(dt: Dt, shape: &[usize], k: usize) -> Value {
    let n: usize = shape.iter().product();
    let last = shape.last().copied().unwrap_or(1).max(1);
    match dt {
        Dt::F32 => {
            let pat0: [f32; 7] = [1.0, -2.0, 0.0, 3.0, -1.0, 2.0, 0.5];
            let pat1: [f32; 5] = [-0.5, 0.0, 2.0, -3.0, 1.5];
            let data: Vec<f32> = (0..n)
                .map(|i| match k {
                    0 => pat0[i % 7],
                    1 => pat1[i % 5] + (i / 5) as f32 * 0.25,
                    _ => {
                        let lane = i / last;
                        let pos = i % last;
                        if lane == 0 {
                            f32::NEG_INFINITY
                        } else if lane == 1 && pos == 0 {
                            f32::INFINITY
                        } else if lane == 2 && pos == last - 1 {
                            f32::NAN
                        } else if lane == 3 && pos == 0 {
                            f32::NEG_INFINITY
                        } else {
                            pat0[i % 7]
                        }
                    }
                })
                .collect();
            Value::FloatTensor(Tensor::from_data(shape, data))
        }
        Dt::I64 | Dt::I32 | Dt::Bool => {
            let pat0: [i32; 7] = [1, -2, 0, 3, -1, 2, 5];
            let pat1: [i32; 5] = [0, 4, -3, 1, 2];
            let pat2: [i32; 3] = [-1, 0, 7];
            let data: Vec<i32> = (0..n)
                .map(|i| {
                    let v = match k {
                        0 => pat0[i % 7],
                        1 => pat1[i % 5],
                        _ => pat2[i % 3],
                    };
                    if dt == Dt::Bool { (v > 0) as i32 } else { v }
                })
                .collect();
            Value::Int32Tensor(Tensor::from_data(shape, data))
        }
        Dt::U8 => {
            let pat: [[u8; 5]; 3] = [[1, 0, 3, 2, 7], [0, 5, 1, 255, 2], [128, 0, 1, 9, 4]];
            let data: Vec<u8> = (0..n).map(|i| pat[k % 3][i % 5]).collect();
            Value::UInt8Tensor(Tensor::from_data(shape, data))
        }
        Dt::I8 => {
            let pat: [[i8; 5]; 3] = [[1, -2, 0, 3, -1], [0, 5, -7, 127, 2], [-128, 0, 1, 9, -4]];
            let data: Vec<i8> = (0..n).map(|i| pat[k % 3][i % 5]).collect();
            Value::Int8Tensor(Tensor::from_data(shape, data))
        }
    }
}

pub type RunOut = Result<Vec<Value>, String>;

pub fn run(model: &Model, prog: &Prog, shapes: &[Vec<usize>], k: usize) -> RunOut {
    run_with(model, prog, shapes, k, false)
}

/// `by_name`: look the outputs up with `Model::find_node(name)` instead of `Model::output_ids()`.
pub fn run_with(model: &Model, prog: &Prog, shapes: &[Vec<usize>], k: usize, by_name: bool) -> RunOut {
    let r = vp_core::catch(|| -> Result<Vec<Value>, String> {
        let mut inputs = Vec::new();
        for (i, inp) in prog.inputs.iter().enumerate() {
            let id = model.find_node(&inp.name).ok_or_else(|| format!("input {} not found", inp.name))?;
            inputs.push((id, fill(inp.dt, &shapes[i], k).into()));
        }
        // Outputs are requested by position from the model's own output list
        // (what `Model::run_one` / `output_ids()` users do).
        if model.output_ids().len() != prog.outputs.len() {
            return Err("Model::output_ids has the wrong length".into());
        }
        let outs: Vec<rten::NodeId> = if by_name {
            let mut outs = Vec::new();
            for (o, _) in &prog.outputs {
                outs.push(model.find_node(o).ok_or_else(|| format!("output {} not found by name", o))?);
            }
            outs
        } else {
            model.output_ids().to_vec()
        };
        model.run(inputs, &outs, None).map_err(|e| e.to_string())
    });
    match r {
        Ok(r) => r,
        Err(p) => Err(format!("PANIC during run: {p}")),
    }
}

fn dtype_name(v: &Value) -> &'static str {
    match v {
        Value::FloatTensor(_) => "f32",
        Value::Int32Tensor(_) => "i32",
        Value::Int8Tensor(_) => "i8",
        Value::UInt8Tensor(_) => "u8",
        Value::Sequence(_) => "sequence",
        _ => "unknown",
    }
}

fn shape_of(v: &Value) -> Vec<usize> {
    match v {
        Value::FloatTensor(t) => t.shape().to_vec(),
        Value::Int32Tensor(t) => t.shape().to_vec(),
        Value::Int8Tensor(t) => t.shape().to_vec(),
        Value::UInt8Tensor(t) => t.shape().to_vec(),
        _ => vec![],
    }
}

pub fn show_value(v: &Value) -> String {
    let body = match v {
        Value::FloatTensor(t) => {
            let d: Vec<String> = t.iter().take(12).map(|x| fmt_num(*x as f64)).collect();
            d.join(",")
        }
        Value::Int32Tensor(t) => t.iter().take(12).map(|x| x.to_string()).collect::<Vec<_>>().join(","),
        Value::Int8Tensor(t) => t.iter().take(12).map(|x| x.to_string()).collect::<Vec<_>>().join(","),
        Value::UInt8Tensor(t) => t.iter().take(12).map(|x| x.to_string()).collect::<Vec<_>>().join(","),
        other => format!("{other:?}"),
    };
    let n: usize = shape_of(v).iter().product();
    format!("{}{:?}{{{}{}}}", dtype_name(v), shape_of(v), body, if n > 12 { ",…" } else { "" })
}

pub fn show_outputs(o: &RunOut) -> String {
    match o {
        Ok(vs) => vs.iter().map(show_value).collect::<Vec<_>>().join(" ; "),
        Err(e) => format!("ERROR({})", vp_core::truncate(e, 160)),
    }
}

/// The oracle for one (reference, subject) pair where the reference succeeded.
/// Returns the kind of disagreement.
pub fn compare(reference: &[Value], got: &RunOut) -> Option<&'static str> {
    let got = match got {
        Ok(g) => g,
        Err(e) => {
            return Some(if e.starts_with("PANIC") { "optimized run panics, unoptimized run succeeds" } else { "optimized run fails, unoptimized run succeeds" });
        }
    };
    if got.len() != reference.len() {
        return Some("output count differs");
    }
    for (r, g) in reference.iter().zip(got) {
        if dtype_name(r) != dtype_name(g) {
            return Some("output dtype differs");
        }
        if shape_of(r) != shape_of(g) {
            return Some("output shape differs");
        }
        match (r, g) {
            (Value::FloatTensor(a), Value::FloatTensor(b)) => {
                let mut nan_mismatch = false;
                let mut val_mismatch = false;
                for (x, y) in a.iter().zip(b.iter()) {
                    // x: reference, y: subject
                    if x.is_nan() || y.is_nan() {
                        if x.is_nan() != y.is_nan() {
                            nan_mismatch = true;
                        }
                        continue;
                    }
                    if x == y {
                        continue;
                    }
                    let tol = 1e-4f64 * (1.0f64).max((*x as f64).abs());
                    if !(((*x as f64) - (*y as f64)).abs() <= tol) {
                        val_mismatch = true;
                    }
                }
                if nan_mismatch {
                    return Some("NaN positions differ");
                }
                if val_mismatch {
                    return Some("output values differ");
                }
            }
            (Value::Int32Tensor(a), Value::Int32Tensor(b)) => {
                if a.iter().zip(b.iter()).any(|(x, y)| x != y) {
                    return Some("output values differ");
                }
            }
            (Value::Int8Tensor(a), Value::Int8Tensor(b)) => {
                if a.iter().zip(b.iter()).any(|(x, y)| x != y) {
                    return Some("output values differ");
                }
            }
            (Value::UInt8Tensor(a), Value::UInt8Tensor(b)) => {
                if a.iter().zip(b.iter()).any(|(x, y)| x != y) {
                    return Some("output values differ");
                }
            }
            _ => {
                if format!("{r:?}") != format!("{g:?}") {
                    return Some("output values differ");
                }
            }
        }
    }
    None
}

fn hash_outputs(h: &mut u64, o: &RunOut) {
    let mut feed = |bytes: &[u8]| {
        for b in bytes {
            *h ^= *b as u64;
            *h = h.wrapping_mul(0x100000001b3);
        }
    };
    match o {
        Err(_) => feed(b"E"),
        Ok(vs) => {
            for v in vs {
                feed(dtype_name(v).as_bytes());
                for d in shape_of(v) {
                    feed(&(d as u32).to_le_bytes());
                }
                match v {
                    Value::FloatTensor(t) => t.iter().for_each(|x| feed(&x.to_bits().to_le_bytes())),
                    Value::Int32Tensor(t) => t.iter().for_each(|x| feed(&x.to_le_bytes())),
                    Value::Int8Tensor(t) => t.iter().for_each(|x| feed(&x.to_le_bytes())),
                    Value::UInt8Tensor(t) => t.iter().for_each(|x| feed(&x.to_le_bytes())),
                    _ => {}
                }
            }
        }
    }
}

#[derive(Clone, Debug, Default)]
pub struct Violation {
    /// fused op(s) or folding site
    pub site: String,
    /// what differs
    pub what: String,
    pub detail: String,
    /// the optimize=on,infer=off configuration agrees with the reference
    pub only_with_inference: bool,
}

#[derive(Clone, Debug, Default)]
pub struct CaseResult {
    pub ref_loaded: bool,
    pub ref_ok_runs: u32,
    pub ref_failed_runs: u32,
    /// comparisons (reference ok, optimised config loaded) actually made
    pub comparisons: u32,
    pub strict_refused: bool,
    /// optimised graph (infer=on, else infer=off) differs from the reference graph
    pub graph_changed: bool,
    /// names / debug strings of the operators in the optimised graphs (all configs)
    pub opt_ops: Vec<(String, String, usize)>,
    pub structural_nondeterminism: bool,
    pub violation: Option<Violation>,
    pub outcome_hash: u64,
}

fn diff_ops(reference: &[OpSummary], opt: &[OpSummary]) -> (Vec<String>, Vec<String>) {
    // multiset difference on (name, dbg, n_in)
    let key = |o: &OpSummary| (o.name.clone(), o.dbg.clone(), o.n_in);
    let mut r: Vec<_> = reference.iter().map(key).collect();
    let mut new_ops = Vec::new();
    for o in opt {
        let k = key(o);
        if let Some(p) = r.iter().position(|x| *x == k) {
            r.remove(p);
        } else {
            new_ops.push(o.name.clone());
        }
    }
    let mut removed: Vec<String> = r.into_iter().map(|k| k.0).collect();
    new_ops.sort();
    new_ops.dedup();
    removed.sort();
    removed.dedup();
    (new_ops, removed)
}

fn site_of(reference: &[OpSummary], opt: &[OpSummary], only_with_inference: bool) -> String {
    let (new_ops, removed) = diff_ops(reference, opt);
    let fused: Vec<String> = new_ops.iter().filter(|n| *n != "Identity").cloned().collect();
    if !fused.is_empty() {
        fused.join("+")
    } else {
        // an op removed by a fusion keeps its name if the fused op has the same
        // one (ReduceMean, Softmax, Conv): handled above through the debug string.
        let pre = if only_with_inference { "shape-inference fold" } else { "optimizer" };
        if removed.is_empty() { format!("{pre} (same operators)") } else { format!("{pre} (elided {})", removed.join(",")) }
    }
}

/// Evaluate one program under all configurations; each configuration is loaded twice.
pub fn eval_case(cfgs: &Configs, prog: &Prog) -> CaseResult {
    let mut res = CaseResult { outcome_hash: 0xcbf29ce484222325, ..Default::default() };
    let bytes = prog.to_bytes();
    let a: Vec<Loaded> = cfgs.opts.iter().map(|o| load(o, &bytes)).collect();
    let b: Vec<Loaded> = cfgs.opts.iter().map(|o| load(o, &bytes)).collect();
    let Some(ref_model) = a[0].model.as_ref() else {
        return res;
    };
    res.ref_loaded = true;

    // Two loads of the same configuration must agree.
    let mut nondet: Option<Violation> = None;
    for c in 0..4 {
        if a[c].model.is_some() != b[c].model.is_some() {
            nondet = Some(Violation {
                site: "load".into(),
                what: "two loads of the same configuration disagree (one fails)".into(),
                detail: format!("{}: first load {:?}, second load {:?}", CFG_NAMES[c], a[c].err, b[c].err),
                only_with_inference: false,
            });
        } else if a[c].ops != b[c].ops {
            res.structural_nondeterminism = true;
        }
    }

    for c in 1..4 {
        if a[c].model.is_some() {
            for o in &a[c].ops {
                let k = (o.name.clone(), o.dbg.clone(), o.n_in);
                if !res.opt_ops.contains(&k) {
                    res.opt_ops.push(k);
                }
            }
            let (n, r) = diff_ops(&a[0].ops, &a[c].ops);
            if !n.is_empty() || !r.is_empty() {
                res.graph_changed = true;
            }
        }
    }
    if let Some((true, _)) = a[3].err {
        res.strict_refused = true;
    }

    // (config, what, detail) of the first disagreement per config
    let mut viol: [Option<(String, String)>; 4] = [None, None, None, None];

    for shapes in &prog.runs {
        for k in 0..N_FILLS {
            let r0 = run(ref_model, prog, shapes, k);
            hash_outputs(&mut res.outcome_hash, &r0);
            // the reference itself must be deterministic, else the oracle is meaningless
            let Ok(ref_vals) = &r0 else {
                res.ref_failed_runs += 1;
                continue;
            };
            res.ref_ok_runs += 1;
            for c in 1..4 {
                if viol[c].is_some() {
                    continue;
                }
                match (&a[c].model, &a[c].err) {
                    (Some(m), _) => {
                        res.comparisons += 1;
                        let got = run(m, prog, shapes, k);
                        if let Some(what) = compare(ref_vals, &got) {
                            viol[c] = Some((
                                what.to_string(),
                                format!(
                                    "input shapes {:?} fill {}: {} gives {} ; {} gives {}",
                                    shapes,
                                    k,
                                    CFG_NAMES[0],
                                    show_outputs(&r0),
                                    CFG_NAMES[c],
                                    show_outputs(&got)
                                ),
                            ));
                            continue;
                        }
                        // the same outputs requested by name (Model::node_id users)
                        let got_n = run_with(m, prog, shapes, k, true);
                        if let Some(what) = compare(ref_vals, &got_n) {
                            viol[c] = Some((
                                format!("{what} when outputs are looked up by name"),
                                format!(
                                    "input shapes {:?} fill {}: {} gives {} ; {} gives {} by position but {} by name",
                                    shapes, k, CFG_NAMES[0], show_outputs(&r0), CFG_NAMES[c], show_outputs(&got), show_outputs(&got_n)
                                ),
                            ));
                            continue;
                        }
                        // second load of the same configuration
                        if let Some(m2) = &b[c].model {
                            let got2 = run(m2, prog, shapes, k);
                            let same = match (&got, &got2) {
                                (Ok(x), _) => compare(x, &got2).is_none(),
                                (Err(_), Err(_)) => true,
                                _ => false,
                            };
                            if !same && nondet.is_none() {
                                nondet = Some(Violation {
                                    site: "load".into(),
                                    what: "two loads of the same configuration give different results".into(),
                                    detail: format!(
                                        "{} input shapes {:?} fill {}: first load {} ; second load {}",
                                        CFG_NAMES[c],
                                        shapes,
                                        k,
                                        show_outputs(&got),
                                        show_outputs(&got2)
                                    ),
                                    only_with_inference: false,
                                });
                            }
                        }
                    }
                    (None, Some((shape_inf, msg))) => {
                        if c == 3 && *shape_inf {
                            // documented: strict mode may refuse to load
                            continue;
                        }
                        viol[c] = Some((
                            if msg.starts_with("PANIC") { "optimized load panics, unoptimized run succeeds" } else { "optimized load fails, unoptimized run succeeds" }.to_string(),
                            format!(
                                "input shapes {:?} fill {}: {} gives {} ; {} fails to load: {}",
                                shapes,
                                k,
                                CFG_NAMES[0],
                                show_outputs(&r0),
                                CFG_NAMES[c],
                                vp_core::truncate(msg, 200)
                            ),
                        ));
                    }
                    (None, None) => unreachable!(),
                }
            }
        }
    }

    if let Some(c) = (1..4).find(|c| viol[*c].is_some()) {
        let (what, detail) = viol[c].clone().unwrap();
        let failing: Vec<&str> = (1..4).filter(|c| viol[*c].is_some()).map(|c| CFG_NAMES[c]).collect();
        let only_inf = viol[1].is_none();
        let site = if a[c].model.is_some() { site_of(&a[0].ops, &a[c].ops, only_inf) } else { "load".to_string() };
        let opt_listing: Vec<String> = a[c].ops.iter().map(|o| format!("{}{}", o.dbg, o.wiring)).collect();
        res.violation = Some(Violation {
            site,
            what,
            detail: format!("{detail} | failing configurations: {failing:?} | optimized graph: {}", opt_listing.join(" ; ")),
            only_with_inference: only_inf,
        });
    } else if let Some(n) = nondet {
        res.violation = Some(n);
    }
    res
}
