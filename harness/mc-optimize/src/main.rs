//! Engine for C01 "Graph optimization preserves model semantics".
//!
//! Exhaustive program enumeration (pattern grammar with holes + shape
//! arithmetic grammar) with a differential oracle between load configurations
//! of the same real code: {optimize off} is the reference for
//! {optimize on} x {shape inference off, on, strict}.

mod c01;
mod exec;
mod pat_act;
mod pat_attn;
mod pat_basic;
mod pat_layout;
mod pat_matmul;
mod pat_norm;
mod patterns;
mod prog;
mod shapegram;

fn main() {
    let prop = std::env::args().nth(1).unwrap_or_default();
    match prop.as_str() {
        "C01" => c01::run(vp_core::Ctx::from_env("C01")),
        _ => vp_core::machinery_error("mc-optimize: unknown property (expected C01)"),
    }
}
