//! Templates: GeluFusion, ApproxGeluFusion, SiluFusion, SwishFusion.

use crate::c01::{Built, Template, ax, ax2};
use crate::patterns::*;
use crate::prog::Dt;

pub fn templates(thorough: bool) -> Vec<Template> {
    vec![gelu(thorough), approx_gelu(thorough), silu(thorough), swish(thorough)]
}

/// Which constants deviate from the canonical scalar shape: 0 = all, i = only the i-th.
fn cs_for(which: usize, idx: usize, cs: usize) -> usize {
    if which == 0 || which == idx { cs } else { 0 }
}

fn which_tag(which: usize, names: &[&str]) -> String {
    if which == 0 { "all constants".into() } else { format!("only {}", names[which - 1]) }
}

fn value_tag(v: usize, names: &[&str]) -> String {
    if v == 0 { "canonical".into() } else { format!("near-miss value for {}", names[v - 1]) }
}

/// `x * (Erf(x / sqrt2) + 1) * 0.5`
fn gelu(thorough: bool) -> Template {
    let data = data_shapes(thorough);
    let nd = data.len();
    let masks = order_masks(3, thorough);
    let nm = masks.len();
    let names = ["sqrt2", "one", "half"];
    let axes = vec![
        ax("scaling form", 2, true),
        ax2("const shape", CS_N),
        ax("which const", 4, false),
        ax("const value", 4, true),
        ax("operand order", nm, true),
        ax("bracketing", 3, true),
        ax("data shape", nd, false),
        ax("input metadata", 3, false),
        ax("extra consumer", 5, true),
    ];
    let build = move |p: &[usize]| -> Option<Built> {
        let (form, cs, which, val, mask, br, di, mi, ex) = (p[0], p[1], p[2], p[3], masks[p[4]], p[5], p[6], p[7], p[8]);
        if cs == 0 && which != 0 {
            return None;
        }
        let shape = &data[di];
        let n = *shape.last().unwrap();
        let mut b = B::new();
        let x = b.input("x", Dt::F32, shape, METAS[mi], alt_of(shape));
        let s2 = 2.0f32.sqrt();
        let c_s = b.sc(cs_for(which, 1, cs), n, if val == 1 { 1.5 } else if form == 0 { s2 } else { 1.0 / s2 });
        let c_one = b.sc(cs_for(which, 2, cs), n, if val == 2 { 2.0 } else { 1.0 });
        let c_half = b.sc(cs_for(which, 3, cs), n, if val == 3 { 0.4 } else { 0.5 });
        let xs = if form == 0 { b.op("Div", &[&x, &c_s]) } else { b.op("Mul", &[&x, &c_s]) };
        let erf = b.op("Erf", &[&xs]);
        let e1 = b.bin("Add", &erf, &c_one, mask & 1 != 0);
        let y = match br {
            0 => {
                let t = b.bin("Mul", &x, &e1, mask & 2 != 0);
                b.bin("Mul", &t, &c_half, mask & 4 != 0)
            }
            1 => {
                let t = b.bin("Mul", &e1, &c_half, mask & 2 != 0);
                b.bin("Mul", &x, &t, mask & 4 != 0)
            }
            _ => {
                let t = b.bin("Mul", &x, &c_half, mask & 2 != 0);
                b.bin("Mul", &t, &e1, mask & 4 != 0)
            }
        };
        b.out(&y, Dt::F32);
        let extag = b.extra(ex, &[(erf.clone(), Dt::F32), (e1.clone(), Dt::F32)]);
        let tags = vec![
            if form == 0 { "x / sqrt2".into() } else { "x * (1/sqrt2)".into() },
            cshape_tag(cs, shape.len()),
            which_tag(which, &names),
            value_tag(val, &names),
            order_tag(mask),
            ["(x*(erf+1))*0.5", "x*((erf+1)*0.5)", "(x*0.5)*(erf+1)"][br].to_string(),
            format!("{shape:?}"),
            METAS[mi].name().into(),
            extag,
        ];
        Some(Built { prog: b.finish(), tags })
    };
    tmpl("Gelu", Some("GeluFusion"), axes, build, |_, ops| has(ops, "Gelu"))
}

/// `x * 0.5 * (1 + Tanh(sqrt(2/pi) * (x + Pow(x, 3) * 0.044715)))`
fn approx_gelu(thorough: bool) -> Template {
    let data: Vec<Vec<usize>> = if thorough { vec![vec![2, 3], vec![3], vec![2, 2, 3]] } else { vec![vec![2, 3], vec![3]] };
    let nd = data.len();
    let masks = order_masks(6, thorough);
    let nm = masks.len();
    let names = ["half", "one", "sqrt(2/pi)", "three", "0.044715"];
    let axes = vec![
        ax2("const shape", CS_N),
        ax("which const", 6, false),
        ax("const value", 6, true),
        ax("operand order", nm, true),
        ax("bracketing", 3, true),
        ax("data shape", nd, false),
        ax("input metadata", 3, false),
        ax("extra consumer", 3, true),
    ];
    let build = move |p: &[usize]| -> Option<Built> {
        let (cs, which, val, mask, br, di, mi, ex) = (p[0], p[1], p[2], masks[p[3]], p[4], p[5], p[6], p[7]);
        if cs == 0 && which != 0 {
            return None;
        }
        let shape = &data[di];
        let n = *shape.last().unwrap();
        let mut b = B::new();
        let x = b.input("x", Dt::F32, shape, METAS[mi], alt_of(shape));
        let s2pi = (2.0f32 / std::f32::consts::PI).sqrt();
        let c_half = b.sc(cs_for(which, 1, cs), n, if val == 1 { 0.4 } else { 0.5 });
        let c_one = b.sc(cs_for(which, 2, cs), n, if val == 2 { 2.0 } else { 1.0 });
        let c_s = b.sc(cs_for(which, 3, cs), n, if val == 3 { 0.5 } else { s2pi });
        let c_3 = b.sc(cs_for(which, 4, cs), n, if val == 4 { 2.0 } else { 3.0 });
        let c_k = b.sc(cs_for(which, 5, cs), n, if val == 5 { 0.05 } else { 0.044715 });
        let pw = b.op("Pow", &[&x, &c_3]);
        let m = b.bin("Mul", &pw, &c_k, mask & 1 != 0);
        let a = b.bin("Add", &x, &m, mask & 2 != 0);
        let s = b.bin("Mul", &c_s, &a, mask & 4 != 0);
        let t = b.op("Tanh", &[&s]);
        let o = b.bin("Add", &c_one, &t, mask & 8 != 0);
        let y = match br {
            0 => {
                let h = b.bin("Mul", &x, &c_half, mask & 16 != 0);
                b.bin("Mul", &h, &o, mask & 32 != 0)
            }
            1 => {
                let h = b.bin("Mul", &c_half, &o, mask & 16 != 0);
                b.bin("Mul", &x, &h, mask & 32 != 0)
            }
            _ => {
                let h = b.bin("Mul", &x, &o, mask & 16 != 0);
                b.bin("Mul", &h, &c_half, mask & 32 != 0)
            }
        };
        b.out(&y, Dt::F32);
        let extag = b.extra(ex, &[(t.clone(), Dt::F32)]);
        let tags = vec![
            cshape_tag(cs, shape.len()),
            which_tag(which, &names),
            value_tag(val, &names),
            order_tag(mask),
            ["(x*0.5)*(1+tanh)", "x*(0.5*(1+tanh))", "(x*(1+tanh))*0.5"][br].to_string(),
            format!("{shape:?}"),
            METAS[mi].name().into(),
            extag,
        ];
        Some(Built { prog: b.finish(), tags })
    };
    tmpl("ApproxGelu", Some("ApproxGeluFusion"), axes, build, |_, ops| has(ops, "Gelu"))
}

/// `x * Sigmoid(x)`
fn silu(thorough: bool) -> Template {
    let data = data_shapes(thorough);
    let nd = data.len();
    let axes = vec![
        ax("operand order", 2, true),
        ax("sigmoid operand", 2, true),
        ax("data shape", nd, false),
        ax("input metadata", 3, false),
        ax("extra consumer", 3, true),
    ];
    let build = move |p: &[usize]| -> Option<Built> {
        let shape = &data[p[2]];
        let mut b = B::new();
        let x = b.input("x", Dt::F32, shape, METAS[p[3]], alt_of(shape));
        let sarg = if p[1] == 0 { x.clone() } else { b.input("y", Dt::F32, shape, METAS[p[3]], alt_of(shape)) };
        let s = b.op("Sigmoid", &[&sarg]);
        let y = b.bin("Mul", &x, &s, p[0] == 1);
        b.out(&y, Dt::F32);
        let extag = b.extra(p[4], &[(s.clone(), Dt::F32)]);
        let tags = vec![
            order_tag(p[0] as u32),
            if p[1] == 0 { "same value x".into() } else { "a different value y (near-miss)".into() },
            format!("{shape:?}"),
            METAS[p[3]].name().into(),
            extag,
        ];
        Some(Built { prog: b.finish(), tags })
    };
    tmpl("Silu", Some("SiluFusion"), axes, build, |_, ops| has(ops, "Silu"))
}

/// `x * Sigmoid(alpha * x)`
fn swish(thorough: bool) -> Template {
    let data = data_shapes(thorough);
    let nd = data.len();
    let axes = vec![
        ax2("const shape", CS_N),
        ax("alpha", 3, true),
        ax("operand order", 4, true),
        ax("sigmoid operand", 2, true),
        ax("data shape", nd, false),
        ax("input metadata", 3, false),
        ax("extra consumer", 5, true),
    ];
    let build = move |p: &[usize]| -> Option<Built> {
        let shape = &data[p[4]];
        let n = *shape.last().unwrap();
        let mut b = B::new();
        let x = b.input("x", Dt::F32, shape, METAS[p[5]], alt_of(shape));
        let other = if p[3] == 0 { x.clone() } else { b.input("y", Dt::F32, shape, METAS[p[5]], alt_of(shape)) };
        let (av, at) = [(1.5f32, "1.5"), (1.0, "1.0"), (-2.0, "-2")][p[1]];
        let alpha = b.sc(p[0], n, av);
        let ax_ = b.bin("Mul", &alpha, &other, p[2] & 1 != 0);
        let s = b.op("Sigmoid", &[&ax_]);
        let y = b.bin("Mul", &x, &s, p[2] & 2 != 0);
        b.out(&y, Dt::F32);
        let extag = b.extra(p[6], &[(s.clone(), Dt::F32), (ax_.clone(), Dt::F32)]);
        let tags = vec![
            cshape_tag(p[0], shape.len()),
            at.to_string(),
            order_tag(p[2] as u32),
            if p[3] == 0 { "same value x".into() } else { "a different value y (near-miss)".into() },
            format!("{shape:?}"),
            METAS[p[5]].name().into(),
            extag,
        ];
        Some(Built { prog: b.finish(), tags })
    };
    tmpl("Swish", Some("SwishFusion"), axes, build, |_, ops| has(ops, "Swish"))
}
