//! Templates: SafeSoftmaxFusion, AddSoftmaxFusion, RepeatInterleaveFusion,
//! GroupedQueryAttentionMatMulFusion.

use crate::c01::{Built, Template, ax, ax2};
use crate::patterns::*;
use crate::prog::{AttrV, Dt, Meta};

pub fn templates(thorough: bool) -> Vec<Template> {
    vec![safe_softmax(thorough), add_softmax(thorough), repeat_interleave(thorough), gqa(thorough)]
}

fn axis_val(a: usize, rank: usize) -> (i64, &'static str) {
    match a {
        0 => (-1, "-1"),
        1 => (rank as i64 - 1, "last (positive)"),
        _ => (0, "0"),
    }
}

/// `Where(IsNaN(Softmax(x)), 0, Softmax(x))`
fn safe_softmax(thorough: bool) -> Template {
    let data = data_shapes(thorough);
    let nd = data.len();
    let axes = vec![
        ax2("const shape", CS_N),
        ax("const value", 3, true),
        ax("softmax axis", 3, false),
        ax("where form", 3, true),
        ax("data shape", nd, false),
        ax("input metadata", 3, false),
        ax("extra consumer", 3, true),
    ];
    let build = move |p: &[usize]| -> Option<Built> {
        let shape = &data[p[4]];
        let n = *shape.last().unwrap();
        let mut b = B::new();
        let x = b.input("x", Dt::F32, shape, METAS[p[5]], alt_of(shape));
        let (axv, axt) = axis_val(p[2], shape.len());
        let sm = b.opa("Softmax", &[&x], vec![("axis", AttrV::I(axv))]);
        let nan = b.op("IsNaN", &[&sm]);
        let (v, vt) = [(0.0f32, "0"), (-0.0, "-0.0"), (0.5, "near-miss 0.5")][p[1]];
        let zero = b.sc(p[0], n, v);
        let (y, wt) = match p[3] {
            0 => (b.op("Where", &[&nan, &zero, &sm]), "Where(isnan, 0, y)"),
            1 => (b.op("Where", &[&nan, &sm, &zero]), "Where(isnan, y, 0) (near-miss)"),
            _ => (b.op("Where", &[&nan, &zero, &x]), "Where(isnan, 0, x) (near-miss: other value)"),
        };
        b.out(&y, Dt::F32);
        let extag = b.extra(p[6], &[(sm.clone(), Dt::F32)]);
        let tags = vec![
            cshape_tag(p[0], shape.len()),
            vt.to_string(),
            axt.to_string(),
            wt.to_string(),
            format!("{shape:?}"),
            METAS[p[5]].name().into(),
            extag,
        ];
        Some(Built { prog: b.finish(), tags })
    };
    tmpl("SafeSoftmax", Some("SafeSoftmaxFusion"), axes, build, |_, ops| ops.iter().any(|o| o.0 == "Softmax" && o.1.contains("flush_nans_to_zero: true")))
}

/// `Softmax(Add(qk, mask))`
fn add_softmax(thorough: bool) -> Template {
    let data = data_shapes(thorough);
    let nd = data.len();
    // mask: input of qk's shape, input [n], const [n], input of rank+1 ([1, ...shape]), const scalar, input [.., 1] (column)
    let axes = vec![
        ax("mask", 6, true),
        ax("softmax axis", 3, true),
        ax("operand order", 2, true),
        ax("data shape", nd, false),
        ax("input metadata", 3, false),
        ax("extra consumer", 3, true),
    ];
    let build = move |p: &[usize]| -> Option<Built> {
        let shape = &data[p[3]];
        let n = *shape.last().unwrap();
        let meta = METAS[p[4]];
        let mut b = B::new();
        let qk = b.input("qk", Dt::F32, shape, meta, None);
        let (mask, mtag, out_rank) = match p[0] {
            0 => (b.input("mask", Dt::F32, shape, meta, None), "graph input, same shape", shape.len()),
            1 => (b.input("mask", Dt::F32, &[n], meta, None), "graph input [n]", shape.len()),
            2 => (b.cf(&[n as i64], &(0..n).map(|i| i as f32 - 1.0).collect::<Vec<_>>()), "const [n]", shape.len()),
            3 => {
                let mut s = vec![2usize];
                s.extend(shape.iter());
                (b.input("mask", Dt::F32, &s, meta, None), "graph input of rank + 1", shape.len() + 1)
            }
            4 => (b.cf(&[], &[-1.0]), "const scalar", shape.len()),
            _ => {
                let mut s = shape.clone();
                *s.last_mut().unwrap() = 1;
                (b.input("mask", Dt::F32, &s, meta, None), "graph input [..,1]", shape.len())
            }
        };
        let (axv, axt) = axis_val(p[1], out_rank);
        let add = b.bin("Add", &qk, &mask, p[2] == 1);
        let y = b.opa("Softmax", &[&add], vec![("axis", AttrV::I(axv))]);
        b.out(&y, Dt::F32);
        let extag = b.extra(p[5], &[(add.clone(), Dt::F32)]);
        let tags = vec![mtag.to_string(), axt.to_string(), order_tag(p[2] as u32), format!("{shape:?}"), meta.name().into(), extag];
        Some(Built { prog: b.finish(), tags })
    };
    tmpl("AddSoftmax", Some("AddSoftmaxFusion"), axes, build, |_, ops| has(ops, "AddSoftmax"))
}

/// Shapes used by the RepeatInterleave template.
fn ri_shapes(thorough: bool) -> Vec<Vec<usize>> {
    let mut v = vec![vec![2, 3], vec![2], vec![2, 3, 2], vec![1, 2]];
    if thorough {
        v.push(vec![1, 2, 3, 2]);
    }
    v
}

/// Build `Reshape(Expand(Unsqueeze(x, u), ..), ..)` whose result has x's shape with axis `k`
/// scaled by `r` (the family of subgraphs RepeatInterleaveFusion accepts by looking at shapes).
/// `grow_other`: Expand enlarges the first size-1 axis of x instead of the new axis.
/// Returns the output name and a structural description.
fn ri_chain(b: &mut B, x: &str, shape: &[usize], u: usize, r: usize, k: usize, grow_other: bool, expand_form: usize, reshape_form: usize, neg_axis: bool) -> Option<(String, String)> {
    let rank = shape.len();
    let mut unsq: Vec<usize> = shape.to_vec();
    unsq.insert(u, 1);
    let grow = if grow_other {
        let g = shape.iter().position(|d| *d == 1)?;
        if g >= u { g + 1 } else { g }
    } else {
        u
    };
    let axis_val = if neg_axis { u as i64 - (rank as i64 + 1) } else { u as i64 };
    let axes = b.ci(&[1], &[axis_val]);
    let t1 = b.op("Unsqueeze", &[x, &axes]);
    let mut exp = unsq.clone();
    exp[grow] = r;
    let exp_spec: Vec<i64> = if expand_form == 0 { exp.iter().map(|d| *d as i64).collect() } else { (0..exp.len()).map(|i| if i == grow { r as i64 } else { 1 }).collect() };
    let es = b.ci(&[exp_spec.len() as i64], &exp_spec);
    let t2 = b.op("Expand", &[&t1, &es]);
    let mut target: Vec<usize> = shape.to_vec();
    target[k] *= r;
    let spec: Vec<i64> = match reshape_form {
        0 => target.iter().map(|d| *d as i64).collect(),
        1 => (0..rank).map(|i| if i == k { -1 } else { target[i] as i64 }).collect(),
        _ => (0..rank).map(|i| if i < k.min(u).min(grow) { 0 } else { target[i] as i64 }).collect(),
    };
    let rs = b.ci(&[spec.len() as i64], &spec);
    let y = b.op("Reshape", &[&t2, &rs]);
    let kind = if r == 1 {
        "repeat count 1"
    } else if grow_other {
        "Expand enlarges another size-1 axis, not the new one"
    } else if u == k + 1 {
        "interleave (new axis directly follows the scaled axis)"
    } else if u == k {
        if shape[k] == 1 { "tile of a size-1 axis" } else { "tile (new axis directly precedes the scaled axis)" }
    } else {
        "new axis not adjacent to the scaled axis"
    };
    Some((y, kind.to_string()))
}

/// `Reshape(Expand(Unsqueeze(x, axes), s1), s2)`
fn repeat_interleave(thorough: bool) -> Template {
    let shapes = ri_shapes(thorough);
    let ns = shapes.len();
    let max_rank = shapes.iter().map(|s| s.len()).max().unwrap();
    const RMETA: [Meta; 4] = [Meta::Fixed, Meta::Sym0, Meta::Sym, Meta::Absent];
    let axes = vec![
        ax("input shape", ns, false),
        ax("unsqueeze axis", max_rank + 1, true),
        ax("scaled axis", max_rank, true),
        ax("expanded axis", 2, true),
        ax("repeats", 3, true),
        ax("expand shape form", 2, true),
        ax("reshape shape form", 3, true),
        ax("axis sign", 2, true),
        ax("input metadata", 4, false),
        ax("extra consumer", 5, true),
    ];
    let build = move |p: &[usize]| -> Option<Built> {
        let shape = shapes[p[0]].clone();
        let rank = shape.len();
        // canonical instance: unsqueeze axis 1, scaled axis 0 = interleave of axis 0
        let u = [1usize, 0, 2, 3, 4][p[1]];
        let k = p[2];
        if u > rank || k >= rank {
            return None;
        }
        let r = [2usize, 3, 1][p[4]];
        let mut b = B::new();
        let meta = RMETA[p[8]];
        let x = b.input("x", Dt::F32, &shape, meta, if meta == Meta::Fixed { None } else { alt_of(&shape) });
        // with symbolic metadata and explicit target shapes the alternative run shape makes
        // Expand/Reshape fail in the reference: harmless (reference fails => anything goes)
        let (y, kind) = ri_chain(&mut b, &x, &shape, u, r, k, p[3] == 1, p[5], p[6], p[7] == 1)?;
        b.out(&y, Dt::F32);
        let i0 = b.p.nodes[0].outs[0].clone();
        let i1 = b.p.nodes[1].outs[0].clone();
        let extag = b.extra(p[9], &[(i0, Dt::F32), (i1, Dt::F32)]);
        let tags = vec![
            format!("{shape:?}"),
            format!("{u}: {kind}"),
            format!("{k}: {kind}"),
            if p[3] == 0 { "the new axis".into() } else { "another size-1 axis".to_string() },
            format!("{r}"),
            if p[5] == 0 { "full shape".into() } else { "ones except the repeat count".into() },
            ["explicit", "-1 at the scaled axis", "0 (copy) for leading axes"][p[6]].to_string(),
            if p[7] == 0 { "non-negative".into() } else { "negative".into() },
            meta.name().into(),
            extag,
        ];
        Some(Built { prog: b.finish(), tags })
    };
    tmpl("RepeatInterleave", Some("RepeatInterleaveFusion"), axes, build, |_, ops| has(ops, "RepeatInterleave"))
}

fn perms4() -> Vec<Vec<i64>> {
    vp_core::odometer::permutations(4).into_iter().map(|p| p.into_iter().map(|x| x as i64).collect()).collect()
}

/// `MatMul(A, RepeatInterleave(V))` and `MatMul(Mul(Q, c), Transpose(RepeatInterleave(K)))`
fn gqa(thorough: bool) -> Template {
    // all dims 2 after the repeat so that every permutation is shape-valid
    let mut perms = perms4();
    // canonical first
    let canon: Vec<i64> = vec![0, 1, 3, 2];
    perms.retain(|p| *p != canon);
    perms.insert(0, canon);
    if !thorough {
        perms.truncate(7);
    }
    let np = perms.len();
    let axes = vec![
        ax("matmul form", 4, true),
        ax("transpose perm", np, true),
        ax("repeat form", 4, true),
        ax2("scale const shape", 3),
        ax("input metadata", 3, false),
        ax("extra consumer", 3, true),
    ];
    let build = move |p: &[usize]| -> Option<Built> {
        let form = p[0];
        // forms: 0 = A @ rep(V); 1 = (Q*c) @ T(rep(K)); 2 = Q @ T(rep(K)) (no scale); 3 = (Q @ T(rep(K))) * c
        if form == 0 && (p[1] != 0 || p[3] != 0) {
            return None;
        }
        if form == 2 && p[3] != 0 {
            return None;
        }
        let meta = METAS[p[4]];
        let mut b = B::new();
        let kv_shape = [2usize, 1, 2, 2];
        let q = b.input("q", Dt::F32, &[2, 2, 2, 2], meta, None);
        let kv = b.input("kv", Dt::F32, &kv_shape, meta, None);
        // repeat form: 0 interleave on axis 1 (unsqueeze 2), 1 tile on axis 1 (unsqueeze 1), 2 interleave with repeats 1 -> n/a, 3 repeat on axis 2
        let (u, k, r, rtag) = match p[2] {
            0 => (2usize, 1usize, 2usize, "interleave heads (axis 1)"),
            1 => (1, 1, 2, "tile heads (axis 1)"),
            2 => (2, 1, 1, "repeat count 1"),
            _ => (3, 2, 2, "interleave axis 2"),
        };
        let kv_in: Vec<usize> = if p[2] == 2 { vec![2, 2, 2, 2] } else if p[2] == 3 { vec![2, 2, 1, 2] } else { kv_shape.to_vec() };
        b.p.inputs[1].shape = kv_in.clone();
        let (rep, _) = ri_chain(&mut b, &kv, &kv_in, u, r, k, false, 0, 0, false)?;
        let cs = [0usize, 2, 3][p[3]];
        let y = match form {
            0 => b.op("MatMul", &[&q, &rep]),
            _ => {
                let t = b.opa("Transpose", &[&rep], vec![("perm", AttrV::Is(perms[p[1]].clone()))]);
                match form {
                    1 => {
                        let c = b.sc(cs, 2, 0.5);
                        let qs = b.op("Mul", &[&q, &c]);
                        b.op("MatMul", &[&qs, &t])
                    }
                    2 => b.op("MatMul", &[&q, &t]),
                    _ => {
                        let c = b.sc(cs, 2, 0.5);
                        let mm = b.op("MatMul", &[&q, &t]);
                        b.op("Mul", &[&mm, &c])
                    }
                }
            }
        };
        b.out(&y, Dt::F32);
        let extag = b.extra(p[5], &[(rep.clone(), Dt::F32)]);
        let tags = vec![
            ["A @ repeat(V)", "(Q*c) @ transpose(repeat(K))", "Q @ transpose(repeat(K))", "(Q @ transpose(repeat(K))) * c"][form].to_string(),
            format!("{:?}", perms[p[1]]),
            rtag.to_string(),
            cshape_tag(cs, 4),
            meta.name().into(),
            extag,
        ];
        Some(Built { prog: b.finish(), tags })
    };
    tmpl("GQAMatMul", Some("GroupedQueryAttentionMatMulFusion"), axes, build, |_, ops| has(ops, "GroupedQueryAttentionMatMul"))
}
