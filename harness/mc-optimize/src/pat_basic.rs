//! Templates: IdentityFusion, ReciprocalFusion, ReduceMeanAxesFusion, CastElimination.

use crate::c01::{Built, Template, ax, ax2};
use crate::patterns::*;
use crate::prog::{AttrV, Dt, Meta};

pub fn templates(thorough: bool) -> Vec<Template> {
    vec![identity(thorough), reciprocal(thorough), reduce_mean_axes(thorough), cast_elim(thorough)]
}

/// `x + 0`, `x - 0`, `x * 1`, `x / 1`, `Identity(x)`.
fn identity(thorough: bool) -> Template {
    let data = data_shapes(thorough);
    let nd = data.len();
    const OPS: [(&str, f32); 5] = [("Add", 0.0), ("Sub", 0.0), ("Mul", 1.0), ("Div", 1.0), ("Identity", 0.0)];
    let axes = vec![
        ax("op", 5, false),
        ax2("const shape", CS_N),
        ax("operand order", 2, true),
        ax("const value", 4, true),
        ax("dtype", 2, true),
        ax("data shape", nd, false),
        ax("input metadata", 3, false),
        ax("result use", 2, false),
    ];
    let build = move |p: &[usize]| -> Option<Built> {
        let (op, neutral) = OPS[p[0]];
        let (cs, swap, val, dti, di, mi, use_) = (p[1], p[2] == 1, p[3], p[4], p[5], p[6], p[7]);
        if op == "Identity" && (cs != 0 || swap || val != 0) {
            return None;
        }
        let int = dti == 1;
        if int && (val == 1 || val == 3) {
            return None;
        }
        let shape = &data[di];
        let n = *shape.last().unwrap();
        let mut b = B::new();
        let dt = if int { Dt::I64 } else { Dt::F32 };
        let x = b.input("x", dt, shape, METAS[mi], alt_of(shape));
        let (v, vtag): (f64, String) = match val {
            0 => (neutral as f64, "neutral element".into()),
            1 => {
                if neutral == 0.0 {
                    (-0.0, "-0.0".into())
                } else {
                    (1.0 + 1e-5, "1.00001 (not exactly neutral)".into())
                }
            }
            2 => (if int { 2.0 } else { 0.5 }, "near-miss (clearly not neutral)".into()),
            _ => (neutral as f64 + 1e-7, "neutral + 1e-7".into()),
        };
        let y = if op == "Identity" {
            b.op("Identity", &[&x])
        } else {
            let dims = cshape(cs, n);
            let cnt: usize = dims.iter().map(|d| *d as usize).product();
            let c = if int { b.ci(&dims, &vec![v as i64; cnt]) } else { b.cf(&dims, &vec![v as f32; cnt]) };
            b.bin(op, &x, &c, swap)
        };
        if use_ == 0 {
            b.out(&y, dt);
        } else {
            let z = b.op("Neg", &[&y]);
            b.out(&z, dt);
        }
        let tags = vec![
            op.to_string(),
            cshape_tag(cs, shape.len()),
            if swap { "const is the left operand".into() } else { "const is the right operand".into() },
            vtag,
            dt.name().to_string(),
            format!("{shape:?}"),
            METAS[mi].name().to_string(),
            if use_ == 0 { "graph output".into() } else { "feeds Neg".to_string() },
        ];
        Some(Built { prog: b.finish(), tags })
    };
    tmpl("Identity", Some("IdentityFusion"), axes, build, |p, ops| !has(ops, OPS[p[0]].0) || (p[0] != 4 && has(ops, "Identity")))
}

/// `1 / x`
fn reciprocal(thorough: bool) -> Template {
    let data = data_shapes(thorough);
    let nd = data.len();
    let axes = vec![
        ax2("const shape", CS_N),
        ax("const value", 3, true),
        ax("data shape", nd, false),
        ax("input metadata", 3, false),
        ax("result use", 2, false),
    ];
    let build = move |p: &[usize]| -> Option<Built> {
        let shape = &data[p[2]];
        let n = *shape.last().unwrap();
        let mut b = B::new();
        let x = b.input("x", Dt::F32, shape, METAS[p[3]], alt_of(shape));
        let (v, vt) = [(1.0f32, "1"), (1.00005, "1.00005 (inside matcher tolerance)"), (2.0, "near-miss 2")][p[1]];
        let c = b.sc(p[0], n, v);
        let y = b.op("Div", &[&c, &x]);
        if p[4] == 0 {
            b.out(&y, Dt::F32);
        } else {
            let z = b.op("Neg", &[&y]);
            b.out(&z, Dt::F32);
        }
        let tags = vec![
            cshape_tag(p[0], shape.len()),
            vt.to_string(),
            format!("{shape:?}"),
            METAS[p[3]].name().into(),
            if p[4] == 0 { "graph output".into() } else { "feeds Neg".into() },
        ];
        Some(Built { prog: b.finish(), tags })
    };
    tmpl("Reciprocal", Some("ReciprocalFusion"), axes, build, |_, ops| has(ops, "Reciprocal"))
}

/// `ReduceMean(x, axes)` with constant axes input.
fn reduce_mean_axes(thorough: bool) -> Template {
    let data = data_shapes(thorough);
    let nd = data.len();
    // axes: [-1], [last], [0], [] (empty), [0,-1], scalar (rank 0) -1
    let axes = vec![
        ax("axes", 6, true),
        ax("keepdims", 2, true),
        ax("noop_with_empty_axes", 2, true),
        ax("data shape", nd, false),
        ax("input metadata", 3, false),
        ax("result use", 2, false),
    ];
    let build = move |p: &[usize]| -> Option<Built> {
        let shape = &data[p[3]];
        let r = shape.len() as i64;
        let mut b = B::new();
        let x = b.input("x", Dt::F32, shape, METAS[p[4]], alt_of(shape));
        let (adims, avals, atag): (Vec<i64>, Vec<i64>, &str) = match p[0] {
            0 => (vec![1], vec![-1], "[-1]"),
            1 => (vec![1], vec![r - 1], "[last]"),
            2 => (vec![1], vec![0], "[0]"),
            3 => (vec![0], vec![], "[] (empty)"),
            4 => {
                if r < 2 {
                    return None;
                }
                (vec![2], vec![0, -1], "[0,-1]")
            }
            _ => (vec![], vec![-1], "rank-0 constant -1"),
        };
        let a = b.ci(&adims, &avals);
        let keep = if p[1] == 0 { 1 } else { 0 };
        let mut attrs = vec![("keepdims", AttrV::I(keep))];
        if p[2] == 1 {
            attrs.push(("noop_with_empty_axes", AttrV::I(1)));
        }
        let y = b.opa("ReduceMean", &[&x, &a], attrs);
        if p[5] == 0 {
            b.out(&y, Dt::F32);
        } else {
            let z = b.op("Neg", &[&y]);
            b.out(&z, Dt::F32);
        }
        let tags = vec![
            atag.to_string(),
            format!("{keep}"),
            format!("{}", p[2]),
            format!("{shape:?}"),
            METAS[p[4]].name().into(),
            if p[5] == 0 { "graph output".into() } else { "feeds Neg".into() },
        ];
        Some(Built { prog: b.finish(), tags })
    };
    tmpl("ReduceMeanAxes", Some("ReduceMeanAxesFusion"), axes, build, |_, ops| ops.iter().any(|o| o.0 == "ReduceMean" && o.2 == 1))
}

/// `Cast(x, to)` for every (from, to) pair; eliminated when dtypes agree.
fn cast_elim(_thorough: bool) -> Template {
    const DTS: [Dt; 6] = [Dt::F32, Dt::I64, Dt::I32, Dt::Bool, Dt::U8, Dt::I8];
    const IMETA: [Meta; 4] = [Meta::Fixed, Meta::Sym, Meta::Absent, Meta::Untyped];
    let axes = vec![
        ax("from", 6, true),
        ax("to", 6, true),
        ax("input metadata", 4, true),
        ax("data shape", 2, false),
        ax("result use", 3, false),
    ];
    let build = move |p: &[usize]| -> Option<Built> {
        let shape: Vec<usize> = if p[3] == 0 { vec![2, 3] } else { vec![3] };
        let (from, to) = (DTS[p[0]], DTS[p[1]]);
        let mut b = B::new();
        let x = b.input("x", from, &shape, IMETA[p[2]], alt_of(&shape));
        let y = b.opa("Cast", &[&x], vec![("to", AttrV::I(to.onnx() as i64))]);
        let use_tag = match p[4] {
            0 => {
                b.out(&y, to);
                "graph output"
            }
            1 => {
                let m1 = b.ci(&[1], &[-1]);
                let z = b.op("Reshape", &[&y, &m1]);
                b.out(&z, to);
                "feeds Reshape"
            }
            _ => {
                // a second cast back: Cast(Cast(x, to), from)
                let z = b.opa("Cast", &[&y], vec![("to", AttrV::I(from.onnx() as i64))]);
                b.out(&z, from);
                "feeds Cast back to the source type"
            }
        };
        let tags = vec![from.name().into(), to.name().into(), IMETA[p[2]].name().into(), format!("{shape:?}"), use_tag.into()];
        Some(Built { prog: b.finish(), tags })
    };
    tmpl("CastElimination", Some("CastElimination"), axes, build, |p, ops| {
        let n = ops.iter().filter(|o| o.0 == "Cast").count();
        // fewer Cast operators than written
        n < if p[4] == 2 { 2 } else { 1 }
    })
}
