//! Templates: ShapeSliceToConstant, ComputeShapeFusion, TransposeFusion.

use crate::c01::{Built, Template, ax};
use crate::patterns::*;
use crate::prog::{AttrV, Dt, Meta};

pub fn templates(thorough: bool) -> Vec<Template> {
    vec![shape_slice(thorough), compute_shape(thorough), transpose(thorough)]
}

const SMETA: [Meta; 4] = [Meta::Fixed, Meta::Sym0, Meta::Sym, Meta::Absent];

/// `Slice(Shape(x), starts, ends)`
fn shape_slice(_thorough: bool) -> Template {
    const STARTS: [i64; 6] = [0, 1, -1, -2, 2, 5];
    const ENDS: [i64; 6] = [i64::MAX, 1, 2, -1, 0, 3];
    let axes = vec![
        ax("start", 6, true),
        ax("end", 6, true),
        ax("extra Slice inputs", 4, true),
        ax("data shape", 2, false),
        ax("input metadata", 4, true),
        ax("result use", 3, false),
    ];
    let build = move |p: &[usize]| -> Option<Built> {
        let shape: Vec<usize> = if p[3] == 0 { vec![2, 3] } else { vec![2, 1, 3] };
        let meta = SMETA[p[4]];
        let mut b = B::new();
        let x = b.input("x", Dt::F32, &shape, meta, alt_of(&shape));
        let sh = b.op("Shape", &[&x]);
        let st = b.ci(&[1], &[STARTS[p[0]]]);
        let en = b.ci(&[1], &[ENDS[p[1]]]);
        let (sl, etag) = match p[2] {
            0 => (b.op("Slice", &[&sh, &st, &en]), "none"),
            1 => {
                let a = b.ci(&[1], &[0]);
                (b.op("Slice", &[&sh, &st, &en, &a]), "axes=[0]")
            }
            2 => {
                let a = b.ci(&[1], &[0]);
                let s = b.ci(&[1], &[2]);
                (b.op("Slice", &[&sh, &st, &en, &a, &s]), "axes=[0], steps=[2]")
            }
            _ => {
                let a = b.ci(&[1], &[0]);
                let s = b.ci(&[1], &[-1]);
                (b.op("Slice", &[&sh, &st, &en, &a, &s]), "axes=[0], steps=[-1]")
            }
        };
        let utag = match p[5] {
            0 => {
                b.out(&sl, Dt::I64);
                "graph output"
            }
            1 => {
                let y = b.op("ConstantOfShape", &[&sl]);
                b.out(&y, Dt::F32);
                "ConstantOfShape"
            }
            _ => {
                // Reshape(x, Concat(slice, [-1]))
                let m1 = b.ci(&[1], &[-1]);
                let tgt = b.opa("Concat", &[&sl, &m1], vec![("axis", AttrV::I(0))]);
                let y = b.op("Reshape", &[&x, &tgt]);
                b.out(&y, Dt::F32);
                "Reshape(x, Concat(slice, [-1]))"
            }
        };
        let tags = vec![
            format!("{}", STARTS[p[0]]),
            if ENDS[p[1]] == i64::MAX { "INT64_MAX".into() } else { format!("{}", ENDS[p[1]]) },
            etag.to_string(),
            format!("{shape:?}"),
            meta.name().into(),
            utag.to_string(),
        ];
        Some(Built { prog: b.finish(), tags })
    };
    tmpl("ShapeSliceToConstant", Some("ShapeSliceToConstant"), axes, build, |_, ops| !has(ops, "Slice") && !has(ops, "Shape"))
}

/// `Shape(f(x))` where the shape can be computed from the graph inputs.
fn compute_shape(_thorough: bool) -> Template {
    // source: Shape(x); Shape(Sigmoid(x)) in the Silu pattern; Shape(Add(x, y)); Shape(MatMul(x, w));
    //         Shape(Transpose(x)); Shape(Concat(x, x)); Shape(x) with start=1; Shape(Unsqueeze(x))
    let axes = vec![
        ax("shape source", 8, true),
        ax("result use", 3, true),
        ax("data shape", 2, false),
        ax("input metadata", 4, true),
    ];
    let build = move |p: &[usize]| -> Option<Built> {
        let shape: Vec<usize> = if p[2] == 0 { vec![2, 3] } else { vec![2, 1, 3] };
        let meta = SMETA[p[3]];
        let mut b = B::new();
        let x = b.input("x", Dt::F32, &shape, meta, alt_of(&shape));
        let mut extra_out: Option<String> = None;
        let (src, stag): (String, &str) = match p[0] {
            0 => (b.op("Shape", &[&x]), "Shape(x)"),
            1 => {
                let s = b.op("Sigmoid", &[&x]);
                let y = b.op("Mul", &[&x, &s]);
                extra_out = Some(y);
                (b.op("Shape", &[&s]), "Shape(Sigmoid(x)), with Mul(x, Sigmoid(x)) as second output")
            }
            2 => {
                // y has a leading dim 1 so that x + y broadcasts for every instantiation
                let mut ys = shape.clone();
                ys[0] = 1;
                let y = b.input("y", Dt::F32, &ys, meta, None);
                let a = b.op("Add", &[&x, &y]);
                (b.op("Shape", &[&a]), "Shape(Add(x, y)) with y broadcast along dim 0")
            }
            3 => {
                let k = *shape.last().unwrap();
                let w = b.cf(&[k as i64, 2], &vec![0.5; k * 2]);
                let m = b.op("MatMul", &[&x, &w]);
                (b.op("Shape", &[&m]), "Shape(MatMul(x, w))")
            }
            4 => {
                let t = b.op("Transpose", &[&x]);
                (b.op("Shape", &[&t]), "Shape(Transpose(x))")
            }
            5 => {
                let c = b.opa("Concat", &[&x, &x], vec![("axis", AttrV::I(0))]);
                (b.op("Shape", &[&c]), "Shape(Concat(x, x, axis 0))")
            }
            6 => (b.opa("Shape", &[&x], vec![("start", AttrV::I(1))]), "Shape(x) with start=1"),
            _ => {
                let a = b.ci(&[1], &[0]);
                let u = b.op("Unsqueeze", &[&x, &a]);
                (b.op("Shape", &[&u]), "Shape(Unsqueeze(x, 0))")
            }
        };
        let utag = match p[1] {
            0 => {
                b.out(&src, Dt::I64);
                "graph output"
            }
            1 => {
                let one = b.cf(&[1], &[1.5]);
                let y = b.op("Expand", &[&one, &src]);
                b.out(&y, Dt::F32);
                "Expand(const, shape)"
            }
            _ => {
                let y = b.op("ConstantOfShape", &[&src]);
                b.out(&y, Dt::F32);
                "ConstantOfShape(shape)"
            }
        };
        if let Some(e) = extra_out {
            b.out(&e, Dt::F32);
        }
        let tags = vec![stag.to_string(), utag.to_string(), format!("{shape:?}"), meta.name().into()];
        Some(Built { prog: b.finish(), tags })
    };
    tmpl("ComputeShape", Some("ComputeShapeFusion"), axes, build, |_, ops| has(ops, "ComputeShape"))
}

/// `Transpose` feeding MatMul / Concat / Expand / Slice / Split.
fn transpose(thorough: bool) -> Template {
    // perms: rank 2: [1,0], default (reverse), [0,1]; rank 3: all six + default
    let mut perms: Vec<(usize, Option<Vec<i64>>)> = vec![(2, Some(vec![1, 0])), (2, None), (2, Some(vec![0, 1]))];
    for p in vp_core::odometer::permutations(3) {
        perms.push((3, Some(p.into_iter().map(|x| x as i64).collect())));
    }
    perms.push((3, None));
    if !thorough {
        perms.truncate(6);
    }
    let np = perms.len();
    // consumer: MatMul lhs, MatMul rhs, MatMul both, scaled MatMul (FusedMatMul) rhs, Concat first, Concat second,
    //           Concat both, Expand, Slice (3 parameter sets), Split
    let axes = vec![
        ax("consumer", 12, true),
        ax("perm", np, true),
        ax("consumer axis", 2, true),
        ax("input metadata", 3, false),
        ax("extra consumer", 3, true),
    ];
    let build = move |p: &[usize]| -> Option<Built> {
        let (rank, perm) = perms[p[1]].clone();
        // all dims equal to 2 so that every permutation is shape-valid for every consumer
        let shape: Vec<usize> = vec![2; rank];
        let meta = METAS[p[3]];
        let mut b = B::new();
        let x = b.input("x", Dt::F32, &shape, meta, None);
        let tr = |b: &mut B, v: &str| -> String {
            match &perm {
                Some(pm) => b.opa("Transpose", &[v], vec![("perm", AttrV::Is(pm.clone()))]),
                None => b.op("Transpose", &[v]),
            }
        };
        let t = tr(&mut b, &x);
        let caxis = if p[2] == 0 { 0i64 } else { rank as i64 - 1 };
        let mut second_out: Option<String> = None;
        let (y, ctag): (String, &str) = match p[0] {
            0 => {
                let w = b.input("w", Dt::F32, &shape, meta, None);
                (b.op("MatMul", &[&t, &w]), "MatMul lhs")
            }
            1 => {
                let w = b.input("w", Dt::F32, &shape, meta, None);
                (b.op("MatMul", &[&w, &t]), "MatMul rhs")
            }
            2 => {
                let w = b.input("w", Dt::F32, &shape, meta, None);
                let t2 = tr(&mut b, &w);
                (b.op("MatMul", &[&t, &t2]), "MatMul both")
            }
            3 => {
                let w = b.input("w", Dt::F32, &shape, meta, None);
                let c = b.cf(&[], &[0.5]);
                let mm = b.op("MatMul", &[&w, &t]);
                (b.op("Mul", &[&mm, &c]), "scaled MatMul rhs")
            }
            4 => {
                let w = b.input("w", Dt::F32, &shape, meta, None);
                (b.opa("Concat", &[&t, &w], vec![("axis", AttrV::I(caxis))]), "Concat first input")
            }
            5 => {
                let w = b.input("w", Dt::F32, &shape, meta, None);
                (b.opa("Concat", &[&w, &t], vec![("axis", AttrV::I(caxis))]), "Concat second input")
            }
            6 => (b.opa("Concat", &[&t, &t], vec![("axis", AttrV::I(caxis))]), "Concat both inputs (same value)"),
            7 => {
                let mut tgt: Vec<i64> = vec![3];
                tgt.extend(shape.iter().map(|d| *d as i64));
                let s = b.ci(&[tgt.len() as i64], &tgt);
                (b.op("Expand", &[&t, &s]), "Expand")
            }
            8 | 9 | 10 => {
                let (st, en, step) = [(0i64, 1i64, 1i64), (1, 2, 1), (-1, i64::MIN, -1)][p[0] - 8];
                let s = b.ci(&[1], &[st]);
                let e = b.ci(&[1], &[en]);
                let a = b.ci(&[1], &[caxis]);
                let sp = b.ci(&[1], &[step]);
                (b.op("Slice", &[&t, &s, &e, &a, &sp]), ["Slice [0:1]", "Slice [1:2]", "Slice reversed"][p[0] - 8])
            }
            _ => {
                let o1 = b.fresh("v");
                let o2 = b.fresh("v");
                b.p.node_multi("Split", &[&t], &[&o1, &o2], vec![("axis", AttrV::I(caxis)), ("num_outputs", AttrV::I(2))]);
                second_out = Some(o2);
                (o1, "Split")
            }
        };
        b.out(&y, Dt::F32);
        if let Some(o) = second_out {
            b.out(&o, Dt::F32);
        }
        let extag = b.extra(p[4], &[(t.clone(), Dt::F32)]);
        let tags = vec![
            ctag.to_string(),
            format!("rank {rank} perm {}", perm.as_ref().map(|p| format!("{p:?}")).unwrap_or("default (reverse)".into())),
            if p[2] == 0 { "0".into() } else { "last".into() },
            meta.name().into(),
            extag,
        ];
        Some(Built { prog: b.finish(), tags })
    };
    tmpl("Transpose", Some("TransposeFusion"), axes, build, |_, ops| ops.iter().any(|o| o.0.starts_with("TransformInputs")))
}
