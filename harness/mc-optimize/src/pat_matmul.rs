//! Templates: MatMulAddFusion, MatMulScaleFusion, MatMulIntegerToFloatFusion,
//! ConvIntegerToFloatFusion, ConvAddFusion.

use crate::c01::{Built, Template, ax, ax2};
use crate::patterns::*;
use crate::prog::{AttrV, Dt};

pub fn templates(thorough: bool) -> Vec<Template> {
    vec![matmul_add(thorough), matmul_scale(thorough), matmul_integer(thorough), conv_integer(thorough), conv_add(thorough)]
}

fn seq(n: usize, base: f32, step: f32) -> Vec<f32> {
    (0..n).map(|i| base + step * (i % 5) as f32).collect()
}

const M: usize = 2;
const K: usize = 3;
const N: usize = 2;

/// lhs shapes: [m,k], [k], [b,m,k]
fn lhs_shape(i: usize) -> Vec<usize> {
    match i {
        0 => vec![M, K],
        1 => vec![K],
        _ => vec![2, M, K],
    }
}

/// `Add(MatMul(a, b), bias)`
fn matmul_add(_thorough: bool) -> Template {
    // bias: [n] const, [1,n] const, [1] const, [] const, [m,n] const, [n] graph input
    let axes = vec![
        ax("bias", 6, true),
        ax("operand order", 2, true),
        ax("lhs shape", 3, true),
        ax("rhs kind", 2, true),
        ax("input metadata", 3, false),
        ax("extra consumer", 3, true),
    ];
    let build = move |p: &[usize]| -> Option<Built> {
        let ls = lhs_shape(p[2]);
        let mut b = B::new();
        let a = b.input("a", Dt::F32, &ls, METAS[p[4]], if ls.len() > 1 { alt_of(&ls) } else { None });
        let w = if p[3] == 0 { b.cf(&[K as i64, N as i64], &seq(K * N, -1.0, 0.5)) } else { b.input("w", Dt::F32, &[K, N], METAS[p[4]], None) };
        let (bias, btag) = match p[0] {
            0 => (b.cf(&[N as i64], &seq(N, 1.0, 2.0)), "const [n]"),
            1 => (b.cf(&[1, N as i64], &seq(N, 1.0, 2.0)), "const [1,n]"),
            2 => (b.cf(&[1], &[1.5]), "const [1] (a vector of one element)"),
            3 => (b.cf(&[], &[1.5]), "const scalar []"),
            4 => {
                if ls.len() != 2 {
                    return None;
                }
                (b.cf(&[M as i64, N as i64], &seq(M * N, 1.0, 2.0)), "const [m,n]")
            }
            _ => (b.input("bias", Dt::F32, &[N], METAS[p[4]], None), "graph input [n] (not constant)"),
        };
        let mm = b.op("MatMul", &[&a, &w]);
        let y = b.bin("Add", &mm, &bias, p[1] == 1);
        b.out(&y, Dt::F32);
        let extag = b.extra(p[5], &[(mm.clone(), Dt::F32)]);
        let tags = vec![
            btag.to_string(),
            order_tag(p[1] as u32),
            format!("{ls:?}"),
            if p[3] == 0 { "constant".into() } else { "graph input".into() },
            METAS[p[4]].name().into(),
            extag,
        ];
        Some(Built { prog: b.finish(), tags })
    };
    tmpl("MatMulAdd", Some("MatMulAddFusion"), axes, build, |_, ops| ops.iter().any(|o| o.0 == "FusedMatMul" && o.2 == 3))
}

/// `Mul/Div` by a scalar constant before and/or after `MatMul`.
fn matmul_scale(_thorough: bool) -> Template {
    // position: post, pre-lhs, pre-rhs, pre-lhs + pre-rhs, pre-lhs + post
    let axes = vec![
        ax("scale position", 5, false),
        ax("scale op", 2, false),
        ax2("const shape", CS_N),
        ax("operand order", 2, true),
        ax("const value", 3, true),
        ax("lhs shape", 2, false),
        ax("input metadata", 3, false),
        ax("extra consumer", 5, true),
    ];
    let build = move |p: &[usize]| -> Option<Built> {
        let (pos, opi, cs, swap, val, li, mi, ex) = (p[0], p[1], p[2], p[3] == 1, p[4], p[5], p[6], p[7]);
        let ls = lhs_shape(if li == 0 { 0 } else { 2 });
        let op = if opi == 0 { "Mul" } else { "Div" };
        let (v, vtag) = [(2.0f32, "2"), (0.5, "0.5"), (1.0, "1 (no effect)")][val];
        let mut b = B::new();
        let a = b.input("a", Dt::F32, &ls, METAS[mi], alt_of(&ls));
        let w = b.input("w", Dt::F32, &[K, N], METAS[mi], None);
        let scale = |b: &mut B, x: &str| -> String {
            let c = b.sc(cs, N, v);
            b.bin(op, x, &c, swap)
        };
        let pre_l = matches!(pos, 1 | 3 | 4);
        let pre_r = matches!(pos, 2 | 3);
        let post = matches!(pos, 0 | 4);
        let la = if pre_l { scale(&mut b, &a) } else { a.clone() };
        let ra = if pre_r {
            // [n]-shaped constants must broadcast against [k,n]
            scale(&mut b, &w)
        } else {
            w.clone()
        };
        let mm = b.op("MatMul", &[&la, &ra]);
        let y = if post { scale(&mut b, &mm) } else { mm.clone() };
        b.out(&y, Dt::F32);
        let mut inters = vec![(mm.clone(), Dt::F32)];
        if pre_l {
            inters.push((la.clone(), Dt::F32));
        } else if pre_r {
            inters.push((ra.clone(), Dt::F32));
        }
        if !post && ex > 0 && (ex - 1) / 2 == 0 {
            // the MatMul result already is the graph output
            return None;
        }
        if ex > 2 && inters.len() < 2 {
            return None;
        }
        let extag = b.extra(ex, &inters);
        let rank = if pre_r && !pre_l && !post { 2 } else { ls.len() };
        let tags = vec![
            ["after MatMul", "lhs", "rhs", "lhs and rhs", "lhs and after"][pos].to_string(),
            op.to_string(),
            cshape_tag(cs, rank),
            if swap { "const is the left operand".into() } else { "const is the right operand".into() },
            vtag.to_string(),
            format!("{ls:?}"),
            METAS[mi].name().into(),
            extag,
        ];
        Some(Built { prog: b.finish(), tags })
    };
    tmpl("MatMulScale", Some("MatMulScaleFusion"), axes, build, |_, ops| ops.iter().any(|o| o.0 == "FusedMatMul" && o.1.contains("alpha: Some")))
}

/// `Cast(MatMulInteger(a, b, a_zero, b_zero), float) * scale`
fn matmul_integer(_thorough: bool) -> Template {
    // scale: const [], const [1], const [n], const [1,n], const [1,1], graph input [n]
    // zero points: scalars, [1] vectors, per-row / per-column vectors
    let axes = vec![
        ax("scale", 6, true),
        ax("zero points", 3, true),
        ax("operand order", 2, true),
        ax("rhs dtype", 2, false),
        ax("input metadata", 3, false),
        ax("extra consumer", 5, true),
    ];
    let build = move |p: &[usize]| -> Option<Built> {
        let mut b = B::new();
        let a = b.input("a", Dt::U8, &[M, K], METAS[p[4]], alt_of(&[M, K]));
        let wdt = if p[3] == 0 { Dt::I8 } else { Dt::U8 };
        let wv: Vec<f64> = (0..K * N).map(|i| if wdt == Dt::I8 { (i as f64) - 2.0 } else { i as f64 + 1.0 }).collect();
        let w = b.cdt(wdt, &[K as i64, N as i64], &wv);
        let (az, bz, ztag) = match p[1] {
            0 => (b.cdt(Dt::U8, &[], &[1.0]), b.cdt(wdt, &[], &[1.0]), "scalars"),
            1 => (b.cdt(Dt::U8, &[1], &[1.0]), b.cdt(wdt, &[1], &[1.0]), "[1] vectors"),
            _ => (b.cdt(Dt::U8, &[M as i64], &[1.0, 2.0]), b.cdt(wdt, &[N as i64], &[1.0, 0.0]), "per-row [m] / per-column [n]"),
        };
        let mmi = b.op("MatMulInteger", &[&a, &w, &az, &bz]);
        let cast = b.opa("Cast", &[&mmi], vec![("to", AttrV::I(Dt::F32.onnx() as i64))]);
        let (scale, stag) = match p[0] {
            0 => (b.cf(&[], &[0.5]), "const scalar []"),
            1 => (b.cf(&[1], &[0.5]), "const [1]"),
            2 => (b.cf(&[N as i64], &[0.5, 0.25]), "const [n]"),
            3 => (b.cf(&[1, N as i64], &[0.5, 0.25]), "const [1,n]"),
            4 => (b.cf(&[1, 1], &[0.5]), "const [1,1]"),
            _ => (b.input("scale", Dt::F32, &[N], METAS[p[4]], None), "graph input [n]"),
        };
        let y = b.bin("Mul", &cast, &scale, p[2] == 1);
        b.out(&y, Dt::F32);
        let extag = b.extra(p[5], &[(cast.clone(), Dt::F32), (mmi.clone(), Dt::I32)]);
        let tags = vec![
            stag.to_string(),
            ztag.to_string(),
            order_tag(p[2] as u32),
            wdt.name().to_string(),
            METAS[p[4]].name().into(),
            extag,
        ];
        Some(Built { prog: b.finish(), tags })
    };
    tmpl("MatMulIntegerToFloat", Some("MatMulIntegerToFloatFusion"), axes, build, |_, ops| has(ops, "MatMulIntegerToFloat"))
}

/// `Cast(ConvInteger(x, w, x_zero, w_zero), float) * scale`
fn conv_integer(_thorough: bool) -> Template {
    // scale: const [], const [1], const [1,1,1,1], const [1,C,1,1], graph input []
    let axes = vec![
        ax("scale", 5, true),
        ax("operand order", 2, true),
        ax("conv attributes", 2, false),
        ax("weight dtype", 2, false),
        ax("input metadata", 3, false),
        ax("extra consumer", 3, true),
    ];
    let build = move |p: &[usize]| -> Option<Built> {
        let mut b = B::new();
        let xs = [1usize, 2, 3, 3];
        let x = b.input("x", Dt::U8, &xs, METAS[p[4]], alt_of(&xs));
        let wdt = if p[3] == 0 { Dt::I8 } else { Dt::U8 };
        let wv: Vec<f64> = (0..16).map(|i| if wdt == Dt::I8 { (i % 5) as f64 - 2.0 } else { (i % 5) as f64 }).collect();
        let w = b.cdt(wdt, &[2, 2, 2, 2], &wv);
        let xz = b.cdt(Dt::U8, &[], &[1.0]);
        let wz = b.cdt(wdt, &[], &[1.0]);
        let mut attrs = vec![("kernel_shape", AttrV::Is(vec![2, 2]))];
        if p[2] == 1 {
            attrs.push(("pads", AttrV::Is(vec![1, 1, 1, 1])));
            attrs.push(("strides", AttrV::Is(vec![2, 2])));
        }
        let ci = b.opa("ConvInteger", &[&x, &w, &xz, &wz], attrs);
        let cast = b.opa("Cast", &[&ci], vec![("to", AttrV::I(Dt::F32.onnx() as i64))]);
        let (scale, stag) = match p[0] {
            0 => (b.cf(&[], &[0.5]), "const scalar []"),
            1 => (b.cf(&[1], &[0.5]), "const [1]"),
            2 => (b.cf(&[1, 1, 1, 1], &[0.5]), "const [1,1,1,1]"),
            3 => (b.cf(&[1, 2, 1, 1], &[0.5, 0.25]), "const [1,C,1,1]"),
            _ => (b.input("scale", Dt::F32, &[], METAS[p[4]], None), "graph input []"),
        };
        let y = b.bin("Mul", &cast, &scale, p[1] == 1);
        b.out(&y, Dt::F32);
        let extag = b.extra(p[5], &[(cast.clone(), Dt::F32)]);
        let tags = vec![
            stag.to_string(),
            order_tag(p[1] as u32),
            if p[2] == 0 { "default".into() } else { "pads=1 strides=2".into() },
            wdt.name().to_string(),
            METAS[p[4]].name().into(),
            extag,
        ];
        Some(Built { prog: b.finish(), tags })
    };
    tmpl("ConvIntegerToFloat", Some("ConvIntegerToFloatFusion"), axes, build, |_, ops| has(ops, "ConvIntegerToFloat"))
}

/// `Add(Conv(x, w), bias)`
fn conv_add(_thorough: bool) -> Template {
    // bias: [1,C,1,1], [C,1,1], [1,1,1,1], [] scalar, [1,C,1,W] (not per-channel), graph input [1,C,1,1]
    let axes = vec![
        ax("bias", 6, true),
        ax("operand order", 2, true),
        ax("out channels", 2, true),
        ax("conv form", 3, true),
        ax("input metadata", 3, false),
        ax("extra consumer", 3, true),
    ];
    let build = move |p: &[usize]| -> Option<Built> {
        let c = if p[2] == 0 { 2usize } else { 1 };
        let mut b = B::new();
        // conv form: 0 = 2-D conv, 1 = 2-D conv that already has a bias, 2 = 1-D conv
        let one_d = p[3] == 2;
        let xs: Vec<usize> = if one_d { vec![1, 2, 4] } else { vec![1, 2, 3, 3] };
        let x = b.input("x", Dt::F32, &xs, METAS[p[4]], alt_of(&xs));
        let wdims: Vec<i64> = if one_d { vec![c as i64, 2, 2] } else { vec![c as i64, 2, 2, 2] };
        let wn: usize = wdims.iter().map(|d| *d as usize).product();
        let w = b.cf(&wdims, &seq(wn, -1.0, 0.5));
        let ks = ("kernel_shape", AttrV::Is(if one_d { vec![2] } else { vec![2, 2] }));
        let conv = if p[3] == 1 {
            let cb = b.cf(&[c as i64], &seq(c, 0.5, 1.0));
            b.opa("Conv", &[&x, &w, &cb], vec![ks])
        } else {
            b.opa("Conv", &[&x, &w], vec![ks])
        };
        let sp = if one_d { 1 } else { 2 };
        let out_w = if one_d { 3 } else { 2 };
        let mut dims = vec![1i64, c as i64];
        dims.extend(std::iter::repeat(1).take(sp));
        let (bias, btag): (String, &str) = match p[0] {
            0 => (b.cf(&dims, &seq(c, 1.0, 2.0)), "const [1,C,1..]"),
            1 => (b.cf(&dims[1..], &seq(c, 1.0, 2.0)), "const [C,1..] (rank - 1)"),
            2 => {
                let ones: Vec<i64> = vec![1; dims.len()];
                (b.cf(&ones, &[1.5]), "const [1,1,1..] (single element)")
            }
            3 => (b.cf(&[], &[1.5]), "const scalar []"),
            4 => {
                let mut d = dims.clone();
                *d.last_mut().unwrap() = out_w;
                (b.cf(&d, &seq(c * out_w as usize, 1.0, 2.0)), "const [1,C,..,W] (not per-channel)")
            }
            _ => {
                let sh: Vec<usize> = dims.iter().map(|d| *d as usize).collect();
                (b.input("bias", Dt::F32, &sh, METAS[p[4]], None), "graph input [1,C,1..]")
            }
        };
        let y = b.bin("Add", &conv, &bias, p[1] == 1);
        b.out(&y, Dt::F32);
        let extag = b.extra(p[5], &[(conv.clone(), Dt::F32)]);
        let tags = vec![
            btag.to_string(),
            order_tag(p[1] as u32),
            format!("{c}"),
            ["2-D conv", "2-D conv with bias", "1-D conv"][p[3]].to_string(),
            METAS[p[4]].name().into(),
            extag,
        ];
        Some(Built { prog: b.finish(), tags })
    };
    tmpl("ConvAdd", Some("ConvAddFusion"), axes, build, |p, ops| !has(ops, "Add") && p[3] != 1)
}
