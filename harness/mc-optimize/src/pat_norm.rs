//! Templates: LayerNormalizationFusion (with / without bias), RMSNormalizationFusion.
//! Each fusion gets two templates over the same builder: one varying the
//! constant holes, one varying the structural holes.

use crate::c01::{Axis, Built, Template, ax, ax2};
use crate::patterns::*;
use crate::prog::{AttrV, Dt};

pub fn templates(thorough: bool) -> Vec<Template> {
    vec![ln_consts(thorough), ln_structure(thorough), rms_consts(thorough), rms_structure(thorough)]
}

fn norm_data(thorough: bool) -> Vec<Vec<usize>> {
    let mut v = vec![vec![2, 3], vec![3], vec![2, 2]];
    if thorough {
        v.extend([vec![2, 2, 3], vec![3, 3]]);
    }
    v
}

#[derive(Clone, Copy, Default)]
struct NormP {
    /// 0: axes attribute, 1: axes input (needs ReduceMeanAxesFusion first)
    rm_form: usize,
    /// 0: -1, 1: last (positive), 2: 0
    axis_a: usize,
    axis_b: usize,
    /// 0: keepdims=1, 1: keepdims=0
    keep: usize,
    eps_cs: usize,
    pow_cs: usize,
    /// 0: 2.0, 1: 3.0
    pow_val: usize,
    /// scale shape: 0 [n], 1 [], 2 [1], 3 [1,n], 4 full data shape
    scale: usize,
    /// bias: 0 none, 1 [n], 2 [], 3 full data shape, 4 [1,n]
    bias: usize,
    order: u32,
    data: usize,
    meta: usize,
    extra: usize,
    /// RMS only: 0 Reciprocal op, 1 Div(1, .)
    recip: usize,
    /// RMS only: bracketing of x * r * scale
    bracket: usize,
}

fn axis_val(a: usize, rank: usize) -> (i64, &'static str) {
    match a {
        0 => (-1, "-1"),
        1 => (rank as i64 - 1, "last (positive)"),
        _ => (0, "0"),
    }
}

fn reduce_mean(b: &mut B, x: &str, axis: i64, keep: i64, form: usize) -> String {
    if form == 0 {
        b.opa("ReduceMean", &[x], vec![("axes", AttrV::Is(vec![axis])), ("keepdims", AttrV::I(keep))])
    } else {
        let a = b.ci(&[1], &[axis]);
        b.opa("ReduceMean", &[x, &a], vec![("keepdims", AttrV::I(keep))])
    }
}

fn vec_const(b: &mut B, kind: usize, shape: &[usize], base: f32) -> (Option<String>, String) {
    // kind numbering of `scale`; values are distinct per element where possible
    let n = *shape.last().unwrap();
    let vals = |cnt: usize| -> Vec<f32> { (0..cnt).map(|i| base + 0.5 * i as f32).collect() };
    match kind {
        0 => (Some(b.cf(&[n as i64], &vals(n))), "[n]".into()),
        1 => (Some(b.cf(&[], &vals(1))), "scalar []".into()),
        2 => (Some(b.cf(&[1], &vals(1))), "[1]".into()),
        3 => (Some(b.cf(&[1, n as i64], &vals(n))), "[1,n]".into()),
        _ => {
            let cnt: usize = shape.iter().product();
            let dims: Vec<i64> = shape.iter().map(|d| *d as i64).collect();
            (Some(b.cf(&dims, &vals(cnt))), "full data shape".into())
        }
    }
}

fn build_ln(data: &[Vec<usize>], q: NormP) -> Option<(Built, Vec<String>)> {
    let shape = &data[q.data];
    let rank = shape.len();
    let n = *shape.last().unwrap();
    let mut b = B::new();
    let x = b.input("x", Dt::F32, shape, METAS[q.meta], alt_of(shape));
    let keep = if q.keep == 0 { 1 } else { 0 };
    let (aa, aat) = axis_val(q.axis_a, rank);
    let (ab, abt) = axis_val(q.axis_b, rank);
    let mean = reduce_mean(&mut b, &x, aa, keep, q.rm_form);
    let centered = b.op("Sub", &[&x, &mean]);
    let c2 = b.sc(q.pow_cs, n, if q.pow_val == 0 { 2.0 } else { 3.0 });
    let sq = b.op("Pow", &[&centered, &c2]);
    let var = reduce_mean(&mut b, &sq, ab, keep, q.rm_form);
    let eps = b.sc(q.eps_cs, n, 1e-5);
    let ve = b.bin("Add", &eps, &var, q.order & 1 != 0);
    let sd = b.op("Sqrt", &[&ve]);
    let norm = b.op("Div", &[&centered, &sd]);
    let (scale, scale_tag) = vec_const(&mut b, q.scale, shape, 1.0);
    let scaled = b.bin("Mul", &norm, &scale.unwrap(), q.order & 2 != 0);
    let (y, bias_tag) = if q.bias == 0 {
        (scaled.clone(), "no bias".to_string())
    } else {
        let kind = [0, 0, 1, 4, 3][q.bias];
        let (bias, t) = vec_const(&mut b, kind, shape, -1.0);
        (b.bin("Add", &scaled, &bias.unwrap(), q.order & 4 != 0), t)
    };
    b.out(&y, Dt::F32);
    let extag = b.extra(q.extra, &[(norm.clone(), Dt::F32), (centered.clone(), Dt::F32)]);
    let tags = vec![
        if q.rm_form == 0 { "axes attribute".into() } else { "axes input".into() },
        aat.to_string(),
        abt.to_string(),
        format!("{keep}"),
        cshape_tag(q.eps_cs, rank),
        cshape_tag(q.pow_cs, rank),
        if q.pow_val == 0 { "2".into() } else { "near-miss 3".into() },
        scale_tag,
        bias_tag,
        order_tag(q.order),
        format!("{shape:?}"),
        METAS[q.meta].name().to_string(),
        extag,
    ];
    Some((Built { prog: b.finish(), tags: vec![] }, tags))
}

fn build_rms(data: &[Vec<usize>], q: NormP) -> Option<(Built, Vec<String>)> {
    let shape = &data[q.data];
    let rank = shape.len();
    let n = *shape.last().unwrap();
    let mut b = B::new();
    let x = b.input("x", Dt::F32, shape, METAS[q.meta], alt_of(shape));
    let keep = if q.keep == 0 { 1 } else { 0 };
    let (ab, abt) = axis_val(q.axis_b, rank);
    let c2 = b.sc(q.pow_cs, n, if q.pow_val == 0 { 2.0 } else { 3.0 });
    let sq = b.op("Pow", &[&x, &c2]);
    let ms = reduce_mean(&mut b, &sq, ab, keep, q.rm_form);
    let eps = b.sc(q.eps_cs, n, 1e-5);
    let ve = b.bin("Add", &eps, &ms, q.order & 1 != 0);
    let sd = b.op("Sqrt", &[&ve]);
    let r = if q.recip == 0 {
        b.op("Reciprocal", &[&sd])
    } else {
        let one = b.cf(&[], &[1.0]);
        b.op("Div", &[&one, &sd])
    };
    let (scale, scale_tag) = vec_const(&mut b, q.scale, shape, 1.0);
    let scale = scale.unwrap();
    let y = match q.bracket {
        0 => {
            let t = b.bin("Mul", &x, &r, q.order & 2 != 0);
            b.bin("Mul", &t, &scale, q.order & 4 != 0)
        }
        1 => {
            let t = b.bin("Mul", &r, &scale, q.order & 2 != 0);
            b.bin("Mul", &x, &t, q.order & 4 != 0)
        }
        _ => {
            let t = b.bin("Mul", &x, &scale, q.order & 2 != 0);
            b.bin("Mul", &t, &r, q.order & 4 != 0)
        }
    };
    b.out(&y, Dt::F32);
    let extag = b.extra(q.extra, &[(r.clone(), Dt::F32), (ms.clone(), Dt::F32)]);
    let tags = vec![
        if q.rm_form == 0 { "axes attribute".into() } else { "axes input".into() },
        abt.to_string(),
        format!("{keep}"),
        cshape_tag(q.eps_cs, rank),
        cshape_tag(q.pow_cs, rank),
        if q.pow_val == 0 { "2".into() } else { "near-miss 3".into() },
        scale_tag,
        order_tag(q.order),
        format!("{shape:?}"),
        METAS[q.meta].name().to_string(),
        extag,
        if q.recip == 0 { "Reciprocal op".into() } else { "Div(1, .)".into() },
        ["(x*r)*scale", "x*(r*scale)", "(x*scale)*r"][q.bracket].to_string(),
    ];
    Some((Built { prog: b.finish(), tags: vec![] }, tags))
}

// tag indices of build_ln: 0 rm_form 1 axis_a 2 axis_b 3 keep 4 eps_cs 5 pow_cs 6 pow_val 7 scale 8 bias 9 order 10 data 11 meta 12 extra
// tag indices of build_rms: 0 rm_form 1 axis 2 keep 3 eps_cs 4 pow_cs 5 pow_val 6 scale 7 order 8 data 9 meta 10 extra 11 recip 12 bracket

fn pick(b: (Built, Vec<String>), idx: &[usize]) -> Built {
    let (mut built, tags) = b;
    built.tags = idx.iter().map(|i| tags[*i].clone()).collect();
    built
}

fn ln_consts(thorough: bool) -> Template {
    let data = norm_data(thorough);
    let nd = data.len();
    let axes: Vec<Axis> = vec![
        ax2("epsilon const shape", CS_N),
        ax2("pow const shape", CS_N),
        ax("pow const value", 2, true),
        ax("bias", 2, true),
        ax("operand order", 8, true),
        ax("data shape", nd, false),
        ax("input metadata", 3, false),
    ];
    let build = move |p: &[usize]| -> Option<Built> {
        if p[3] == 0 && p[4] & 4 != 0 {
            return None;
        }
        let q = NormP { eps_cs: p[0], pow_cs: p[1], pow_val: p[2], bias: p[3], order: p[4] as u32, data: p[5], meta: p[6], ..Default::default() };
        build_ln(&data, q).map(|b| pick(b, &[4, 5, 6, 8, 9, 10, 11]))
    };
    tmpl("LayerNorm/constants", Some("LayerNormalizationFusion"), axes, build, |_, ops| has(ops, "LayerNormalization"))
}

fn ln_structure(thorough: bool) -> Template {
    let data = norm_data(thorough);
    let nd = data.len();
    let axes: Vec<Axis> = vec![
        ax("ReduceMean form", 2, true),
        ax("centering axis", 3, true),
        ax("variance axis", 3, true),
        ax("keepdims", 2, true),
        ax("scale shape", 5, true),
        ax("bias", 5, true),
        ax("data shape", nd, false),
        ax("input metadata", 3, false),
        ax("extra consumer", 5, true),
    ];
    let build = move |p: &[usize]| -> Option<Built> {
        let q = NormP { rm_form: p[0], axis_a: p[1], axis_b: p[2], keep: p[3], scale: p[4], bias: p[5], data: p[6], meta: p[7], extra: p[8], ..Default::default() };
        build_ln(&data, q).map(|b| pick(b, &[0, 1, 2, 3, 7, 8, 10, 11, 12]))
    };
    tmpl("LayerNorm/structure", Some("LayerNormalizationFusion"), axes, build, |_, ops| has(ops, "LayerNormalization"))
}

fn rms_consts(thorough: bool) -> Template {
    let data = norm_data(thorough);
    let nd = data.len();
    let axes: Vec<Axis> = vec![
        ax2("epsilon const shape", CS_N),
        ax2("pow const shape", CS_N),
        ax("pow const value", 2, true),
        ax("operand order", 8, true),
        ax("bracketing", 3, true),
        ax("data shape", nd, false),
        ax("input metadata", 3, false),
    ];
    let build = move |p: &[usize]| -> Option<Built> {
        let q = NormP { eps_cs: p[0], pow_cs: p[1], pow_val: p[2], order: p[3] as u32, bracket: p[4], data: p[5], meta: p[6], ..Default::default() };
        build_rms(&data, q).map(|b| pick(b, &[3, 4, 5, 7, 12, 8, 9]))
    };
    tmpl("RMSNorm/constants", Some("RMSNormalizationFusion"), axes, build, |_, ops| has(ops, "RMSNormalization"))
}

fn rms_structure(thorough: bool) -> Template {
    let data = norm_data(thorough);
    let nd = data.len();
    let axes: Vec<Axis> = vec![
        ax("ReduceMean form", 2, true),
        ax("reciprocal form", 2, true),
        ax("mean axis", 3, true),
        ax("keepdims", 2, true),
        ax("scale shape", 5, true),
        ax("data shape", nd, false),
        ax("input metadata", 3, false),
        ax("extra consumer", 5, true),
    ];
    let build = move |p: &[usize]| -> Option<Built> {
        let q = NormP { rm_form: p[0], recip: p[1], axis_b: p[2], keep: p[3], scale: p[4], data: p[5], meta: p[6], extra: p[7], ..Default::default() };
        build_rms(&data, q).map(|b| pick(b, &[0, 11, 1, 2, 6, 8, 9, 10]))
    };
    tmpl("RMSNorm/structure", Some("RMSNormalizationFusion"), axes, build, |_, ops| has(ops, "RMSNormalization"))
}
