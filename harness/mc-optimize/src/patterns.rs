//! Pattern grammar: one template per fusion of `src/optimize/fusions.rs`, each
//! with holes. This file holds the builder DSL shared by the template files
//! and the list of templates.

use crate::c01::{Built, OpList, Template};
use crate::prog::{AttrV, Const, Dt, Meta, Prog};

/// Program builder with fresh names.
pub struct B {
    pub p: Prog,
    k: usize,
    /// (input index, alternative run shape)
    alts: Vec<Option<Vec<usize>>>,
}

impl B {
    pub fn new() -> B {
        B { p: Prog::new(), k: 0, alts: Vec::new() }
    }
    pub fn fresh(&mut self, base: &str) -> String {
        self.k += 1;
        format!("{base}{}", self.k)
    }
    /// Declare a graph input. `alt`: a second conforming run shape used when the
    /// declaration is not fully fixed.
    pub fn input(&mut self, name: &str, dt: Dt, shape: &[usize], meta: Meta, alt: Option<Vec<usize>>) -> String {
        self.alts.push(alt);
        self.p.input(name, dt, meta, shape)
    }
    pub fn cf(&mut self, dims: &[i64], vals: &[f32]) -> String {
        let n = self.fresh("c");
        self.p.cst(Const::f32(&n, dims, vals))
    }
    pub fn ci(&mut self, dims: &[i64], vals: &[i64]) -> String {
        let n = self.fresh("k");
        self.p.cst(Const::i64(&n, dims, vals))
    }
    pub fn cdt(&mut self, dt: Dt, dims: &[i64], vals: &[f64]) -> String {
        let n = self.fresh("q");
        self.p.cst(Const::of(&n, dt, dims, vals))
    }
    /// "Scalar" constant hole: value `v` in shape class `cs` (see [`cshape`]).
    pub fn sc(&mut self, cs: usize, n: usize, v: f32) -> String {
        let dims = cshape(cs, n);
        let cnt: usize = dims.iter().map(|d| *d as usize).product();
        self.cf(&dims, &vec![v; cnt])
    }
    pub fn op(&mut self, op: &str, ins: &[&str]) -> String {
        let o = self.fresh("v");
        self.p.node(op, ins, &o)
    }
    pub fn opa(&mut self, op: &str, ins: &[&str], attrs: Vec<(&str, AttrV)>) -> String {
        let o = self.fresh("v");
        self.p.node_a(op, ins, &o, attrs)
    }
    pub fn bin(&mut self, op: &str, a: &str, b: &str, swap: bool) -> String {
        if swap { self.op(op, &[b, a]) } else { self.op(op, &[a, b]) }
    }
    pub fn out(&mut self, name: &str, dt: Dt) {
        self.p.output(name, dt);
    }
    /// Extra-consumer hole. 0: none; odd: the intermediate is additionally a
    /// graph output; even: it additionally feeds another operator (whose
    /// result becomes a graph output).
    pub fn extra(&mut self, choice: usize, inters: &[(String, Dt)]) -> String {
        if choice == 0 {
            return "none".into();
        }
        let i = (choice - 1) / 2;
        let (name, dt) = inters[i].clone();
        if (choice - 1) % 2 == 0 {
            self.out(&name, dt);
            format!("intermediate #{i} is also a graph output")
        } else {
            let s = self.op("Neg", &[&name]);
            self.out(&s, dt);
            format!("intermediate #{i} also feeds another operator")
        }
    }
    pub fn finish(mut self) -> Prog {
        let primary: Vec<Vec<usize>> = self.p.inputs.iter().map(|i| i.shape.clone()).collect();
        self.p.runs.push(primary.clone());
        let any_dynamic = self.p.inputs.iter().zip(&self.alts).any(|(i, a)| i.meta != Meta::Fixed && a.is_some());
        if any_dynamic {
            let alt: Vec<Vec<usize>> = self
                .p
                .inputs
                .iter()
                .zip(&self.alts)
                .map(|(i, a)| if i.meta != Meta::Fixed { a.clone().unwrap_or(i.shape.clone()) } else { i.shape.clone() })
                .collect();
            if alt != primary {
                self.p.runs.push(alt);
            }
        }
        self.p
    }
}

pub const CS_N: usize = 5;

/// Shapes of a "scalar" constant hole: [], [1], [1,1], [1,1,1], [n].
pub fn cshape(cs: usize, n: usize) -> Vec<i64> {
    match cs {
        0 => vec![],
        1 => vec![1],
        2 => vec![1, 1],
        3 => vec![1, 1, 1],
        _ => vec![n as i64],
    }
}

/// Class label of a constant-shape hole relative to the rank of the operand
/// the constant is combined with.
pub fn cshape_tag(cs: usize, operand_rank: usize) -> String {
    match cs {
        0 => "scalar []".into(),
        1..=3 => {
            if cs > operand_rank {
                "single-element const of rank > operand rank".into()
            } else {
                "single-element const of rank <= operand rank".into()
            }
        }
        _ => "vector const [n]".into(),
    }
}

pub const METAS: [Meta; 3] = [Meta::Fixed, Meta::Sym, Meta::Absent];

pub fn data_shapes(thorough: bool) -> Vec<Vec<usize>> {
    let mut v = vec![vec![2, 3], vec![3], vec![2, 2, 3]];
    if thorough {
        v.extend([vec![1, 2, 2, 3], vec![2, 2], vec![1, 3]]);
    }
    v
}

/// Alternative run shape: first dimension + 1.
pub fn alt_of(shape: &[usize]) -> Option<Vec<usize>> {
    if shape.is_empty() {
        return None;
    }
    let mut a = shape.to_vec();
    a[0] += 1;
    Some(a)
}

pub fn has(ops: &OpList, name: &str) -> bool {
    ops.iter().any(|o| o.0 == name)
}

/// Masks for the "commutative operand order" hole over `k` commutative nodes:
/// the complete 2^k product for k <= 3, otherwise {none, all, each single}.
pub fn order_masks(k: usize, thorough: bool) -> Vec<u32> {
    if k <= 3 {
        (0..(1u32 << k)).collect()
    } else if thorough {
        let mut v = vec![0, (1u32 << k) - 1];
        v.extend((0..k).map(|i| 1u32 << i));
        v
    } else {
        vec![0, (1u32 << k) - 1]
    }
}

pub fn order_tag(mask: u32) -> String {
    if mask == 0 { "canonical".into() } else { format!("commutative operands swapped (mask {mask:b})") }
}

pub fn tmpl(
    name: &str,
    fusion: Option<&'static str>,
    axes: Vec<crate::c01::Axis>,
    build: impl Fn(&[usize]) -> Option<Built> + Send + Sync + 'static,
    fired: impl Fn(&[usize], &OpList) -> bool + Send + Sync + 'static,
) -> Template {
    Template {
        name: name.to_string(),
        generator: "pattern",
        fusion,
        axes,
        build: Box::new(build),
        fired: Box::new(fired),
        normalize: None,
    }
}

fn base_templates(thorough: bool) -> Vec<Template> {
    let mut v = Vec::new();
    v.extend(crate::pat_basic::templates(thorough));
    v.extend(crate::pat_act::templates(thorough));
    v.extend(crate::pat_norm::templates(thorough));
    v.extend(crate::pat_matmul::templates(thorough));
    v.extend(crate::pat_attn::templates(thorough));
    v.extend(crate::pat_layout::templates(thorough));
    v
}

/// Put an identity in front of every f32 graph input that the optimizer can only recognise
/// after constant propagation: `x' = Mul(x, Cast<f32>(int64 1))`; every use of `x` by a node
/// becomes `x'`. Two rewrites (identity elimination and the template's fusion) then meet in
/// one optimizer pass.
fn late_identity(mut b: Built) -> Built {
    let inputs: Vec<String> = b.prog.inputs.iter().filter(|i| i.dt == Dt::F32).map(|i| i.name.clone()).collect();
    let mut front = Vec::new();
    for (k, x) in inputs.iter().enumerate() {
        let one_i = format!("li_one_i{k}");
        let one_f = format!("li_one_f{k}");
        let xi = format!("{x}_li");
        b.prog.consts.push(Const::i64(&one_i, &[], &[1]));
        for n in b.prog.nodes.iter_mut() {
            for i in n.ins.iter_mut() {
                if i == x {
                    *i = xi.clone();
                }
            }
        }
        front.push(crate::prog::NodeS { op: "Cast".into(), domain: String::new(), ins: vec![one_i], outs: vec![one_f.clone()], attrs: vec![("to".into(), AttrV::I(1))] });
        front.push(crate::prog::NodeS { op: "Mul".into(), domain: String::new(), ins: vec![x.clone(), one_f], outs: vec![xi], attrs: vec![] });
    }
    front.extend(std::mem::take(&mut b.prog.nodes));
    b.prog.nodes = front;
    b.tags.push("late identity on inputs".into());
    b
}

pub fn templates(thorough: bool) -> Vec<Template> {
    let mut v = base_templates(thorough);
    // every template once more with a late identity in front of its inputs
    for t in base_templates(thorough) {
        let Template { name, generator, fusion, axes, build, fired, normalize } = t;
        v.push(Template {
            name: format!("{name}+late-identity"),
            generator,
            fusion,
            axes,
            build: Box::new(move |pt| build(pt).map(late_identity)),
            fired,
            normalize,
        });
    }
    v
}
