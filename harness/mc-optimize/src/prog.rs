//! Program AST of the C01 engine: a small ONNX program together with the
//! description of its graph inputs (declared metadata, concrete shapes to run
//! with). Converts to ONNX bytes through the shared `vp-onnx` encoder and to /
//! from JSON so that replay artefacts are self-contained.

use vp_core::{Json, json};
use vp_onnx as ox;

#[derive(Clone, Copy, Debug, PartialEq, Eq)]
pub enum Dt {
    F32,
    I64,
    I32,
    U8,
    I8,
    Bool,
}

impl Dt {
    pub fn onnx(self) -> i32 {
        match self {
            Dt::F32 => ox::dtype::FLOAT,
            Dt::I64 => ox::dtype::INT64,
            Dt::I32 => ox::dtype::INT32,
            Dt::U8 => ox::dtype::UINT8,
            Dt::I8 => ox::dtype::INT8,
            Dt::Bool => ox::dtype::BOOL,
        }
    }
    pub fn name(self) -> &'static str {
        match self {
            Dt::F32 => "f32",
            Dt::I64 => "i64",
            Dt::I32 => "i32",
            Dt::U8 => "u8",
            Dt::I8 => "i8",
            Dt::Bool => "bool",
        }
    }
    pub fn parse(s: &str) -> Dt {
        match s {
            "f32" => Dt::F32,
            "i64" => Dt::I64,
            "i32" => Dt::I32,
            "u8" => Dt::U8,
            "i8" => Dt::I8,
            "bool" => Dt::Bool,
            _ => vp_core::machinery_error(&format!("bad dtype in replay: {s}")),
        }
    }
}

/// A constant tensor (initializer or tensor attribute). Values are kept as
/// f64, which holds every f32 and every small integer used here exactly.
#[derive(Clone, Debug, PartialEq)]
pub struct Const {
    pub name: String,
    pub dims: Vec<i64>,
    pub dt: Dt,
    pub vals: Vec<f64>,
}

impl Const {
    pub fn f32(name: &str, dims: &[i64], vals: &[f32]) -> Const {
        Const { name: name.into(), dims: dims.to_vec(), dt: Dt::F32, vals: vals.iter().map(|v| *v as f64).collect() }
    }
    pub fn i64(name: &str, dims: &[i64], vals: &[i64]) -> Const {
        Const { name: name.into(), dims: dims.to_vec(), dt: Dt::I64, vals: vals.iter().map(|v| *v as f64).collect() }
    }
    pub fn of(name: &str, dt: Dt, dims: &[i64], vals: &[f64]) -> Const {
        Const { name: name.into(), dims: dims.to_vec(), dt, vals: vals.to_vec() }
    }
    pub fn numel(&self) -> usize {
        self.dims.iter().map(|d| *d as usize).product()
    }

    fn to_onnx(&self) -> ox::Tensor {
        match self.dt {
            Dt::F32 => ox::Tensor::f32(&self.name, &self.dims, &self.vals.iter().map(|v| *v as f32).collect::<Vec<_>>()),
            Dt::I64 => ox::Tensor::i64(&self.name, &self.dims, &self.vals.iter().map(|v| *v as i64).collect::<Vec<_>>()),
            Dt::I32 => ox::Tensor::i32(&self.name, &self.dims, &self.vals.iter().map(|v| *v as i32).collect::<Vec<_>>()),
            Dt::U8 => ox::Tensor::u8(&self.name, &self.dims, &self.vals.iter().map(|v| *v as u8).collect::<Vec<_>>()),
            Dt::I8 => ox::Tensor::i8(&self.name, &self.dims, &self.vals.iter().map(|v| *v as i8).collect::<Vec<_>>()),
            Dt::Bool => ox::Tensor::bool(&self.name, &self.dims, &self.vals.iter().map(|v| *v != 0.0).collect::<Vec<_>>()),
        }
    }

    fn to_json(&self) -> Json {
        json!({"name": self.name, "dims": self.dims, "dt": self.dt.name(), "vals": self.vals.iter().map(|v| num_json(*v)).collect::<Vec<_>>()})
    }
    fn from_json(j: &Json) -> Const {
        Const {
            name: j["name"].as_str().unwrap_or("").to_string(),
            dims: j["dims"].as_array().map(|a| a.iter().map(|v| v.as_i64().unwrap_or(0)).collect()).unwrap_or_default(),
            dt: Dt::parse(j["dt"].as_str().unwrap_or("")),
            vals: j["vals"].as_array().map(|a| a.iter().map(json_num).collect()).unwrap_or_default(),
        }
    }

    /// Short rendering for program listings: `f32[1,1]{0}`.
    pub fn show(&self) -> String {
        let vals: Vec<String> = self.vals.iter().take(8).map(|v| fmt_num(*v)).collect();
        let more = if self.vals.len() > 8 { ",…" } else { "" };
        format!("{}{:?}{{{}{}}}", self.dt.name(), self.dims, vals.join(","), more)
    }
}

pub fn fmt_num(v: f64) -> String {
    if v.is_nan() {
        "nan".into()
    } else if v.is_infinite() {
        if v > 0.0 { "inf".into() } else { "-inf".into() }
    } else if v == v.trunc() && v.abs() < 1e9 {
        format!("{}", v as i64)
    } else {
        format!("{}", v as f32)
    }
}

pub fn num_json(v: f64) -> Json {
    if v.is_nan() {
        json!("nan")
    } else if v.is_infinite() {
        if v > 0.0 { json!("inf") } else { json!("-inf") }
    } else {
        json!(v)
    }
}

pub fn json_num(j: &Json) -> f64 {
    match j {
        Json::String(s) => match s.as_str() {
            "nan" => f64::NAN,
            "inf" => f64::INFINITY,
            "-inf" => f64::NEG_INFINITY,
            _ => vp_core::machinery_error("bad number string in replay"),
        },
        _ => j.as_f64().unwrap_or(0.0),
    }
}

#[derive(Clone, Debug, PartialEq)]
pub enum AttrV {
    I(i64),
    F(f32),
    Is(Vec<i64>),
    S(String),
    T(Const),
}

#[derive(Clone, Debug, PartialEq)]
pub struct NodeS {
    pub op: String,
    pub domain: String,
    pub ins: Vec<String>,
    pub outs: Vec<String>,
    pub attrs: Vec<(String, AttrV)>,
}

/// Declared shape metadata of a graph input.
#[derive(Clone, Copy, Debug, PartialEq, Eq)]
pub enum Meta {
    /// all dims declared with their concrete size (only one run shape then)
    Fixed,
    /// all dims declared as distinct symbols
    Sym,
    /// first dim symbolic, others fixed (shape-arithmetic grammar)
    Sym0,
    /// element type declared, no shape at all
    Absent,
    /// neither element type nor shape declared
    Untyped,
}

impl Meta {
    pub fn name(self) -> &'static str {
        match self {
            Meta::Fixed => "fixed",
            Meta::Sym => "symbolic",
            Meta::Sym0 => "dim0-symbolic",
            Meta::Absent => "absent",
            Meta::Untyped => "untyped",
        }
    }
    pub fn parse(s: &str) -> Meta {
        match s {
            "fixed" => Meta::Fixed,
            "symbolic" => Meta::Sym,
            "dim0-symbolic" => Meta::Sym0,
            "absent" => Meta::Absent,
            "untyped" => Meta::Untyped,
            _ => vp_core::machinery_error("bad meta in replay"),
        }
    }
}

#[derive(Clone, Debug, PartialEq)]
pub struct InputS {
    pub name: String,
    pub dt: Dt,
    pub meta: Meta,
    /// The shape the declaration is derived from (Fixed: declared as is).
    pub shape: Vec<usize>,
}

#[derive(Clone, Debug, PartialEq, Default)]
pub struct Prog {
    pub nodes: Vec<NodeS>,
    pub consts: Vec<Const>,
    pub inputs: Vec<InputS>,
    /// (name, declared element type). No shape is ever declared for outputs so
    /// that the harness cannot feed rten a wrong output shape.
    pub outputs: Vec<(String, Dt)>,
    /// Concrete input shapes to run with: one entry per run, one shape per input.
    pub runs: Vec<Vec<Vec<usize>>>,
}

impl Prog {
    pub fn new() -> Prog {
        Prog::default()
    }

    pub fn input(&mut self, name: &str, dt: Dt, meta: Meta, shape: &[usize]) -> String {
        self.inputs.push(InputS { name: name.into(), dt, meta, shape: shape.to_vec() });
        name.to_string()
    }

    pub fn cst(&mut self, c: Const) -> String {
        let n = c.name.clone();
        self.consts.push(c);
        n
    }

    /// Add a node with a single output named `out`.
    pub fn node(&mut self, op: &str, ins: &[&str], out: &str) -> String {
        self.nodes.push(NodeS {
            op: op.into(),
            domain: String::new(),
            ins: ins.iter().map(|s| s.to_string()).collect(),
            outs: vec![out.to_string()],
            attrs: vec![],
        });
        out.to_string()
    }

    pub fn node_a(&mut self, op: &str, ins: &[&str], out: &str, attrs: Vec<(&str, AttrV)>) -> String {
        self.nodes.push(NodeS {
            op: op.into(),
            domain: String::new(),
            ins: ins.iter().map(|s| s.to_string()).collect(),
            outs: vec![out.to_string()],
            attrs: attrs.into_iter().map(|(k, v)| (k.to_string(), v)).collect(),
        });
        out.to_string()
    }

    pub fn node_multi(&mut self, op: &str, ins: &[&str], outs: &[&str], attrs: Vec<(&str, AttrV)>) {
        self.nodes.push(NodeS {
            op: op.into(),
            domain: String::new(),
            ins: ins.iter().map(|s| s.to_string()).collect(),
            outs: outs.iter().map(|s| s.to_string()).collect(),
            attrs: attrs.into_iter().map(|(k, v)| (k.to_string(), v)).collect(),
        });
    }

    pub fn output(&mut self, name: &str, dt: Dt) {
        self.outputs.push((name.to_string(), dt));
    }

    pub fn to_onnx(&self) -> ox::Graph {
        let mut g = ox::Graph::new("g");
        for c in &self.consts {
            g.initializers.push(c.to_onnx());
        }
        for n in &self.nodes {
            let ins: Vec<&str> = n.ins.iter().map(|s| s.as_str()).collect();
            let outs: Vec<&str> = n.outs.iter().map(|s| s.as_str()).collect();
            let mut node = ox::Node::new(&n.op, &ins, &outs);
            if !n.domain.is_empty() {
                node = node.domain(&n.domain);
            }
            for (k, a) in &n.attrs {
                let a = match a {
                    AttrV::I(i) => ox::Attr::Int(*i),
                    AttrV::F(f) => ox::Attr::Float(*f),
                    AttrV::Is(v) => ox::Attr::Ints(v.clone()),
                    AttrV::S(s) => ox::Attr::Str(s.clone()),
                    AttrV::T(c) => ox::Attr::Tensor(c.to_onnx()),
                };
                node = node.attr(k, a);
            }
            g.nodes.push(node);
        }
        for i in &self.inputs {
            let vi = match i.meta {
                Meta::Fixed => ox::ValueInfo::fixed(&i.name, i.dt.onnx(), &i.shape.iter().map(|d| *d as i64).collect::<Vec<_>>()),
                Meta::Sym => {
                    let dims: Vec<ox::Dim> =
                        (0..i.shape.len()).map(|d| ox::Dim::Sym(format!("{}_d{}", i.name, d))).collect();
                    ox::ValueInfo::new(&i.name, i.dt.onnx(), &dims)
                }
                Meta::Sym0 => {
                    let dims: Vec<ox::Dim> = i
                        .shape
                        .iter()
                        .enumerate()
                        .map(|(d, s)| if d == 0 { ox::Dim::Sym(format!("{}_d0", i.name)) } else { ox::Dim::Fixed(*s as i64) })
                        .collect();
                    ox::ValueInfo::new(&i.name, i.dt.onnx(), &dims)
                }
                Meta::Absent => ox::ValueInfo::typed_no_shape(&i.name, i.dt.onnx()),
                Meta::Untyped => ox::ValueInfo::untyped(&i.name),
            };
            g.inputs.push(vi);
        }
        for (o, dt) in &self.outputs {
            g.outputs.push(ox::ValueInfo::typed_no_shape(o, dt.onnx()));
        }
        g
    }

    pub fn to_bytes(&self) -> Vec<u8> {
        ox::model_bytes(&self.to_onnx())
    }

    pub fn to_json(&self) -> Json {
        let nodes: Vec<Json> = self
            .nodes
            .iter()
            .map(|n| {
                let attrs: Vec<Json> = n
                    .attrs
                    .iter()
                    .map(|(k, a)| match a {
                        AttrV::I(i) => json!({"k": k, "i": i}),
                        AttrV::F(f) => json!({"k": k, "f": num_json(*f as f64)}),
                        AttrV::Is(v) => json!({"k": k, "is": v}),
                        AttrV::S(s) => json!({"k": k, "s": s}),
                        AttrV::T(c) => json!({"k": k, "t": c.to_json()}),
                    })
                    .collect();
                json!({"op": n.op, "domain": n.domain, "in": n.ins, "out": n.outs, "attrs": attrs})
            })
            .collect();
        json!({
            "listing": self.listing(),
            "nodes": nodes,
            "consts": self.consts.iter().map(|c| c.to_json()).collect::<Vec<_>>(),
            "inputs": self.inputs.iter().map(|i| json!({"name": i.name, "dt": i.dt.name(), "meta": i.meta.name(), "shape": i.shape})).collect::<Vec<_>>(),
            "outputs": self.outputs.iter().map(|(n, d)| json!({"name": n, "dt": d.name()})).collect::<Vec<_>>(),
            "runs": self.runs,
        })
    }

    pub fn from_json(j: &Json) -> Prog {
        let strs = |v: &Json| -> Vec<String> {
            v.as_array().map(|a| a.iter().map(|s| s.as_str().unwrap_or("").to_string()).collect()).unwrap_or_default()
        };
        let usizes = |v: &Json| -> Vec<usize> {
            v.as_array().map(|a| a.iter().map(|s| s.as_u64().unwrap_or(0) as usize).collect()).unwrap_or_default()
        };
        let mut p = Prog::new();
        for n in j["nodes"].as_array().cloned().unwrap_or_default() {
            let mut attrs = Vec::new();
            for a in n["attrs"].as_array().cloned().unwrap_or_default() {
                let k = a["k"].as_str().unwrap_or("").to_string();
                let v = if !a["i"].is_null() {
                    AttrV::I(a["i"].as_i64().unwrap_or(0))
                } else if !a["f"].is_null() {
                    AttrV::F(json_num(&a["f"]) as f32)
                } else if !a["is"].is_null() {
                    AttrV::Is(a["is"].as_array().unwrap().iter().map(|v| v.as_i64().unwrap_or(0)).collect())
                } else if !a["s"].is_null() {
                    AttrV::S(a["s"].as_str().unwrap_or("").to_string())
                } else {
                    AttrV::T(Const::from_json(&a["t"]))
                };
                attrs.push((k, v));
            }
            p.nodes.push(NodeS {
                op: n["op"].as_str().unwrap_or("").to_string(),
                domain: n["domain"].as_str().unwrap_or("").to_string(),
                ins: strs(&n["in"]),
                outs: strs(&n["out"]),
                attrs,
            });
        }
        for c in j["consts"].as_array().cloned().unwrap_or_default() {
            p.consts.push(Const::from_json(&c));
        }
        for i in j["inputs"].as_array().cloned().unwrap_or_default() {
            p.inputs.push(InputS {
                name: i["name"].as_str().unwrap_or("").to_string(),
                dt: Dt::parse(i["dt"].as_str().unwrap_or("")),
                meta: Meta::parse(i["meta"].as_str().unwrap_or("")),
                shape: usizes(&i["shape"]),
            });
        }
        for o in j["outputs"].as_array().cloned().unwrap_or_default() {
            p.outputs.push((o["name"].as_str().unwrap_or("").to_string(), Dt::parse(o["dt"].as_str().unwrap_or(""))));
        }
        for r in j["runs"].as_array().cloned().unwrap_or_default() {
            p.runs.push(r.as_array().map(|a| a.iter().map(|s| usizes(s)).collect()).unwrap_or_default());
        }
        if p.nodes.is_empty() || p.outputs.is_empty() {
            vp_core::machinery_error("replay case has no program");
        }
        p
    }

    /// One-line-per-node human readable listing.
    pub fn listing(&self) -> Vec<String> {
        let mut out = Vec::new();
        for i in &self.inputs {
            out.push(format!("input {}: {} {:?} (metadata {})", i.name, i.dt.name(), i.shape, i.meta.name()));
        }
        let cshow = |name: &str| -> String {
            match self.consts.iter().find(|c| c.name == name) {
                Some(c) => format!("{}={}", name, c.show()),
                None => name.to_string(),
            }
        };
        for n in &self.nodes {
            let ins: Vec<String> = n.ins.iter().map(|s| cshow(s)).collect();
            let attrs: Vec<String> = n
                .attrs
                .iter()
                .map(|(k, a)| match a {
                    AttrV::I(i) => format!("{k}={i}"),
                    AttrV::F(f) => format!("{k}={f}"),
                    AttrV::Is(v) => format!("{k}={v:?}"),
                    AttrV::S(s) => format!("{k}={s}"),
                    AttrV::T(c) => format!("{k}={}", c.show()),
                })
                .collect();
            let a = if attrs.is_empty() { String::new() } else { format!(" <{}>", attrs.join(", ")) };
            out.push(format!("{} = {}({}){}", n.outs.join(","), n.op, ins.join(", "), a));
        }
        out.push(format!("outputs: {}", self.outputs.iter().map(|(n, _)| n.as_str()).collect::<Vec<_>>().join(", ")));
        out
    }
}
