//! Shape-arithmetic grammar: every well-typed chain
//! `start ; op_1 ; ... ; op_L ; terminal` over the alphabet
//! {Shape, Gather(i), Slice, Concat, Add, Sub, Mul, Div, Neg, Equal, Where, Cast,
//! Unsqueeze, Squeeze} with constants from {-2,-1,0,1,2,3} as i64 and as
//! integral / non-integral f32, ending in Reshape / Expand / ConstantOfShape /
//! Mul(x, .) / graph output. Dynamic input dims are instantiated with {1,2,3}.

use crate::c01::{Built, Template, ax};
use crate::patterns::B;
use crate::prog::{AttrV, Dt, Meta, fmt_num};

#[derive(Clone, Debug)]
enum COp {
    None,
    Shape,
    Gather { idx: i64, vec: bool },
    Slice { s: i64, e: i64 },
    Concat { c: i64, cur_first: bool },
    Arith { op: &'static str, c: f64, cur_left: bool, vec1: bool },
    Neg,
    Equal { c: i64 },
    /// Where(cur (bool), a, b)
    WhereB { a: f64, b: f64, float: bool },
    /// Where(const cond, cur, c) / Where(const cond, c, cur)
    WhereC { cond: bool, cur_first: bool, c: i64 },
    Cast { to: Dt },
    Unsqueeze,
    Squeeze { axes: bool },
}

#[derive(Clone, Copy, Debug, PartialEq)]
struct Ty {
    dt: Dt,
    rank: usize,
}

impl COp {
    fn show(&self) -> String {
        match self {
            COp::None => "none".into(),
            COp::Shape => "Shape(cur)".into(),
            COp::Gather { idx, vec } => if *vec { format!("Gather(cur, [{idx}])") } else { format!("Gather(cur, {idx})") },
            COp::Slice { s, e } => format!("Slice(cur, [{s}:{}])", if *e == i64::MAX { "MAX".into() } else { e.to_string() }),
            COp::Concat { c, cur_first } => if *cur_first { format!("Concat(cur, [{c}])") } else { format!("Concat([{c}], cur)") },
            COp::Arith { op, c, cur_left, vec1 } => {
                let cs = if *vec1 { format!("[{}]", fmt_num(*c)) } else { fmt_num(*c) };
                let k = if c.fract() != 0.0 { "non-integral const" } else { "const" };
                if *cur_left { format!("{op}(cur, {k} {cs})") } else { format!("{op}({k} {cs}, cur)") }
            }
            COp::Neg => "Neg(cur)".into(),
            COp::Equal { c } => format!("Equal(cur, {c})"),
            COp::WhereB { a, b, float } => format!("Where(cur, {}, {}){}", fmt_num(*a), fmt_num(*b), if *float { " f32" } else { "" }),
            COp::WhereC { cond, cur_first, c } => {
                if *cur_first { format!("Where({cond}, cur, {c})") } else { format!("Where({cond}, {c}, cur)") }
            }
            COp::Cast { to } => format!("Cast(cur, {})", to.name()),
            COp::Unsqueeze => "Unsqueeze(cur, [0])".into(),
            COp::Squeeze { axes } => if *axes { "Squeeze(cur, [0])".into() } else { "Squeeze(cur)".into() },
        }
    }

    /// Coarse kind used in signatures (the exact constants are in the replay's program).
    fn kind(&self, t: Ty) -> String {
        let f = if t.dt == Dt::F32 { "f32 " } else { "" };
        match self {
            COp::None => "none".into(),
            COp::Shape => "Shape".into(),
            COp::Gather { .. } => "Gather".into(),
            COp::Slice { .. } => "Slice".into(),
            COp::Concat { .. } => "Concat".into(),
            COp::Arith { op, vec1, .. } => format!("{f}{op}{}", if *vec1 { " by [1]-shaped const" } else { "" }),
            COp::Neg => "Neg".into(),
            COp::Equal { .. } => "Equal".into(),
            COp::WhereB { .. } => "Where(cur as condition)".into(),
            COp::WhereC { .. } => "Where(const condition)".into(),
            COp::Cast { to } => format!("Cast to {}", to.name()),
            COp::Unsqueeze => "Unsqueeze".into(),
            COp::Squeeze { .. } => "Squeeze".into(),
        }
    }

    /// Typing rule: result type, or None if the op does not apply.
    fn ty(&self, t: Ty) -> Option<Ty> {
        let num = t.dt == Dt::I64 || t.dt == Dt::F32;
        match self {
            COp::None => Some(t),
            COp::Shape => Some(Ty { dt: Dt::I64, rank: 1 }),
            COp::Gather { vec, .. } => (t.rank >= 1).then(|| Ty { dt: t.dt, rank: if *vec { t.rank } else { t.rank - 1 } }),
            COp::Slice { .. } => (t.rank >= 1).then_some(t),
            COp::Concat { .. } => (t.rank == 1 && num).then_some(t),
            COp::Arith { c, vec1, .. } => {
                if !num || (t.dt == Dt::I64 && c.fract() != 0.0) {
                    return None;
                }
                Some(Ty { dt: t.dt, rank: t.rank.max(if *vec1 { 1 } else { 0 }) })
            }
            COp::Neg => num.then_some(t),
            COp::Equal { .. } => num.then_some(Ty { dt: Dt::Bool, rank: t.rank }),
            COp::WhereB { float, .. } => (t.dt == Dt::Bool).then_some(Ty { dt: if *float { Dt::F32 } else { Dt::I64 }, rank: t.rank.max(1) }),
            COp::WhereC { .. } => num.then_some(Ty { dt: t.dt, rank: t.rank.max(1) }),
            COp::Cast { to } => Some(Ty { dt: *to, rank: t.rank }),
            COp::Unsqueeze => (t.rank <= 1).then_some(Ty { dt: t.dt, rank: t.rank + 1 }),
            COp::Squeeze { .. } => (t.rank >= 1).then_some(Ty { dt: t.dt, rank: t.rank - 1 }),
        }
    }

    fn emit(&self, b: &mut B, cur: &str, t: Ty) -> String {
        let cst = |b: &mut B, dims: &[i64], v: f64| -> String {
            let n: usize = dims.iter().map(|d| *d as usize).product();
            if t.dt == Dt::F32 { b.cf(dims, &vec![v as f32; n]) } else { b.ci(dims, &vec![v as i64; n]) }
        };
        match self {
            COp::None => cur.to_string(),
            COp::Shape => b.op("Shape", &[cur]),
            COp::Gather { idx, vec } => {
                let i = if *vec { b.ci(&[1], &[*idx]) } else { b.ci(&[], &[*idx]) };
                b.opa("Gather", &[cur, &i], vec![("axis", AttrV::I(0))])
            }
            COp::Slice { s, e } => {
                let st = b.ci(&[1], &[*s]);
                let en = b.ci(&[1], &[*e]);
                let a = b.ci(&[1], &[0]);
                b.op("Slice", &[cur, &st, &en, &a])
            }
            COp::Concat { c, cur_first } => {
                let k = cst(b, &[1], *c as f64);
                if *cur_first { b.opa("Concat", &[cur, &k], vec![("axis", AttrV::I(0))]) } else { b.opa("Concat", &[&k, cur], vec![("axis", AttrV::I(0))]) }
            }
            COp::Arith { op, c, cur_left, vec1 } => {
                let k = cst(b, if *vec1 { &[1] } else { &[] }, *c);
                if *cur_left { b.op(op, &[cur, &k]) } else { b.op(op, &[&k, cur]) }
            }
            COp::Neg => b.op("Neg", &[cur]),
            COp::Equal { c } => {
                let k = cst(b, &[], *c as f64);
                b.op("Equal", &[cur, &k])
            }
            COp::WhereB { a, b: bb, float } => {
                let (ka, kb) = if *float { (b.cf(&[1], &[*a as f32]), b.cf(&[1], &[*bb as f32])) } else { (b.ci(&[1], &[*a as i64]), b.ci(&[1], &[*bb as i64])) };
                b.op("Where", &[cur, &ka, &kb])
            }
            COp::WhereC { cond, cur_first, c } => {
                let kc = b.cdt(Dt::Bool, &[1], &[if *cond { 1.0 } else { 0.0 }]);
                let k = cst(b, &[1], *c as f64);
                if *cur_first { b.op("Where", &[&kc, cur, &k]) } else { b.op("Where", &[&kc, &k, cur]) }
            }
            COp::Cast { to } => b.opa("Cast", &[cur], vec![("to", AttrV::I(to.onnx() as i64))]),
            COp::Unsqueeze => {
                let a = b.ci(&[1], &[0]);
                b.op("Unsqueeze", &[cur, &a])
            }
            COp::Squeeze { axes } => {
                if *axes {
                    let a = b.ci(&[1], &[0]);
                    b.op("Squeeze", &[cur, &a])
                } else {
                    b.op("Squeeze", &[cur])
                }
            }
        }
    }
}


/// Concrete value of the chain's current tensor, used only as a guard: a
/// program whose `Expand` / `ConstantOfShape` terminal would allocate a huge
/// tensor in the *reference* run (e.g. `Cast(2.0 / 0.0, int64)` = i32::MAX
/// elements) is not generated. `None` = not statically known (treated as huge).
#[derive(Clone, Debug)]
struct Val {
    dims: Vec<usize>,
    vals: Vec<f64>,
    float: bool,
}

impl COp {
    fn interp(&self, v: &Val) -> Option<Val> {
        let n0 = v.dims.first().copied();
        let inner: usize = v.dims.iter().skip(1).product();
        let bc = |v: &Val, vec1: bool| -> Vec<usize> { if vec1 && v.dims.is_empty() { vec![1] } else { v.dims.clone() } };
        match self {
            COp::None => Some(v.clone()),
            COp::Shape => Some(Val { dims: vec![v.dims.len()], vals: v.dims.iter().map(|d| *d as f64).collect(), float: false }),
            COp::Gather { idx, vec } => {
                let n = n0? as i64;
                let i = if *idx < 0 { idx + n } else { *idx };
                if i < 0 || i >= n {
                    return None;
                }
                let vals = v.vals[i as usize * inner..(i as usize + 1) * inner].to_vec();
                let mut dims: Vec<usize> = v.dims[1..].to_vec();
                if *vec {
                    dims.insert(0, 1);
                }
                Some(Val { dims, vals, float: v.float })
            }
            COp::Slice { s, e } => {
                let n = n0? as i64;
                let cl = |i: i64| -> i64 { (if i < 0 { i + n } else { i }).clamp(0, n) };
                let (a, b) = (cl(*s), cl((*e).min(i32::MAX as i64)));
                let len = (b - a).max(0) as usize;
                let vals = v.vals[a as usize * inner..(a as usize + len) * inner].to_vec();
                let mut dims = v.dims.clone();
                dims[0] = len;
                Some(Val { dims, vals, float: v.float })
            }
            COp::Concat { c, cur_first } => {
                if v.dims.len() != 1 {
                    return None;
                }
                let mut vals = v.vals.clone();
                if *cur_first { vals.push(*c as f64) } else { vals.insert(0, *c as f64) }
                Some(Val { dims: vec![vals.len()], vals, float: v.float })
            }
            COp::Arith { op, c, cur_left, vec1 } => {
                let f = |x: f64| -> Option<f64> {
                    let (a, b) = if *cur_left { (x, *c) } else { (*c, x) };
                    if v.float {
                        let (a, b) = (a as f32, b as f32);
                        Some(match *op { "Add" => a + b, "Sub" => a - b, "Mul" => a * b, _ => a / b } as f64)
                    } else {
                        let (a, b) = (a as i64, b as i64);
                        Some(match *op {
                            "Add" => a + b,
                            "Sub" => a - b,
                            "Mul" => a * b,
                            _ => {
                                if b == 0 {
                                    return None;
                                }
                                a / b
                            }
                        } as f64)
                    }
                };
                let vals: Option<Vec<f64>> = v.vals.iter().map(|x| f(*x)).collect();
                Some(Val { dims: bc(v, *vec1), vals: vals?, float: v.float })
            }
            COp::Neg => Some(Val { dims: v.dims.clone(), vals: v.vals.iter().map(|x| -x).collect(), float: v.float }),
            COp::Equal { c } => Some(Val { dims: v.dims.clone(), vals: v.vals.iter().map(|x| (*x == *c as f64) as i32 as f64).collect(), float: false }),
            COp::WhereB { a, b, float } => Some(Val { dims: bc(v, true), vals: v.vals.iter().map(|x| if *x != 0.0 { *a } else { *b }).collect(), float: *float }),
            COp::WhereC { cond, cur_first, c } => {
                let take_cur = *cond == *cur_first;
                Some(Val { dims: bc(v, true), vals: v.vals.iter().map(|x| if take_cur { *x } else { *c as f64 }).collect(), float: v.float })
            }
            COp::Cast { to } => {
                let to_float = *to == Dt::F32;
                let vals = v
                    .vals
                    .iter()
                    .map(|x| if v.float && !to_float { if x.is_nan() { 0.0 } else { x.trunc().clamp(i32::MIN as f64, i32::MAX as f64) } } else { *x })
                    .collect();
                Some(Val { dims: v.dims.clone(), vals, float: to_float })
            }
            COp::Unsqueeze => {
                let mut dims = v.dims.clone();
                dims.insert(0, 1);
                Some(Val { dims, vals: v.vals.clone(), float: v.float })
            }
            COp::Squeeze { axes } => {
                let mut dims = v.dims.clone();
                if *axes {
                    if dims.first() != Some(&1) {
                        return None;
                    }
                    dims.remove(0);
                } else {
                    dims.retain(|d| *d != 1);
                }
                Some(Val { dims, vals: v.vals.clone(), float: v.float })
            }
        }
    }
}

/// Is the shape described by `v` small enough to be materialised safely?
fn small_shape(v: &Option<Val>) -> bool {
    match v {
        Some(v) => v.vals.iter().all(|d| d.is_finite() && *d >= -64.0 && *d <= 64.0) && v.vals.iter().map(|d| d.abs().max(1.0)).product::<f64>() <= 4096.0,
        None => false,
    }
}

/// level 2 = full alphabet, 1 = medium, 0 = small. Index 0 is always `None`.
fn alphabet(level: usize) -> Vec<COp> {
    let mut v = vec![COp::None, COp::Shape];
    let gathers: &[i64] = if level == 2 { &[0, 1, -1, 2] } else { &[0, -1] };
    for i in gathers {
        v.push(COp::Gather { idx: *i, vec: false });
    }
    if level >= 1 {
        v.push(COp::Gather { idx: 1, vec: true });
    }
    let slices: &[(i64, i64)] = match level {
        2 => &[(0, 1), (1, 3), (-1, i64::MAX), (0, -1), (1, 2), (2, i64::MAX)],
        1 => &[(0, 1), (1, 3), (-1, i64::MAX)],
        _ => &[(0, 1), (1, 3)],
    };
    for (s, e) in slices {
        v.push(COp::Slice { s: *s, e: *e });
    }
    let concats: &[(i64, bool)] = match level {
        2 => &[(2, true), (2, false), (-1, true), (-1, false)],
        1 => &[(2, true), (-1, false)],
        _ => &[(2, true)],
    };
    for (c, f) in concats {
        v.push(COp::Concat { c: *c, cur_first: *f });
    }
    let ints: &[f64] = match level {
        2 => &[2.0, 3.0, -1.0, 0.0, 1.0, -2.0],
        1 => &[2.0, 3.0, -1.0, 0.0],
        _ => &[2.0],
    };
    let fracs: &[f64] = match level {
        2 => &[1.5, 0.5, 2.5],
        1 => &[1.5],
        _ => &[],
    };
    for op in ["Div", "Mul", "Add", "Sub"] {
        for cur_left in [true, false] {
            for c in ints {
                v.push(COp::Arith { op, c: *c, cur_left, vec1: false });
            }
            if level == 0 && (op == "Div" || op == "Mul") {
                v.push(COp::Arith { op, c: -1.0, cur_left, vec1: false });
            }
            if level >= 1 {
                v.push(COp::Arith { op, c: 2.0, cur_left, vec1: true });
            }
            for c in fracs {
                v.push(COp::Arith { op, c: *c, cur_left, vec1: false });
            }
        }
    }
    v.push(COp::Neg);
    let eqs: &[i64] = match level {
        2 => &[2, 3, 0, 1, -1, -2],
        1 => &[2, 3, 0],
        _ => &[2, 3],
    };
    for c in eqs {
        v.push(COp::Equal { c: *c });
    }
    v.push(COp::WhereB { a: 1.0, b: 0.0, float: false });
    if level >= 1 {
        v.push(COp::WhereB { a: 2.0, b: 3.0, float: false });
        v.push(COp::WhereB { a: 2.0, b: 3.0, float: true });
    }
    v.push(COp::WhereC { cond: true, cur_first: true, c: 0 });
    if level >= 1 {
        v.push(COp::WhereC { cond: false, cur_first: true, c: -1 });
        v.push(COp::WhereC { cond: true, cur_first: false, c: -1 });
        v.push(COp::WhereC { cond: false, cur_first: false, c: 0 });
    }
    for to in [Dt::I64, Dt::F32, Dt::Bool] {
        v.push(COp::Cast { to });
    }
    v.push(COp::Unsqueeze);
    v.push(COp::Squeeze { axes: true });
    if level >= 1 {
        v.push(COp::Squeeze { axes: false });
    }
    v
}

/// Starts: Shape(x) under each input metadata, then constants.
const N_STARTS: usize = 9;
const N_TERMS: usize = 5;

fn start_desc(i: usize) -> (&'static str, Meta) {
    match i {
        0 => ("Shape(x), x fixed [2,2,3]", Meta::Fixed),
        1 => ("Shape(x), x [d0,2,3] with d0 symbolic", Meta::Sym0),
        2 => ("Shape(x), all dims symbolic", Meta::Sym),
        3 => ("Shape(x), no shape metadata", Meta::Absent),
        4 => ("i64 scalar const 3", Meta::Fixed),
        5 => ("f32 scalar const 3.0", Meta::Fixed),
        6 => ("f32 scalar const 2.5", Meta::Fixed),
        7 => ("i64 vector const [2,-2]", Meta::Fixed),
        _ => ("f32 vector const [2.0,3.0]", Meta::Fixed),
    }
}

pub fn templates(thorough: bool) -> Vec<Template> {
    let levels: Vec<usize> = if thorough { vec![2, 2, 0] } else { vec![2, 1] };
    let alphas: Vec<Vec<COp>> = levels.iter().map(|l| alphabet(*l)).collect();
    let l = alphas.len();
    let mut axes = vec![ax("start", N_STARTS, true)];
    for (i, a) in alphas.iter().enumerate() {
        axes.push(ax(["op1", "op2", "op3"][i], a.len(), true));
    }
    axes.push(ax("terminal", N_TERMS, true));
    let alphas2 = alphas.clone();
    let build = move |p: &[usize]| -> Option<Built> {
        let ops: Vec<&COp> = (0..l).map(|i| &alphas[i][p[1 + i]]).collect();
        // canonical form: `None` only at the end
        for i in 1..l {
            if !matches!(ops[i], COp::None) && matches!(ops[i - 1], COp::None) {
                return None;
            }
        }
        let (stag, meta) = start_desc(p[0]);
        let mut t = match p[0] {
            0..=3 => Ty { dt: Dt::I64, rank: 1 },
            4 => Ty { dt: Dt::I64, rank: 0 },
            5 | 6 => Ty { dt: Dt::F32, rank: 0 },
            7 => Ty { dt: Dt::I64, rank: 1 },
            _ => Ty { dt: Dt::F32, rank: 1 },
        };
        // type check first (cheap)
        let mut tys = vec![t];
        for o in &ops {
            t = o.ty(t)?;
            tys.push(t);
        }
        let term = p[1 + l];
        let term_ok = match term {
            0 => true,
            1 | 2 | 3 => t.dt == Dt::I64 && t.rank == 1,
            _ => t.dt == Dt::F32 && t.rank <= 1,
        };
        if !term_ok {
            return None;
        }
        if term == 2 || term == 3 {
            // Grammar rule: no allocating terminal after a float division. With the float-as-integer
            // folding defect (FINDINGS F3) the *optimized* load can turn such a chain into
            // `Cast(x / 0.0)` = i32::MAX and abort the process on an 8 GiB allocation.
            if ops.iter().enumerate().any(|(i, o)| matches!(o, COp::Arith { op: "Div", .. }) && tys[i].dt == Dt::F32) {
                return None;
            }
            let d0s: &[usize] = if meta == Meta::Fixed { &[2] } else { &[2, 1, 3] };
            for d0 in d0s {
                let mut v = Some(match p[0] {
                    0..=3 => Val { dims: vec![3], vals: vec![*d0 as f64, 2.0, 3.0], float: false },
                    4 => Val { dims: vec![], vals: vec![3.0], float: false },
                    5 => Val { dims: vec![], vals: vec![3.0], float: true },
                    6 => Val { dims: vec![], vals: vec![2.5], float: true },
                    7 => Val { dims: vec![2], vals: vec![2.0, -2.0], float: false },
                    _ => Val { dims: vec![2], vals: vec![2.0, 3.0], float: true },
                });
                for o in &ops {
                    v = v.and_then(|v| o.interp(&v));
                }
                if !small_shape(&v) {
                    // would allocate a huge tensor (or is not statically known): not generated
                    return None;
                }
            }
        }
        let mut b = B::new();
        let x = b.input("x", Dt::F32, &[2, 2, 3], meta, None);
        let mut cur = match p[0] {
            0..=3 => b.op("Shape", &[&x]),
            4 => b.ci(&[], &[3]),
            5 => b.cf(&[], &[3.0]),
            6 => b.cf(&[], &[2.5]),
            7 => b.ci(&[2], &[2, -2]),
            _ => b.cf(&[2], &[2.0, 3.0]),
        };
        for (i, o) in ops.iter().enumerate() {
            cur = o.emit(&mut b, &cur, tys[i]);
        }
        if p[0] >= 4 && ops.iter().all(|o| matches!(o, COp::None)) {
            // a bare constant is not an operator output; route it through Identity-free Cast-free op: skip
            return None;
        }
        let ttag = match term {
            0 => {
                b.out(&cur, t.dt);
                "graph output"
            }
            1 => {
                let y = b.op("Reshape", &[&x, &cur]);
                b.out(&y, Dt::F32);
                "Reshape(x, cur)"
            }
            2 => {
                let one = b.cf(&[1], &[1.5]);
                let y = b.op("Expand", &[&one, &cur]);
                b.out(&y, Dt::F32);
                "Expand(const, cur)"
            }
            3 => {
                let y = b.op("ConstantOfShape", &[&cur]);
                b.out(&y, Dt::F32);
                "ConstantOfShape(cur)"
            }
            _ => {
                let y = b.op("Mul", &[&x, &cur]);
                b.out(&y, Dt::F32);
                "Mul(x, cur)"
            }
        };
        let mut prog = b.finish();
        if meta != Meta::Fixed {
            prog.runs = vec![vec![vec![2, 2, 3]], vec![vec![1, 2, 3]], vec![vec![3, 2, 3]]];
        }
        let _ = stag;
        let start_class = match p[0] {
            0 => "Shape(x) of a fixed-shape input",
            1..=3 => "Shape(x) of an input with symbolic or undeclared dims",
            4 | 7 => "i64 constant",
            _ => "f32 constant",
        };
        let mut tags = vec![start_class.to_string()];
        tags.extend(ops.iter().enumerate().map(|(i, o)| o.kind(tys[i])));
        tags.push(ttag.to_string());
        Some(Built { prog, tags })
    };
    let normalize = move |q: &mut Vec<usize>| {
        let mut ops: Vec<usize> = (0..l).map(|i| q[1 + i]).filter(|v| *v != 0).collect();
        // an op index is only meaningful for its own position's alphabet: map through the op description
        // (alphabets of different positions differ); recompute indices by structural equality of `show()`.
        let shown: Vec<String> = {
            let mut s = Vec::new();
            let mut k = 0;
            for i in 0..l {
                if q[1 + i] != 0 {
                    s.push(alphas2[i][q[1 + i]].show());
                    k += 1;
                }
            }
            let _ = k;
            s
        };
        ops.clear();
        let mut okay = true;
        for (pos, sh) in shown.iter().enumerate() {
            match alphas2[pos].iter().position(|o| o.show() == *sh) {
                Some(ix) => ops.push(ix),
                None => okay = false,
            }
        }
        if !okay {
            return; // cannot be expressed at the earlier position: leave as is (not buildable)
        }
        for i in 0..l {
            q[1 + i] = ops.get(i).copied().unwrap_or(0);
        }
    };
    vec![Template {
        name: "ShapeArithmetic".to_string(),
        generator: "shape-arithmetic",
        fusion: None,
        axes,
        build: Box::new(build),
        fired: Box::new(|_, _| false),
        normalize: Some(Box::new(normalize)),
    }]
}
