use rten_tensor::prelude::*;
use rten_tensor::{SliceItem, SliceRange, Tensor};
fn main() {
    let t = Tensor::from_data(&[1], vec![5.0f32]);
    for (st, en, sp) in [(-1isize, 1isize, -1isize), (-1, -4, -1), (-4, 1, -1), (0, 1, -1), (0, -4, -1), (1, 2147483647, -1)] {
        let r = SliceRange::new(st, Some(en), sp);
        let c = r.clamp(1);
        let steps = r.steps(1);
        let resolved = c.resolve(1);
        let out = t.slice_copy(&[SliceItem::Range(c)][..]);
        println!("x[1] [{st}:{en}:{sp}] clamp={:?} steps()={} resolve={:?} slice_copy len={}", c, steps, resolved, out.len());
    }
    let t = Tensor::from_data(&[3], vec![5.0f32, 6., 7.]);
    for (st, en, sp) in [(-1isize, 1isize, -1isize), (2, 0, -1), (-1, -5, -1), (-5, 1, -1), (1, 3, -1), (5, -5, -2)] {
        let r = SliceRange::new(st, Some(en), sp);
        let c = r.clamp(3);
        let out = t.slice_copy(&[SliceItem::Range(c)][..]);
        println!("x[3] [{st}:{en}:{sp}] clamp={:?} steps()={} resolve={:?} slice_copy={:?}", c, r.steps(3), c.resolve(3), out.to_vec());
    }
}
