//! C10 — shape inference never contradicts execution.
//!
//! For every catalogue case (a concrete single-operator model or a short
//! shape-arithmetic chain with concrete input shapes and values) the engine
//! derives every *symbolic variant*: each dimension of each graph input is
//! declared either fixed (`dim_value`) or symbolic (`dim_param`), for all masks
//! and two naming policies (all symbols distinct / equal sizes share a symbol).
//! Each variant is encoded as ONNX bytes (vp-onnx), loaded with optimization
//! off, shape inference is run on the loaded graph
//! (`rten::verif::infer_shapes::infer_shapes`), and the same model is executed
//! on the concrete inputs. For every value produced by a node (all are graph
//! outputs) the inferred rank / fixed dims / symbolic dims (evaluated by the
//! harness's own evaluator under the instantiation) / constant values are
//! compared with the executed tensor. Only contradictions count: inference
//! errors, unknown ranks, synthetic `unknown_N` symbols and failed executions
//! claim nothing.

use std::collections::{BTreeMap, HashMap};
use std::sync::Arc;

use rten::verif::infer_shapes::{InferShapeOptions, Shape, infer_shapes};
use rten::{Dimension, Model, ModelOptions, RunOptions, ThreadPool, Value, ValueOrView};
use rten_shape_inference::Constant;
use rten_tensor::Tensor;
use rten_tensor::prelude::*;
use vp_core::{Ctx, Json, Tier, json};
use vp_onnx::{Attr, Dim, Graph, Node, ValueInfo, dtype};

use crate::c10_catalogue;
use crate::symeval::{self as se, PExpr};

// ---------------------------------------------------------------------------
// Case description

#[derive(Clone, Debug, PartialEq)]
pub enum Data {
    F(Vec<f32>),
    /// int32 / int64 / bool / uint8 / int8 payloads
    I(Vec<i64>),
}

#[derive(Clone, Debug, PartialEq)]
pub struct TIn {
    pub name: String,
    /// ONNX element type code
    pub dtype: i32,
    pub shape: Vec<usize>,
    pub data: Data,
    /// true: stored as an initializer (inference sees a constant);
    /// false: graph input (inference sees the declared dims only)
    pub init: bool,
}

impl TIn {
    /// Float graph input / initializer filled with small exact values.
    pub fn f32(name: &str, shape: &[usize]) -> TIn {
        let n: usize = shape.iter().product();
        TIn {
            name: name.into(),
            dtype: dtype::FLOAT,
            shape: shape.to_vec(),
            data: Data::F((0..n).map(|i| ((i % 7) as f32) * 0.5 - 1.0).collect()),
            init: false,
        }
    }
    pub fn ints(name: &str, dt: i32, shape: &[usize], vals: &[i64]) -> TIn {
        assert_eq!(shape.iter().product::<usize>(), vals.len(), "TIn::ints {name}");
        TIn { name: name.into(), dtype: dt, shape: shape.to_vec(), data: Data::I(vals.to_vec()), init: false }
    }
    pub fn floats(name: &str, shape: &[usize], vals: &[f32]) -> TIn {
        assert_eq!(shape.iter().product::<usize>(), vals.len(), "TIn::floats {name}");
        TIn { name: name.into(), dtype: dtype::FLOAT, shape: shape.to_vec(), data: Data::F(vals.to_vec()), init: false }
    }
    /// 1-D int64 vector
    pub fn vec_i64(name: &str, vals: &[i64]) -> TIn {
        TIn::ints(name, dtype::INT64, &[vals.len()], vals)
    }
    pub fn scalar_i64(name: &str, v: i64) -> TIn {
        TIn::ints(name, dtype::INT64, &[], &[v])
    }
    /// Make float data strictly positive (for Log/Sqrt-like reductions, variances).
    pub fn positive(mut self) -> TIn {
        if let Data::F(v) = &mut self.data {
            for x in v.iter_mut() {
                *x = x.abs() + 0.5;
            }
        }
        self
    }
    pub fn as_init(mut self) -> TIn {
        self.init = true;
        self
    }
    /// Integer-typed data with small values.
    pub fn int_data(name: &str, dt: i32, shape: &[usize]) -> TIn {
        let n: usize = shape.iter().product();
        TIn::ints(name, dt, shape, &(0..n).map(|i| (i % 5) as i64).collect::<Vec<_>>())
    }
}

#[derive(Clone, Debug, PartialEq)]
pub struct Case {
    /// catalogue entry that produced the case (operator + attribute point)
    pub entry: String,
    /// discriminating input feature used in signatures (coarse, per entry)
    pub feature: String,
    /// operator the feature describes; a contradiction at any other node of a
    /// chain gets the feature "general". None: applies to every node.
    pub feature_op: Option<String>,
    pub nodes: Vec<Node>,
    pub inputs: Vec<TIn>,
    pub opset: i64,
}

impl Case {
    pub fn new(entry: &str, feature: &str, nodes: Vec<Node>, inputs: Vec<TIn>) -> Case {
        Case { entry: entry.into(), feature: feature.into(), feature_op: None, nodes, inputs, opset: vp_onnx::DEFAULT_OPSET }
    }
    pub fn feature_for(mut self, op: &str) -> Case {
        self.feature_op = Some(op.into());
        self
    }
    pub fn opset(mut self, v: i64) -> Case {
        self.opset = v;
        self
    }
    /// names of all values produced by nodes, in node order
    fn produced(&self) -> Vec<(usize, String)> {
        let mut out = Vec::new();
        for (i, n) in self.nodes.iter().enumerate() {
            for o in &n.outputs {
                if !o.is_empty() {
                    out.push((i, o.clone()));
                }
            }
        }
        out
    }
}

// ---------------------------------------------------------------------------
// JSON round trip (replay artefacts)

fn attr_to_json(a: &Attr) -> Json {
    match a {
        Attr::Int(i) => json!({"int": i}),
        Attr::Float(f) => json!({"float": f}),
        Attr::Str(s) => json!({"str": s}),
        Attr::Ints(v) => json!({"ints": v}),
        Attr::Floats(v) => json!({"floats": v}),
        Attr::Strs(v) => json!({"strs": v}),
        Attr::Tensor(t) => {
            let (kind, vals): (&str, Json) = match &t.data {
                vp_onnx::TensorData::Raw(b) => ("raw", json!(b)),
                _ => ("unsupported", Json::Null),
            };
            json!({"tensor": {"dims": t.dims, "data_type": t.data_type, kind: vals}})
        }
        Attr::Graph(_) => json!({"graph": "unsupported"}),
    }
}

fn attr_from_json(j: &Json) -> Attr {
    let ints = |v: &Json| v.as_array().unwrap().iter().map(|x| x.as_i64().unwrap()).collect::<Vec<_>>();
    if let Some(v) = j.get("int") {
        Attr::Int(v.as_i64().unwrap())
    } else if let Some(v) = j.get("float") {
        Attr::Float(v.as_f64().unwrap() as f32)
    } else if let Some(v) = j.get("str") {
        Attr::Str(v.as_str().unwrap().into())
    } else if let Some(v) = j.get("ints") {
        Attr::Ints(ints(v))
    } else if let Some(v) = j.get("floats") {
        Attr::Floats(v.as_array().unwrap().iter().map(|x| x.as_f64().unwrap() as f32).collect())
    } else if let Some(v) = j.get("strs") {
        Attr::Strs(v.as_array().unwrap().iter().map(|x| x.as_str().unwrap().to_string()).collect())
    } else if let Some(t) = j.get("tensor") {
        Attr::Tensor(vp_onnx::Tensor {
            name: String::new(),
            dims: ints(&t["dims"]),
            data_type: t["data_type"].as_i64().unwrap() as i32,
            data: vp_onnx::TensorData::Raw(t["raw"].as_array().unwrap().iter().map(|x| x.as_u64().unwrap() as u8).collect()),
        })
    } else {
        vp_core::machinery_error("C10 replay: unsupported attribute")
    }
}

pub fn case_to_json(c: &Case) -> Json {
    json!({
        "entry": c.entry,
        "feature": c.feature,
        "feature_op": c.feature_op,
        "opset": c.opset,
        "nodes": c.nodes.iter().map(|n| json!({
            "op_type": n.op_type, "domain": n.domain, "inputs": n.inputs, "outputs": n.outputs,
            "attrs": n.attrs.iter().map(|(k, a)| json!([k, attr_to_json(a)])).collect::<Vec<_>>(),
        })).collect::<Vec<_>>(),
        "inputs": c.inputs.iter().map(|t| json!({
            "name": t.name, "dtype": t.dtype, "shape": t.shape, "init": t.init,
            "data": match &t.data { Data::F(v) => json!({"f": v}), Data::I(v) => json!({"i": v}) },
        })).collect::<Vec<_>>(),
    })
}

pub fn case_from_json(j: &Json) -> Case {
    let s = |v: &Json| v.as_str().unwrap_or("").to_string();
    let strs = |v: &Json| v.as_array().unwrap().iter().map(|x| x.as_str().unwrap().to_string()).collect::<Vec<_>>();
    Case {
        entry: s(&j["entry"]),
        feature: s(&j["feature"]),
        feature_op: j["feature_op"].as_str().map(|x| x.to_string()),
        opset: j["opset"].as_i64().unwrap_or(vp_onnx::DEFAULT_OPSET),
        nodes: j["nodes"]
            .as_array()
            .unwrap()
            .iter()
            .map(|n| Node {
                op_type: s(&n["op_type"]),
                domain: s(&n["domain"]),
                name: format!("{}_{}", s(&n["op_type"]), strs(&n["outputs"]).first().cloned().unwrap_or_default()),
                inputs: strs(&n["inputs"]),
                outputs: strs(&n["outputs"]),
                attrs: n["attrs"].as_array().unwrap().iter().map(|kv| (s(&kv[0]), attr_from_json(&kv[1]))).collect(),
            })
            .collect(),
        inputs: j["inputs"]
            .as_array()
            .unwrap()
            .iter()
            .map(|t| TIn {
                name: s(&t["name"]),
                dtype: t["dtype"].as_i64().unwrap() as i32,
                shape: t["shape"].as_array().unwrap().iter().map(|x| x.as_u64().unwrap() as usize).collect(),
                init: t["init"].as_bool().unwrap(),
                data: if let Some(f) = t["data"].get("f") {
                    Data::F(f.as_array().unwrap().iter().map(|x| x.as_f64().map(|v| v as f32).unwrap_or(f32::NAN)).collect())
                } else {
                    Data::I(t["data"]["i"].as_array().unwrap().iter().map(|x| x.as_i64().unwrap()).collect())
                },
            })
            .collect(),
    }
}

// ---------------------------------------------------------------------------
// Variants (fixed/symbolic masks and symbol naming)

#[derive(Clone, Copy, Debug, PartialEq, Eq)]
pub enum Naming {
    /// every symbolic dim has its own symbol
    Distinct,
    /// symbolic dims of equal size share a symbol
    ByValue,
}

#[derive(Clone, Debug)]
pub struct Variant {
    /// one flag per dimension of every graph input (in input order): true = symbolic
    pub mask: Vec<bool>,
    pub naming: Naming,
}

fn graph_input_dims(c: &Case) -> usize {
    c.inputs.iter().filter(|t| !t.init).map(|t| t.shape.len()).sum()
}

/// Maximum number of input dims for which all 2^n masks are enumerated.
const FULL_MASK_DIMS: usize = 8;

fn variants(c: &Case) -> (Vec<Variant>, bool) {
    let n = graph_input_dims(c);
    let mut masks: Vec<Vec<bool>> = Vec::new();
    let full = n <= FULL_MASK_DIMS;
    if full {
        for m in 0u32..(1u32 << n) {
            masks.push((0..n).map(|i| m >> i & 1 == 1).collect());
        }
    } else {
        // all-fixed, all-symbolic, and every single-dim flip of both
        masks.push(vec![false; n]);
        masks.push(vec![true; n]);
        for i in 0..n {
            let mut a = vec![false; n];
            a[i] = true;
            masks.push(a);
            let mut b = vec![true; n];
            b[i] = false;
            masks.push(b);
        }
    }
    let mut out = Vec::new();
    for mask in masks {
        let nsym = mask.iter().filter(|b| **b).count();
        out.push(Variant { mask: mask.clone(), naming: Naming::Distinct });
        if nsym >= 2 {
            out.push(Variant { mask, naming: Naming::ByValue });
        }
    }
    (out, full)
}

/// Encode a graph as ModelProto bytes. Same layout as `vp_onnx::Graph::to_model_bytes`,
/// except that repeated `ints` / `floats` attribute fields are written UNPACKED
/// (one tag per element): rten's AttributeProto decoder rejects the packed form
/// that vp-onnx emits ("field type mismatch").
fn model_bytes_unpacked(g: &Graph, opset: i64) -> Vec<u8> {
    use vp_onnx::pb::Msg;
    fn node_msg(n: &Node) -> Msg {
        let mut m = Msg::new();
        for i in &n.inputs {
            m.string(1, i);
        }
        for o in &n.outputs {
            m.string(2, o);
        }
        if !n.name.is_empty() {
            m.string(3, &n.name);
        }
        m.string(4, &n.op_type);
        for (name, a) in &n.attrs {
            let mut am = Msg::new();
            am.string(1, name);
            match a {
                Attr::Int(i) => {
                    am.varint(3, *i as u64);
                    am.varint(20, 2);
                }
                Attr::Float(f) => {
                    am.fixed32(2, f.to_bits());
                    am.varint(20, 1);
                }
                Attr::Str(s) => {
                    am.bytes(4, s.as_bytes());
                    am.varint(20, 3);
                }
                Attr::Ints(v) => {
                    for x in v {
                        am.varint(8, *x as u64);
                    }
                    am.varint(20, 7);
                }
                Attr::Floats(v) => {
                    for x in v {
                        am.fixed32(7, x.to_bits());
                    }
                    am.varint(20, 6);
                }
                Attr::Strs(v) => {
                    for s in v {
                        am.bytes(9, s.as_bytes());
                    }
                    am.varint(20, 8);
                }
                Attr::Tensor(t) => {
                    am.msg(5, &t.encode());
                    am.varint(20, 4);
                }
                Attr::Graph(sub) => {
                    am.msg(6, &graph_msg(sub));
                    am.varint(20, 5);
                }
            }
            m.msg(5, &am);
        }
        if !n.domain.is_empty() {
            m.string(7, &n.domain);
        }
        m
    }
    fn graph_msg(g: &Graph) -> Msg {
        let mut m = Msg::new();
        for n in &g.nodes {
            m.msg(1, &node_msg(n));
        }
        m.string(2, &g.name);
        for t in &g.initializers {
            m.msg(5, &t.encode());
        }
        for v in &g.inputs {
            m.msg(11, &v.encode());
        }
        for v in &g.outputs {
            m.msg(12, &v.encode());
        }
        for v in &g.value_infos {
            m.msg(13, &v.encode());
        }
        m
    }
    let mut m = Msg::new();
    m.varint(1, 8);
    m.string(2, "mc-shape");
    m.msg(7, &graph_msg(g));
    let mut os = Msg::new();
    os.string(1, "");
    os.varint(2, opset as u64);
    m.msg(8, &os);
    let mut ms = Msg::new();
    ms.string(1, "com.microsoft");
    ms.varint(2, 1);
    m.msg(8, &ms);
    m.into_bytes()
}

/// Build the ONNX graph of a variant and the symbol environment it implies.
fn build(c: &Case, v: &Variant) -> (Graph, Vec<(String, i64)>) {
    let mut g = Graph::new("c10");
    g.nodes = c.nodes.clone();
    let mut env: Vec<(String, i64)> = Vec::new();
    let mut k = 0usize;
    for (ii, t) in c.inputs.iter().enumerate() {
        if t.init {
            let dims: Vec<i64> = t.shape.iter().map(|d| *d as i64).collect();
            let tensor = match (&t.data, t.dtype) {
                (Data::F(v), dtype::FLOAT) => vp_onnx::Tensor::f32(&t.name, &dims, v),
                (Data::F(v), dtype::DOUBLE) => vp_onnx::Tensor::f64(&t.name, &dims, &v.iter().map(|x| *x as f64).collect::<Vec<_>>()),
                (Data::I(v), dtype::INT64) => vp_onnx::Tensor::i64(&t.name, &dims, v),
                (Data::I(v), dtype::INT32) => vp_onnx::Tensor::i32(&t.name, &dims, &v.iter().map(|x| *x as i32).collect::<Vec<_>>()),
                (Data::I(v), dtype::BOOL) => vp_onnx::Tensor::bool(&t.name, &dims, &v.iter().map(|x| *x != 0).collect::<Vec<_>>()),
                (Data::I(v), dtype::UINT8) => vp_onnx::Tensor::u8(&t.name, &dims, &v.iter().map(|x| *x as u8).collect::<Vec<_>>()),
                (Data::I(v), dtype::INT8) => vp_onnx::Tensor::i8(&t.name, &dims, &v.iter().map(|x| *x as i8).collect::<Vec<_>>()),
                _ => vp_core::machinery_error(&format!("C10: unsupported initializer dtype {} for {}", t.dtype, t.name)),
            };
            g.initializers.push(tensor);
        } else {
            let mut dims = Vec::new();
            for (ax, d) in t.shape.iter().enumerate() {
                if v.mask[k] {
                    let name = match v.naming {
                        Naming::Distinct => format!("d{ii}_{ax}"),
                        Naming::ByValue => format!("n{d}"),
                    };
                    if !env.iter().any(|(n, _)| *n == name) {
                        env.push((name.clone(), *d as i64));
                    }
                    dims.push(Dim::Sym(name));
                } else {
                    dims.push(Dim::Fixed(*d as i64));
                }
                k += 1;
            }
            g.inputs.push(ValueInfo::new(&t.name, t.dtype, &dims));
        }
    }
    for (_, name) in c.produced() {
        g.outputs.push(ValueInfo::untyped(&name));
    }
    (g, env)
}

// ---------------------------------------------------------------------------
// Execution

fn input_value(t: &TIn) -> Value {
    match (&t.data, t.dtype) {
        (Data::F(v), _) => Value::FloatTensor(Tensor::from_data(&t.shape, v.clone())),
        (Data::I(v), dtype::UINT8) => Value::UInt8Tensor(Tensor::from_data(&t.shape, v.iter().map(|x| *x as u8).collect::<Vec<_>>())),
        (Data::I(v), dtype::INT8) => Value::Int8Tensor(Tensor::from_data(&t.shape, v.iter().map(|x| *x as i8).collect::<Vec<_>>())),
        (Data::I(v), _) => Value::Int32Tensor(Tensor::from_data(
            &t.shape,
            v.iter().map(|x| (*x).clamp(i32::MIN as i64, i32::MAX as i64) as i32).collect::<Vec<_>>(),
        )),
    }
}

/// Executed tensor reduced to what the comparison needs.
#[derive(Clone, Debug, PartialEq)]
pub struct Actual {
    pub shape: Vec<usize>,
    pub values: Vec<f64>,
    pub dtype: &'static str,
}

fn actual_of(v: &Value) -> Option<Actual> {
    Some(match v {
        Value::FloatTensor(t) => Actual { shape: t.shape().to_vec(), values: t.iter().map(|x| *x as f64).collect(), dtype: "f32" },
        Value::Int32Tensor(t) => Actual { shape: t.shape().to_vec(), values: t.iter().map(|x| *x as f64).collect(), dtype: "i32" },
        Value::Int8Tensor(t) => Actual { shape: t.shape().to_vec(), values: t.iter().map(|x| *x as f64).collect(), dtype: "i8" },
        Value::UInt8Tensor(t) => Actual { shape: t.shape().to_vec(), values: t.iter().map(|x| *x as f64).collect(), dtype: "u8" },
        _ => return None,
    })
}

thread_local! {
    static POOL: Arc<ThreadPool> = Arc::new(ThreadPool::with_num_threads(1));
}

fn load(bytes: Vec<u8>) -> Result<Model, String> {
    let mut opts = ModelOptions::with_all_ops();
    opts.enable_optimization(false);
    opts.load(bytes).map_err(|e| e.to_string())
}

/// What inference said about one value, in a comparable/printable form.
#[derive(Clone, Debug, PartialEq)]
pub enum Inferred {
    Nothing,
    Const(Constant),
    Dims(Vec<Dimension>),
}

fn inferred_string(i: &Inferred) -> String {
    match i {
        Inferred::Nothing => "nothing".into(),
        Inferred::Const(c) => format!("constant {c:?}"),
        Inferred::Dims(d) => format!(
            "shape [{}]",
            d.iter()
                .map(|d| match d {
                    Dimension::Fixed(n) => n.to_string(),
                    Dimension::Symbolic(s) => format!("\"{s}\""),
                })
                .collect::<Vec<_>>()
                .join(", ")
        ),
    }
}

struct InferOut {
    per_value: Vec<Inferred>,
}

fn run_inference(model: &Model, names: &[(usize, String)]) -> Result<InferOut, String> {
    let graph = model.verif_graph();
    let res = vp_core::catch(|| infer_shapes(graph, InferShapeOptions::default()));
    let res = match res {
        Err(p) => return Err(format!("panic: {p}")),
        Ok(Err(e)) => return Err(format!("{e}")),
        Ok(Ok(r)) => r,
    };
    let mut per_value = Vec::new();
    for (_, name) in names {
        let id = model.find_node(name).ok_or_else(|| format!("value {name} missing in graph"))?;
        per_value.push(match res.shapes.get(&id) {
            None => Inferred::Nothing,
            Some(Shape::Constant { index }) => Inferred::Const(res.constants[*index].clone()),
            Some(Shape::Shape(d)) => Inferred::Dims(d.clone()),
        });
    }
    Ok(InferOut { per_value })
}

fn run_model(model: &Model, c: &Case, names: &[(usize, String)]) -> Result<Vec<Option<Actual>>, String> {
    let mut inputs: Vec<(rten::NodeId, ValueOrView)> = Vec::new();
    for t in c.inputs.iter().filter(|t| !t.init) {
        let id = model.find_node(&t.name).ok_or_else(|| format!("input {} missing", t.name))?;
        inputs.push((id, ValueOrView::Value(input_value(t))));
    }
    let out_ids: Vec<rten::NodeId> =
        names.iter().map(|(_, n)| model.find_node(n).ok_or_else(|| format!("output {n} missing"))).collect::<Result<_, _>>()?;
    let opts = POOL.with(|p| RunOptions::default().with_thread_pool(Some(p.clone())));
    match vp_core::catch(|| model.run(inputs, &out_ids, Some(opts))) {
        Err(p) => Err(format!("panic: {p}")),
        Ok(Err(e)) => Err(format!("error: {e}")),
        Ok(Ok(vals)) => Ok(vals.iter().map(actual_of).collect()),
    }
}

// ---------------------------------------------------------------------------
// Comparison

#[derive(Default)]
pub struct Stats {
    pub cases: u64,
    pub variants: u64,
    pub load_errors: u64,
    pub infer_errors: u64,
    pub run_errors: u64,
    pub run_panics: u64,
    pub variants_run_ok: u64,
    pub values_compared: u64,
    pub values_without_claim: u64,
    pub rank_claims: u64,
    pub fixed_dim_claims: u64,
    pub sym_dim_claims: u64,
    pub sym_dims_unevaluable: u64,
    pub sym_dims_ambiguous_print: u64,
    pub const_claims: u64,
    pub const_elems: u64,
    pub double_load_checks: u64,
    pub partial_mask_cases: u64,
}

impl Stats {
    fn add(&mut self, o: &Stats) {
        self.cases += o.cases;
        self.variants += o.variants;
        self.load_errors += o.load_errors;
        self.infer_errors += o.infer_errors;
        self.run_errors += o.run_errors;
        self.run_panics += o.run_panics;
        self.variants_run_ok += o.variants_run_ok;
        self.values_compared += o.values_compared;
        self.values_without_claim += o.values_without_claim;
        self.rank_claims += o.rank_claims;
        self.fixed_dim_claims += o.fixed_dim_claims;
        self.sym_dim_claims += o.sym_dim_claims;
        self.sym_dims_unevaluable += o.sym_dims_unevaluable;
        self.sym_dims_ambiguous_print += o.sym_dims_ambiguous_print;
        self.const_claims += o.const_claims;
        self.const_elems += o.const_elems;
        self.double_load_checks += o.double_load_checks;
        self.partial_mask_cases += o.partial_mask_cases;
    }
    fn claims(&self) -> u64 {
        self.rank_claims + self.const_claims
    }
    fn to_json(&self) -> Json {
        json!({
            "cases": self.cases, "variants": self.variants, "load_errors": self.load_errors,
            "infer_errors": self.infer_errors, "run_errors": self.run_errors, "run_panics": self.run_panics,
            "variants_run_ok": self.variants_run_ok, "values_compared": self.values_compared,
            "values_without_claim": self.values_without_claim, "rank_claims": self.rank_claims,
            "fixed_dim_claims": self.fixed_dim_claims, "sym_dim_claims": self.sym_dim_claims,
            "sym_dims_unevaluable": self.sym_dims_unevaluable, "sym_dims_ambiguous_print": self.sym_dims_ambiguous_print,
            "const_claims": self.const_claims, "const_elems": self.const_elems,
            "double_load_checks": self.double_load_checks, "cases_with_partial_mask_set": self.partial_mask_cases,
        })
    }
}

pub struct Contradiction {
    pub kind: &'static str,
    pub detail: String,
}

thread_local! {
    static PARSE_CACHE: std::cell::RefCell<HashMap<String, Result<Option<Vec<PExpr>>, String>>> = std::cell::RefCell::new(HashMap::new());
}

fn parse_cached(s: &str) -> Result<Option<Vec<PExpr>>, String> {
    PARSE_CACHE.with(|c| {
        let mut c = c.borrow_mut();
        if let Some(r) = c.get(s) {
            return r.clone();
        }
        let r = se::parse_display(s);
        c.insert(s.to_string(), r.clone());
        r
    })
}

fn compare(inf: &Inferred, act: &Actual, env: &[(String, i64)], st: &mut Stats) -> Option<Contradiction> {
    st.values_compared += 1;
    match inf {
        Inferred::Nothing => {
            st.values_without_claim += 1;
            None
        }
        Inferred::Const(c) => {
            st.const_claims += 1;
            let (rank, vals): (usize, &[i32]) = match c {
                Constant::Scalar(v) => (0, std::slice::from_ref(v)),
                Constant::Vector(v) => (1, v.as_slice()),
            };
            if act.shape.len() != rank {
                return Some(Contradiction {
                    kind: "inferred constant has a different rank/length than the executed value",
                    detail: format!("inferred {c:?} (rank {rank}), executed shape {:?} values {:?}", act.shape, act.values),
                });
            }
            if rank == 1 && act.shape[0] != vals.len() {
                return Some(Contradiction {
                    kind: "inferred constant has a different rank/length than the executed value",
                    detail: format!("inferred {c:?}, executed shape {:?} values {:?}", act.shape, act.values),
                });
            }
            for (i, v) in vals.iter().enumerate() {
                st.const_elems += 1;
                if act.values[i] != *v as f64 {
                    return Some(Contradiction {
                        kind: "inferred constant differs from the executed value",
                        detail: format!("inferred {c:?}, executed ({}) shape {:?} values {:?}", act.dtype, act.shape, act.values),
                    });
                }
            }
            None
        }
        Inferred::Dims(dims) => {
            st.rank_claims += 1;
            if dims.len() != act.shape.len() {
                return Some(Contradiction {
                    kind: "inferred shape contradicts the executed shape",
                    detail: format!("rank: inferred {}, executed shape {:?}", inferred_string(inf), act.shape),
                });
            }
            for (ax, d) in dims.iter().enumerate() {
                match d {
                    Dimension::Fixed(n) => {
                        st.fixed_dim_claims += 1;
                        if *n != act.shape[ax] {
                            return Some(Contradiction {
                                kind: "inferred shape contradicts the executed shape",
                                detail: format!("fixed dim, axis {ax}: inferred {}, executed shape {:?}", inferred_string(inf), act.shape),
                            });
                        }
                    }
                    Dimension::Symbolic(s) => match parse_cached(s) {
                        Err(e) => vp_core::machinery_error(&format!("C10: cannot parse symbolic dim: {e}")),
                        Ok(None) => st.sym_dims_ambiguous_print += 1,
                        Ok(Some(readings)) => {
                            // The printout may have several structural readings; the claim is
                            // judged only if every reading evaluates, and contradicted only
                            // if no reading gives the executed size.
                            let get = |n: &str| env.iter().find(|(k, _)| k == n).map(|(_, v)| *v);
                            let vals: Vec<Result<i64, se::Fail>> = readings.iter().map(|p| se::eval_pexpr(p, &get)).collect();
                            if vals.iter().any(|v| v.is_err()) {
                                st.sym_dims_unevaluable += 1;
                            } else {
                                st.sym_dim_claims += 1;
                                if readings.len() > 1 {
                                    st.sym_dims_ambiguous_print += 1;
                                }
                                if !vals.iter().any(|v| *v == Ok(act.shape[ax] as i64)) {
                                    return Some(Contradiction {
                                        kind: "inferred shape contradicts the executed shape",
                                        detail: format!(
                                            "symbolic dim, axis {ax}: \"{s}\" = {:?} under {:?}; inferred {}, executed shape {:?}",
                                            vals.iter().map(|v| v.clone().unwrap()).collect::<Vec<_>>(), env, inferred_string(inf), act.shape
                                        ),
                                    });
                                }
                            }
                        }
                    },
                }
            }
            None
        }
    }
}

// ---------------------------------------------------------------------------

#[derive(Default)]
pub struct EntryAcc {
    pub stats: Stats,
    pub viol: BTreeMap<String, (Json, String, u64)>,
    pub obs: BTreeMap<String, u64>,
    pub samples: Vec<Json>,
    pub outcomes: std::collections::HashSet<u64>,
}

fn variant_json(c: &Case, v: &Variant) -> Json {
    json!({"case": case_to_json(c), "mask": v.mask, "naming": match v.naming { Naming::Distinct => "distinct", Naming::ByValue => "by_value" }})
}

/// Check one variant. Returns true if the model executed.
fn check_variant(c: &Case, v: &Variant, acc: &mut EntryAcc, double_load: bool) -> bool {
    acc.stats.variants += 1;
    let (g, env) = build(c, v);
    let bytes = model_bytes_unpacked(&g, c.opset);
    let names = c.produced();
    let model = match load(bytes.clone()) {
        Ok(m) => m,
        Err(e) => {
            acc.stats.load_errors += 1;
            if std::env::var("C10_ENTRY").is_ok() && acc.stats.load_errors <= 3 {
                eprintln!("load error in entry {}: {}", c.entry, e);
            }
            *acc.obs.entry(format!("load error in entry {}: {}", c.entry, vp_core::truncate(&e, 80))).or_insert(0) += 1;
            return false;
        }
    };
    let inf = match run_inference(&model, &names) {
        Ok(i) => Some(i),
        Err(e) => {
            acc.stats.infer_errors += 1;
            if e.starts_with("panic") {
                *acc.obs.entry(format!("infer_shapes panicked in entry {}: {}", c.entry, vp_core::truncate(&e, 80))).or_insert(0) += 1;
            }
            None
        }
    };
    if double_load {
        if let (Some(i1), Ok(m2)) = (&inf, load(bytes)) {
            acc.stats.double_load_checks += 1;
            if let Ok(i2) = run_inference(&m2, &names) {
                if i1.per_value != i2.per_value {
                    let sig = "infer_shapes: two loads of the same model give different inference results".to_string();
                    let detail = format!("{:?} vs {:?}", i1.per_value.iter().map(inferred_string).collect::<Vec<_>>(), i2.per_value.iter().map(inferred_string).collect::<Vec<_>>());
                    record(acc, sig, || (variant_json(c, v), detail));
                }
            }
        }
    }
    let acts = match run_model(&model, c, &names) {
        Ok(a) => a,
        Err(e) => {
            if e.starts_with("panic") {
                acc.stats.run_panics += 1;
                *acc.obs.entry(format!("execution panicked in entry {}: {}", c.entry, vp_core::truncate(&e, 80))).or_insert(0) += 1;
            } else {
                acc.stats.run_errors += 1;
                if std::env::var("C10_ENTRY").is_ok() && acc.stats.run_errors <= 3 {
                    eprintln!("run error in entry {}: {}", c.entry, e);
                }
            }
            return false;
        }
    };
    acc.stats.variants_run_ok += 1;
    let Some(inf) = inf else { return true };
    let mut outcome = std::collections::hash_map::DefaultHasher::new();
    use std::hash::{Hash, Hasher};
    c.entry.hash(&mut outcome);
    for (k, ((node_idx, name), (i, a))) in names.iter().zip(inf.per_value.iter().zip(acts.iter())).enumerate() {
        let _ = k;
        let Some(a) = a else { continue };
        inferred_string(i).hash(&mut outcome);
        a.shape.hash(&mut outcome);
        if let Some(con) = compare(i, a, &env, &mut acc.stats) {
            let op = &c.nodes[*node_idx].op_type;
            let feature = match &c.feature_op {
                Some(fop) if fop != op => "general",
                _ => c.feature.as_str(),
            };
            let sig = format!("{}: {} [{}]", op_family(op), con.kind, feature);
            let detail = format!(
                "entry {}; value {name} produced by {op}; {}; symbols {:?}; inputs {}",
                c.entry,
                con.detail,
                env,
                c.inputs.iter().map(|t| format!("{}{}:{:?}", t.name, if t.init { "(init)" } else { "" }, t.shape)).collect::<Vec<_>>().join(" ")
            );
            record(acc, sig, || (variant_json(c, v), detail));
            // Values downstream of a contradicted value are not judged.
            break;
        }
    }
    acc.outcomes.insert(outcome.finish());
    if acc.samples.len() < 2 && inf.per_value.iter().any(|i| !matches!(i, Inferred::Nothing)) && v.mask.iter().any(|b| *b) {
        acc.samples.push(json!({
            "entry": c.entry,
            "nodes": c.nodes.iter().map(|n| format!("{}({}) -> {}", n.op_type, n.inputs.join(","), n.outputs.join(","))).collect::<Vec<_>>(),
            "inputs": c.inputs.iter().map(|t| format!("{}{} {:?}", t.name, if t.init { " (initializer)" } else { "" }, t.shape)).collect::<Vec<_>>(),
            "symbols": env.iter().map(|(k, v)| format!("{k}={v}")).collect::<Vec<_>>(),
            "inferred": names.iter().zip(&inf.per_value).map(|((_, n), i)| format!("{n}: {}", inferred_string(i))).collect::<Vec<_>>(),
            "executed": names.iter().zip(&acts).map(|((_, n), a)| format!("{n}: {:?}", a.as_ref().map(|a| (&a.shape, if a.values.len() <= 6 { a.values.clone() } else { vec![] })))).collect::<Vec<_>>(),
        }));
    }
    true
}

/// Operators that share one shape-inference implementation report under one name.
fn op_family(op: &str) -> &str {
    match op {
        "ReduceSum" | "ReduceMean" | "ReduceMax" | "ReduceMin" | "ReduceProd" | "ReduceL1" | "ReduceL2" | "ReduceLogSum"
        | "ReduceLogSumExp" | "ReduceSumSquare" => "Reduce*",
        "MaxPool" | "AveragePool" => "MaxPool/AveragePool",
        o => o,
    }
}

fn record(acc: &mut EntryAcc, sig: String, case: impl FnOnce() -> (Json, String)) {
    if let Ok(path) = std::env::var("C10_DUMP") {
        // development aid: one line per violating variant
        use std::io::Write;
        let (c, d) = case();
        if let Ok(mut fh) = std::fs::OpenOptions::new().create(true).append(true).open(path) {
            let line = format!("{sig}\t{d}\t{}\n", c["case"]["inputs"]);
            let _ = fh.write_all(line.as_bytes());
        }
        match acc.viol.get_mut(&sig) {
            Some(e) => e.2 += 1,
            None => {
                acc.viol.insert(sig, (c, d, 1));
            }
        }
        return;
    }
    match acc.viol.get_mut(&sig) {
        Some(e) => e.2 += 1,
        None => {
            let (c, d) = case();
            acc.viol.insert(sig, (c, d, 1));
        }
    }
}

pub fn check_case(c: &Case, acc: &mut EntryAcc, tier: Tier) {
    acc.stats.cases += 1;
    let (vs, full) = variants(c);
    if !full {
        acc.stats.partial_mask_cases += 1;
    }
    for (i, v) in vs.iter().enumerate() {
        // Two loads per variant (uncontrolled HashMap order inside rten, DESIGN 2.6):
        // every variant in the thorough tier, every 8th in the quick tier.
        let double = tier.is_thorough() || i % 8 == 0;
        let ran = check_variant(c, v, acc, double);
        if !ran && i == 0 {
            // The concrete inputs are the same for every variant; if the
            // all-fixed variant does not load or execute, neither do the others.
            break;
        }
    }
}

// ---------------------------------------------------------------------------

pub struct Entry {
    pub name: String,
    /// Entries whose cases are expected never to execute successfully or never
    /// to yield an inference claim are flagged so that the vacuity guard skips them.
    pub may_be_vacuous: bool,
    pub generate: Box<dyn Fn(Tier, &mut dyn FnMut(Case)) + Send + Sync>,
}

pub fn run(ctx: Ctx) -> ! {
    if let Some(path) = ctx.replay.clone() {
        let j = vp_core::read_replay_case(&path);
        let c = case_from_json(&j["case"]);
        let mask: Vec<bool> = j["mask"].as_array().map(|a| a.iter().map(|b| b.as_bool().unwrap_or(false)).collect()).unwrap_or_default();
        let naming = if j["naming"].as_str() == Some("by_value") { Naming::ByValue } else { Naming::Distinct };
        let mut acc = EntryAcc::default();
        acc.stats.cases = 1;
        if mask.len() != graph_input_dims(&c) {
            vp_core::machinery_error("C10 replay: mask length does not match the case");
        }
        let v = Variant { mask, naming };
        check_variant(&c, &v, &mut acc, true);
        for s in &acc.samples {
            println!("replay: {s}");
        }
        finish(ctx, vec![("replay".into(), false, acc)], 1);
    }

    let (reader_checked, reader_ambiguous) = selftest_reader();
    let mut entries = c10_catalogue::entries(ctx.tier);
    // Development aid: C10_ENTRY=<substring> restricts the run to matching entries.
    if let Ok(f) = std::env::var("C10_ENTRY") {
        entries.retain(|e| e.name.contains(&f));
    }
    let tier = ctx.tier;
    let n = entries.len();
    let accs = vp_core::par::map(n, |i| {
        let mut acc = EntryAcc::default();
        (entries[i].generate)(tier, &mut |c: Case| check_case(&c, &mut acc, tier));
        acc
    });
    let named: Vec<(String, bool, EntryAcc)> = entries.iter().zip(accs).map(|(e, a)| (e.name.clone(), e.may_be_vacuous, a)).collect();
    println!("C10 display-reader self-test: {reader_checked} printed expressions re-read, {reader_ambiguous} with more than one reading");
    *READER_SELFTEST.lock().unwrap() = (reader_checked, reader_ambiguous);
    finish(ctx, named, n)
}

static READER_SELFTEST: std::sync::Mutex<(u64, u64)> = std::sync::Mutex::new((0, 0));

/// Machinery self-check of the reader for printed symbolic dims: every tree of
/// depth <= 2 over {-2, 1, a, b} (148k trees) and its simplified form are
/// printed by rten and re-read; the true tree must be among the readings.
fn selftest_reader() -> (u64, u64) {
    use rten_shape_inference::SymExpr;
    let leaves = [SymExpr::Value(-2), SymExpr::Value(1), SymExpr::pos_var("a"), SymExpr::pos_var("b")];
    let mk = |op: usize, l: &SymExpr, r: &SymExpr| -> SymExpr {
        let (l, r) = (Arc::new(l.clone()), Arc::new(r.clone()));
        match op {
            0 => SymExpr::Add(l, r),
            1 => SymExpr::Sub(l, r),
            2 => SymExpr::Mul(l, r),
            3 => SymExpr::Div(l, r),
            4 => SymExpr::DivCeil(l, r),
            5 => SymExpr::Max(l, r),
            6 => SymExpr::Min(l, r),
            _ => SymExpr::Broadcast(l, r),
        }
    };
    let mut d1: Vec<SymExpr> = leaves.to_vec();
    for l in &leaves {
        d1.push(SymExpr::Neg(Arc::new(l.clone())));
    }
    for op in 0..8 {
        for l in &leaves {
            for r in &leaves {
                d1.push(mk(op, l, r));
            }
        }
    }
    let n = d1.len();
    let results = vp_core::par::map(8 * n + 1, |i| {
        let mut exprs: Vec<SymExpr> = Vec::new();
        if i == 8 * n {
            exprs.extend(d1.iter().cloned());
            exprs.extend(d1.iter().map(|t| SymExpr::Neg(Arc::new(t.clone()))));
        } else {
            let (op, li) = (i / n, i % n);
            for r in &d1 {
                exprs.push(mk(op, &d1[li], r));
            }
        }
        let simplified: Vec<SymExpr> = exprs.iter().filter_map(|e| vp_core::catch(|| e.simplify()).ok()).collect();
        exprs.extend(simplified);
        se::selftest_display_reader(&exprs)
    });
    let mut total = (0, 0);
    for r in results {
        match r {
            Ok((a, b)) => {
                total.0 += a;
                total.1 += b;
            }
            Err(e) => vp_core::machinery_error(&format!("C10: {e}")),
        }
    }
    total
}

fn finish(ctx: Ctx, accs: Vec<(String, bool, EntryAcc)>, n_entries: usize) -> ! {
    let replaying = ctx.replay.is_some();
    let mut total = Stats::default();
    let mut per_entry = serde_map();
    let mut vacuous: Vec<String> = Vec::new();
    let mut samples: Vec<Json> = Vec::new();
    let mut outcomes = std::collections::HashSet::new();
    let mut viol: BTreeMap<String, (Json, String, u64)> = BTreeMap::new();
    let mut by_sig: BTreeMap<String, u64> = BTreeMap::new();
    for (name, may_be_vacuous, a) in accs {
        total.add(&a.stats);
        per_entry.insert(
            name.clone(),
            json!([a.stats.cases, a.stats.variants, a.stats.variants_run_ok, a.stats.claims(), a.stats.sym_dim_claims, a.stats.const_claims]),
        );
        if !replaying && !may_be_vacuous && (a.stats.variants_run_ok == 0 || a.stats.claims() == 0) {
            vacuous.push(format!("{name} (cases {}, executed {}, claims {})", a.stats.cases, a.stats.variants_run_ok, a.stats.claims()));
        }
        for (k, n) in a.obs {
            ctx.observe_n(&k, n);
        }
        for (sig, (c, d, n)) in a.viol {
            *by_sig.entry(sig.clone()).or_insert(0) += n;
            match viol.get_mut(&sig) {
                Some(e) => e.2 += n,
                None => {
                    viol.insert(sig, (c, d, n));
                }
            }
        }
        // one sample per entry, up to 40 overall
        if samples.len() < 40 {
            if let Some(s) = a.samples.into_iter().next() {
                samples.push(s);
            }
        }
        outcomes.extend(a.outcomes);
    }
    for (sig, (case, detail, n)) in &viol {
        ctx.violation(sig.clone(), case.clone(), detail.clone());
        for _ in 1..*n {
            ctx.violation(sig.clone(), Json::Null, "");
        }
    }
    if !vacuous.is_empty() {
        ctx.machinery(&format!("C10: vacuous catalogue entries (no successful execution or no inference claim): {}", vacuous.join("; ")));
    }
    println!(
        "C10 summary: entries={} cases={} variants={} executed_ok={} values_compared={} rank_claims={} fixed_dims={} sym_dims={} const_claims={} (elems {}) no_claim={} run_errors={} infer_errors={} signatures={}",
        n_entries,
        total.cases,
        total.variants,
        total.variants_run_ok,
        total.values_compared,
        total.rank_claims,
        total.fixed_dim_claims,
        total.sym_dim_claims,
        total.const_claims,
        total.const_elems,
        total.values_without_claim,
        total.run_errors,
        total.infer_errors,
        viol.len()
    );
    if samples.is_empty() {
        samples.push(json!({"note": "no sample (replay without inference claim)"}));
    }
    let coverage = json!({
        "rule": "every catalogue case x every fixed/symbolic mask of the graph-input dims x symbol naming {distinct, equal sizes share a symbol}; each variant: ONNX bytes -> Model::load (optimization off) -> infer_shapes(graph) and Model::run on the concrete inputs; every produced value: inferred rank/fixed dims/symbolic dims (own evaluator)/constants vs executed tensor; only contradictions count",
        "exhaustive": true,
        "evaluations": total.variants,
        "distinct_nontrivial": outcomes.len(),
        "catalogue_entries": n_entries,
        "totals": total.to_json(),
        "per_entry [cases, variants, executed_ok, rank+const claims, symbolic dim claims, const claims]": Json::Object(per_entry),
        "axes": c10_catalogue::axes_description(ctx.tier),
        "display_reader_selftest": {"printed_expressions_reread": READER_SELFTEST.lock().unwrap().0, "with_more_than_one_reading": READER_SELFTEST.lock().unwrap().1, "true_tree_always_among_readings": true},
        "mask_rule": format!("all 2^n masks when a case has <= {FULL_MASK_DIMS} graph-input dims, otherwise all-fixed, all-symbolic and every single flip of both (counted in cases_with_partial_mask_set)"),
        "violating_variants_by_signature": by_sig,
        "samples": samples,
    });
    ctx.finish(
        "exploration",
        coverage,
        vec![
            "Symbolic dims are returned by rten as printed strings; they are re-parsed by the harness. Printouts with more than one structural reading are not evaluated (counted as sym_dims_ambiguous_print).".into(),
            "Symbolic dims mentioning synthetic unknown_N symbols, or whose evaluation fails (division by zero, Broadcast precondition), claim nothing.".into(),
            "Each model is loaded once per variant (twice where the double-load check applies); std HashMap iteration order inside rten is not scripted (DESIGN 2.6).".into(),
            "int64/bool tensors are int32 inside rten; values are compared numerically, element types are property C12's business.".into(),
        ],
    )
}

fn serde_map() -> vp_core::serde_json::Map<String, Json> {
    vp_core::serde_json::Map::new()
}
