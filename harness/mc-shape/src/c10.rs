pub fn run(ctx: vp_core::Ctx) -> ! {
    ctx.machinery("C10 not built yet")
}
