//! Catalogue of C10 cases: every operator that offers shape inference,
//! instantiated over its attribute grid and small shape/value alphabets, plus
//! short shape-arithmetic chains.

use vp_core::{Json, Tier, json};
use vp_onnx::{Attr, Node, dtype};

use crate::c10::{Case, Entry, TIn};

pub const SIZES: [usize; 4] = [0, 1, 2, 3];
/// Operands of shape arithmetic and value-carrying inputs.
pub const SMALL_VALUES: [i64; 7] = [-3, -2, -1, 0, 1, 2, 3];
/// Extreme operands (constant folding in i32).
pub const BIG_VALUES: [i64; 4] = [65536, 1 << 30, i32::MAX as i64, i32::MIN as i64];

pub fn axes_description(tier: Tier) -> Json {
    json!({
        "dim_sizes": SIZES,
        "max_rank_general": max_rank(tier),
        "small_values": SMALL_VALUES,
        "big_values": BIG_VALUES,
        "masks": "every subset of graph-input dims declared symbolic",
        "naming": ["distinct", "by_value"],
        "value_inputs": "as initializer (constant seen by inference) and as graph input (shape only), int32/int64 and integral / non-integral float where the operator accepts them",
    })
}

pub fn max_rank(tier: Tier) -> usize {
    tier.pick(3, 4)
}

pub fn all_shapes(max_rank: usize, sizes: &[usize]) -> Vec<Vec<usize>> {
    let mut out: Vec<Vec<usize>> = vec![vec![]];
    let mut cur: Vec<Vec<usize>> = vec![vec![]];
    for _ in 0..max_rank {
        let mut next = Vec::new();
        for s in &cur {
            for d in sizes {
                let mut t = s.clone();
                t.push(*d);
                next.push(t);
            }
        }
        out.extend(next.iter().cloned());
        cur = next;
    }
    out
}

pub fn shapes_of_rank(rank: usize, sizes: &[usize]) -> Vec<Vec<usize>> {
    all_shapes(rank, sizes).into_iter().filter(|s| s.len() == rank).collect()
}

pub fn n(op: &str, ins: &[&str], outs: &[&str]) -> Node {
    Node::new(op, ins, outs)
}

fn entry(name: &str, f: impl Fn(Tier, &mut dyn FnMut(Case)) + Send + Sync + 'static) -> Entry {
    Entry { name: name.to_string(), may_be_vacuous: false, generate: Box::new(f) }
}

fn entry_vac(name: &str, f: impl Fn(Tier, &mut dyn FnMut(Case)) + Send + Sync + 'static) -> Entry {
    Entry { name: name.to_string(), may_be_vacuous: true, generate: Box::new(f) }
}

/// ONNX multidirectional broadcast of two shapes (None if incompatible).
pub fn broadcast_shapes(a: &[usize], b: &[usize]) -> Option<Vec<usize>> {
    let r = a.len().max(b.len());
    let mut out = vec![0; r];
    for i in 0..r {
        let x = if i + a.len() >= r { a[i + a.len() - r] } else { 1 };
        let y = if i + b.len() >= r { b[i + b.len() - r] } else { 1 };
        out[i] = if x == y {
            x
        } else if x == 1 {
            y
        } else if y == 1 {
            x
        } else {
            return None;
        };
    }
    Some(out)
}

fn perms(nn: usize) -> Vec<Vec<i64>> {
    vp_core::odometer::permutations(nn).into_iter().map(|p| p.into_iter().map(|x| x as i64).collect()).collect()
}

fn subsets(nn: usize) -> Vec<Vec<usize>> {
    vp_core::odometer::subsets(nn).collect()
}

pub fn entries(tier: Tier) -> Vec<Entry> {
    let mut e = Vec::new();
    unary_family(&mut e);
    binary_family(&mut e);
    arithmetic_chains(&mut e);
    layout_ops(&mut e, tier);
    index_ops(&mut e);
    reduce_ops(&mut e);
    unary_with_extras(&mut e);
    nn_ops(&mut e);
    sequence_ops(&mut e);
    let _ = tier;
    e
}

/// Data shapes used by most single-operator entries: every shape over SIZES up
/// to rank 2 (quick) / 3 (thorough), plus one more rank over {0,1,2}.
pub fn data_shapes(tier: Tier) -> Vec<Vec<usize>> {
    let base = tier.pick(2, 3);
    let mut v = all_shapes(base, &SIZES);
    v.extend(shapes_of_rank(base + 1, &[0, 1, 2]));
    v
}

/// Value-carrying operand given either as an initializer or as a graph input.
fn value_modes() -> [(bool, &'static str); 2] {
    [(true, "constant value input"), (false, "dynamic value input")]
}

fn vin(name: &str, vals: &[i64], init: bool) -> TIn {
    let mut t = TIn::vec_i64(name, vals);
    t.init = init;
    t
}

fn neg_axis(ax: usize, rank: usize) -> i64 {
    ax as i64 - rank as i64
}

// ---------------------------------------------------------------------------
// Operators whose inference is "same shape as the first input" (UnaryOp),
// Identity/Neg/Cast (value-preserving variants).

fn unary_family(e: &mut Vec<Entry>) {
    // (op, attributes, element type)
    let float_ops: Vec<(&'static str, Vec<(&'static str, Attr)>)> = vec![
        ("Abs", vec![]),
        ("Acos", vec![]),
        ("Acosh", vec![]),
        ("Asin", vec![]),
        ("Asinh", vec![]),
        ("Atan", vec![]),
        ("Atanh", vec![]),
        ("Ceil", vec![]),
        ("Cos", vec![]),
        ("Cosh", vec![]),
        ("Elu", vec![("alpha", Attr::Float(0.5))]),
        ("Erf", vec![]),
        ("Exp", vec![]),
        ("Floor", vec![]),
        ("Gelu", vec![]),
        ("Gelu", vec![("approximate", Attr::Str("tanh".into()))]),
        ("HardSigmoid", vec![]),
        ("HardSwish", vec![]),
        ("Identity", vec![]),
        ("IsInf", vec![]),
        ("IsNaN", vec![]),
        ("LeakyRelu", vec![]),
        ("Log", vec![]),
        ("Neg", vec![]),
        ("Reciprocal", vec![]),
        ("Relu", vec![]),
        ("Round", vec![]),
        ("Sigmoid", vec![]),
        ("Sign", vec![]),
        ("Sin", vec![]),
        ("Sinh", vec![]),
        ("Softplus", vec![]),
        ("Sqrt", vec![]),
        ("Swish", vec![]),
        ("Tan", vec![]),
        ("Tanh", vec![]),
    ];
    for (op, attrs) in float_ops {
        let name = format!("{op}{} f32", if attrs.is_empty() { String::new() } else { format!(" {}", attrs[0].0) });
        let attrs2 = attrs.clone();
        e.push(entry(&name.clone(), move |tier, sink| {
            // All float unary operators share one inference rule; the full rank
            // range is spent on Relu, the others go to rank 2 (quick) / 3 (thorough).
            let mr = if op == "Relu" { max_rank(tier) } else { tier.pick(2, 3) };
            for s in all_shapes(mr, &SIZES) {
                let mut node = n(op, &["x"], &["y"]);
                node.attrs = attrs2.iter().map(|(k, a)| (k.to_string(), a.clone())).collect();
                sink(Case::new(&name, "float data", vec![node], vec![TIn::f32("x", &s)]));
            }
        }));
    }
    for (op, dt, dtname) in [
        ("Abs", dtype::INT32, "i32"),
        ("Neg", dtype::INT32, "i32"),
        ("Neg", dtype::INT64, "i64"),
        ("Sign", dtype::INT32, "i32"),
        ("Identity", dtype::INT64, "i64"),
        ("Identity", dtype::UINT8, "u8"),
        ("Not", dtype::BOOL, "bool"),
    ] {
        let name = format!("{op} {dtname}");
        e.push(entry(&name.clone(), move |tier, sink| {
            for s in all_shapes(tier.pick(2, 3), &SIZES) {
                let cnt: usize = s.iter().product();
                let vals: Vec<i64> = (0..cnt).map(|i| if dt == dtype::BOOL { (i % 2) as i64 } else { (i % 5) as i64 - if dt == dtype::UINT8 { 0 } else { 2 } }).collect();
                for init in [false, true] {
                    // As an initializer the operand is a constant that Neg/Identity
                    // inference folds (scalars and vectors only carry values).
                    if init && s.len() > 1 {
                        continue;
                    }
                    let mut t = TIn::ints("x", dt, &s, &vals);
                    t.init = init;
                    // A model needs at least one node; with an initializer operand there
                    // is no graph input, which is fine.
                    sink(Case::new(&name, if init { "constant operand" } else { "dynamic operand" }, vec![n(op, &["x"], &["y"])], vec![t]));
                }
            }
        }));
    }
    // Neg / Identity on constants with extreme values.
    e.push(entry("Neg/Identity constant extremes", |_, sink| {
        for op in ["Neg", "Identity"] {
            for v in SMALL_VALUES.iter().chain(BIG_VALUES.iter()) {
                for dt in [dtype::INT64, dtype::INT32] {
                    sink(Case::new("Neg/Identity constant extremes", "constant operand", vec![n(op, &["x"], &["y"])], vec![TIn::ints("x", dt, &[], &[*v]).as_init()]));
                    sink(Case::new("Neg/Identity constant extremes", "constant operand", vec![n(op, &["x"], &["y"])], vec![TIn::ints("x", dt, &[2], &[*v, 1]).as_init()]));
                }
            }
            for v in [-2.0f32, 0.0, 1.0, 2.5, 65536.0, 1073741824.0, -2147483648.0] {
                sink(Case::new("Neg/Identity constant extremes", "float constant operands", vec![n(op, &["x"], &["y"])], vec![TIn::floats("x", &[], &[v]).as_init()]));
            }
        }
    }));
}

// ---------------------------------------------------------------------------
// Broadcasting binary / variadic operators and Where.

fn compatible_pairs(max_rank: usize) -> Vec<(Vec<usize>, Vec<usize>)> {
    let shapes = all_shapes(max_rank, &SIZES);
    let mut out = Vec::new();
    for a in &shapes {
        for b in &shapes {
            if broadcast_shapes(a, b).is_some() {
                out.push((a.clone(), b.clone()));
            }
        }
    }
    out
}

/// Div and Pow take a fast path when the right operand has a single element;
/// that input class gets its own feature.
fn binary_feature(op: &str, a: &[usize], b: &[usize], default: &'static str) -> &'static str {
    if (op == "Div" || op == "Pow") && b.iter().product::<usize>() == 1 && b.len() > a.len() {
        "single-element right operand with more dims than the left operand"
    } else {
        default
    }
}

fn binary_family(e: &mut Vec<Entry>) {
    // (op, dtype, rank budget: 0 = small, 1 = large)
    let ops: Vec<(&'static str, i32, bool)> = vec![
        ("Add", dtype::FLOAT, true),
        ("Add", dtype::INT32, false),
        ("Sub", dtype::FLOAT, false),
        ("Mul", dtype::FLOAT, false),
        ("Div", dtype::FLOAT, false),
        ("Pow", dtype::FLOAT, false),
        ("Mod", dtype::INT32, false),
        ("And", dtype::BOOL, false),
        ("Or", dtype::BOOL, false),
        ("Xor", dtype::BOOL, false),
        ("Equal", dtype::INT64, false),
        ("Equal", dtype::FLOAT, false),
        ("Greater", dtype::FLOAT, false),
        ("GreaterOrEqual", dtype::FLOAT, false),
        ("Less", dtype::FLOAT, false),
        ("LessOrEqual", dtype::INT32, false),
        ("PRelu", dtype::FLOAT, false),
        ("Max", dtype::FLOAT, false),
        ("Min", dtype::FLOAT, false),
        ("Sum", dtype::FLOAT, false),
        ("Mean", dtype::FLOAT, false),
    ];
    for (op, dt, large) in ops {
        let name = format!("{op} {}", if dt == dtype::FLOAT { "f32" } else if dt == dtype::BOOL { "bool" } else { "int" });
        e.push(entry(&name.clone(), move |tier, sink| {
            let mr = if large { tier.pick(2, 3) } else { tier.pick(2, 2) };
            for (a, b) in compatible_pairs(mr) {
                if op == "PRelu" && broadcast_shapes(&a, &b).as_deref() != Some(&a[..]) {
                    // slope must be unidirectionally broadcastable to the input
                    continue;
                }
                let mk = |nm: &str, s: &[usize]| {
                    if dt == dtype::FLOAT {
                        let mut t = TIn::f32(nm, s);
                        if let crate::c10::Data::F(v) = &mut t.data {
                            for x in v.iter_mut() {
                                *x = x.abs() + 1.0; // keep Div/Pow/Mod well defined
                            }
                        }
                        t
                    } else if dt == dtype::BOOL {
                        let c: usize = s.iter().product();
                        TIn::ints(nm, dt, s, &(0..c).map(|i| (i % 2) as i64).collect::<Vec<_>>())
                    } else {
                        let c: usize = s.iter().product();
                        TIn::ints(nm, dt, s, &(0..c).map(|i| (i % 3) as i64 + 1).collect::<Vec<_>>())
                    }
                };
                sink(Case::new(&name, binary_feature(op, &a, &b, "dynamic operands"), vec![n(op, &["a", "b"], &["y"])], vec![mk("a", &a), mk("b", &b)]));
            }
        }));
    }
    // Three-operand variadic ops and Where on shapes (rank <= 1 each, all combinations).
    for op in ["Max", "Sum", "Where"] {
        let name = format!("{op} 3 operands");
        e.push(entry(&name.clone(), move |tier, sink| {
            let shapes = all_shapes(tier.pick(1, 2), &SIZES);
            for a in &shapes {
                for b in &shapes {
                    let Some(ab) = broadcast_shapes(a, b) else { continue };
                    for c in &shapes {
                        if broadcast_shapes(&ab, c).is_none() {
                            continue;
                        }
                        let first = if op == "Where" {
                            let cnt: usize = a.iter().product();
                            TIn::ints("a", dtype::BOOL, a, &(0..cnt).map(|i| (i % 2) as i64).collect::<Vec<_>>())
                        } else {
                            TIn::f32("a", a)
                        };
                        sink(Case::new(&name, "dynamic operands", vec![n(op, &["a", "b", "c"], &["y"])], vec![first, TIn::f32("b", b), TIn::f32("c", c)]));
                    }
                }
            }
        }));
    }
    // A binary op where one operand is a constant tensor (initializer) of rank
    // 0..2: inference sees a fixed shape (or scalar/vector *values*).
    for op in ["Add", "Mul", "Sub", "Div", "Equal", "Greater"] {
        let name = format!("{op} with constant operand");
        e.push(entry(&name.clone(), move |tier, sink| {
            for (a, b) in compatible_pairs(tier.pick(2, 2)) {
                for const_side in [0, 1] {
                    for fl in [true, false] {
                        let mk = |nm: &str, s: &[usize], init: bool| {
                            let c: usize = s.iter().product();
                            let mut t = if fl {
                                TIn::floats(nm, s, &(0..c).map(|i| (i % 3) as f32 + 1.0).collect::<Vec<_>>())
                            } else {
                                TIn::ints(nm, dtype::INT64, s, &(0..c).map(|i| (i % 3) as i64 + 1).collect::<Vec<_>>())
                            };
                            t.init = init;
                            t
                        };
                        sink(Case::new(
                            &name,
                            binary_feature(op, &a, &b, if fl { "one constant operand, float" } else { "one constant operand, int" }),
                            vec![n(op, &["a", "b"], &["y"])],
                            vec![mk("a", &a, const_side == 0), mk("b", &b, const_side == 1)],
                        ));
                    }
                }
            }
        }));
    }
}

// ---------------------------------------------------------------------------
// Shape-arithmetic chains: Shape -> Gather -> arithmetic -> Equal / Where /
// ConstantOfShape ..., and folding of constants.

/// One arithmetic step applied to a running scalar value `v`.
#[derive(Clone, Debug)]
enum Step {
    Neg,
    /// v op c
    Right(&'static str, i64),
    /// c op v
    Left(&'static str, i64),
}

/// Feature of an operand derived from a dim by arithmetic steps.
fn operand_feature(_steps: &[&Step]) -> &'static str {
    "operand derived from a dim by Neg/Add/Sub/Mul/Div with constants"
}

fn steps(consts: &[i64]) -> Vec<Step> {
    let mut out = vec![Step::Neg];
    for op in ["Add", "Sub", "Mul", "Div"] {
        for c in consts {
            out.push(Step::Right(op, *c));
            if op == "Sub" || op == "Div" {
                out.push(Step::Left(op, *c));
            }
        }
    }
    out
}

/// Append the nodes of `step` reading `src`, writing `dst`; constants are
/// added to `inputs` as int64 scalar initializers.
fn push_step(step: &Step, src: &str, dst: &str, k: usize, nodes: &mut Vec<Node>, inputs: &mut Vec<TIn>) {
    match step {
        Step::Neg => nodes.push(n("Neg", &[src], &[dst])),
        Step::Right(op, c) => {
            let cn = format!("c{k}");
            inputs.push(TIn::scalar_i64(&cn, *c).as_init());
            nodes.push(n(op, &[src, &cn], &[dst]));
        }
        Step::Left(op, c) => {
            let cn = format!("c{k}");
            inputs.push(TIn::scalar_i64(&cn, *c).as_init());
            nodes.push(n(op, &[&cn, src], &[dst]));
        }
    }
}

fn arithmetic_chains(e: &mut Vec<Entry>) {
    // x[a] -> Shape -> Gather(0) -> step -> Equal(., k)
    e.push(entry("chain Shape>Gather>step>Equal", |tier, sink| {
        let consts: Vec<i64> = SMALL_VALUES.to_vec();
        let ks: Vec<i64> = if tier.is_thorough() { (-9..=9).collect() } else { (-6..=6).collect() };
        for a in SIZES {
            for st in steps(&consts) {
                for k in &ks {
                    let mut nodes = vec![n("Shape", &["x"], &["s"]), n("Gather", &["s", "i0"], &["d"])];
                    let mut inputs = vec![TIn::f32("x", &[a]), TIn::scalar_i64("i0", 0).as_init()];
                    push_step(&st, "d", "v", 0, &mut nodes, &mut inputs);
                    inputs.push(TIn::scalar_i64("k", *k).as_init());
                    nodes.push(n("Equal", &["v", "k"], &["e"]));
                    sink(Case::new("chain Shape>Gather>step>Equal", operand_feature(&[&st]), nodes, inputs).feature_for("Equal"));
                }
            }
        }
    }));
    // two arithmetic steps before the comparison (thorough: all pairs; quick: a sub-grid)
    e.push(entry("chain Shape>Gather>step>step>Equal", |tier, sink| {
        let consts: Vec<i64> = if tier.is_thorough() { vec![-2, -1, 0, 1, 2] } else { vec![-2, 1, 2] };
        let ks: Vec<i64> = if tier.is_thorough() { (-6..=6).collect() } else { vec![-4, -2, 0, 1, 2, 4] };
        let sts = steps(&consts);
        for a in SIZES {
            for s1 in &sts {
                for s2 in &sts {
                    for k in &ks {
                        let mut nodes = vec![n("Shape", &["x"], &["s"]), n("Gather", &["s", "i0"], &["d"])];
                        let mut inputs = vec![TIn::f32("x", &[a]), TIn::scalar_i64("i0", 0).as_init()];
                        push_step(s1, "d", "v1", 0, &mut nodes, &mut inputs);
                        push_step(s2, "v1", "v2", 1, &mut nodes, &mut inputs);
                        inputs.push(TIn::scalar_i64("k", *k).as_init());
                        nodes.push(n("Equal", &["v2", "k"], &["e"]));
                        sink(Case::new("chain Shape>Gather>step>step>Equal", operand_feature(&[s1, s2]), nodes, inputs).feature_for("Equal"));
                    }
                }
            }
        }
    }));
    // Equal of two dims / dim expressions of a rank-2 input, then Where selecting constants.
    e.push(entry("chain Shape>Gather x2>Equal>Where", |_, sink| {
        for a in SIZES {
            for b in SIZES {
                for st in [None, Some(Step::Neg), Some(Step::Right("Mul", -1)), Some(Step::Right("Mul", 2)), Some(Step::Right("Add", 1)), Some(Step::Left("Sub", 3))] {
                    let mut nodes = vec![
                        n("Shape", &["x"], &["s"]),
                        n("Gather", &["s", "i0"], &["d0"]),
                        n("Gather", &["s", "i1"], &["d1"]),
                    ];
                    let mut inputs = vec![TIn::f32("x", &[a, b]), TIn::scalar_i64("i0", 0).as_init(), TIn::scalar_i64("i1", 1).as_init()];
                    let lhs = match &st {
                        None => "d0",
                        Some(s) => {
                            push_step(s, "d0", "v", 0, &mut nodes, &mut inputs);
                            "v"
                        }
                    };
                    nodes.push(n("Equal", &[lhs, "d1"], &["e"]));
                    inputs.push(TIn::scalar_i64("p", 7).as_init());
                    inputs.push(TIn::scalar_i64("q", 9).as_init());
                    nodes.push(n("Where", &["e", "p", "q"], &["w"]));
                    let feature = match &st {
                        None => "operands: two dims",
                        Some(s) => operand_feature(&[s]),
                    };
                    sink(Case::new("chain Shape>Gather x2>Equal>Where", feature, nodes, inputs).feature_for("Equal"));
                }
            }
        }
    }));
    // Expose symbolic values as dims: ... -> Unsqueeze -> ConstantOfShape
    e.push(entry("chain Shape>Gather>step>Unsqueeze>ConstantOfShape", |_, sink| {
        for a in SIZES {
            for st in steps(&SMALL_VALUES) {
                let mut nodes = vec![n("Shape", &["x"], &["s"]), n("Gather", &["s", "i0"], &["d"])];
                let mut inputs = vec![TIn::f32("x", &[a]), TIn::scalar_i64("i0", 0).as_init()];
                push_step(&st, "d", "v", 0, &mut nodes, &mut inputs);
                inputs.push(TIn::vec_i64("ax", &[0]).as_init());
                nodes.push(n("Unsqueeze", &["v", "ax"], &["u"]));
                nodes.push(n("ConstantOfShape", &["u"], &["y"]));
                sink(Case::new("chain Shape>Gather>step>Unsqueeze>ConstantOfShape", operand_feature(&[&st]), nodes, inputs).feature_for("ConstantOfShape"));
            }
        }
    }));
    // Whole-vector arithmetic on Shape(x) then Expand/Reshape/ConstantOfShape
    e.push(entry("chain Shape>vector arithmetic>ConstantOfShape", |tier, sink| {
        for s in all_shapes(tier.pick(2, 3), &SIZES) {
            if s.is_empty() {
                continue;
            }
            for (op, c) in [("Mul", 2i64), ("Add", 1), ("Sub", 1), ("Div", 2), ("Mul", 0), ("Mul", -1), ("Add", -1)] {
                for vec_const in [false, true] {
                    let cvals: Vec<i64> = if vec_const { vec![c; s.len()] } else { vec![c] };
                    let ct = if vec_const { TIn::vec_i64("c", &cvals) } else { TIn::scalar_i64("c", c) };
                    let nodes = vec![n("Shape", &["x"], &["s"]), n(op, &["s", "c"], &["v"]), n("ConstantOfShape", &["v"], &["y"])];
                    sink(Case::new("chain Shape>vector arithmetic>ConstantOfShape", &format!("{op} by {}", if c < 0 { "negative" } else { "non-negative" }), nodes, vec![TIn::f32("x", &s), ct.as_init()]));
                }
            }
        }
    }));
    // Concat of gathered dims and constants, used as a Reshape target.
    e.push(entry("chain Shape>Gather>Unsqueeze>Concat>Reshape", |_, sink| {
        for a in SIZES {
            for b in SIZES {
                for c in [-1i64, 0, 1, 2, 3] {
                    let nodes = vec![
                        n("Shape", &["x"], &["s"]),
                        n("Gather", &["s", "i1"], &["d1"]),
                        n("Unsqueeze", &["d1", "ax"], &["u1"]),
                        n("Concat", &["u1", "cv"], &["t"]).attr("axis", Attr::Int(0)),
                        n("Reshape", &["x", "t"], &["y"]),
                    ];
                    let inputs = vec![
                        TIn::f32("x", &[a, b]),
                        TIn::scalar_i64("i1", 1).as_init(),
                        TIn::vec_i64("ax", &[0]).as_init(),
                        TIn::vec_i64("cv", &[c]).as_init(),
                    ];
                    sink(Case::new("chain Shape>Gather>Unsqueeze>Concat>Reshape", "reshape to [dim, const]", nodes, inputs));
                }
            }
        }
    }));
    // Shape -> Slice[i:i+1] -> Squeeze -> arithmetic -> Unsqueeze -> Concat with a constant -> Expand/ConstantOfShape
    e.push(entry("chain Shape>Slice>Squeeze>step>Unsqueeze>Concat>ConstantOfShape", |_, sink| {
        for a in SIZES {
            for b in [1usize, 2] {
                for i in [0i64, 1] {
                    for st in steps(&[-1, 0, 1, 2]) {
                        let mut nodes = vec![
                            n("Shape", &["x"], &["s"]),
                            n("Slice", &["s", "b0", "b1"], &["sl"]),
                            n("Squeeze", &["sl", "ax"], &["d"]),
                        ];
                        let mut inputs = vec![TIn::f32("x", &[a, b]), vin("b0", &[i], true), vin("b1", &[i + 1], true), vin("ax", &[0], true), vin("cv", &[2], true)];
                        push_step(&st, "d", "v", 0, &mut nodes, &mut inputs);
                        nodes.push(n("Unsqueeze", &["v", "ax"], &["u"]));
                        nodes.push(n("Concat", &["cv", "u"], &["t"]).attr("axis", Attr::Int(0)));
                        nodes.push(n("ConstantOfShape", &["t"], &["y"]));
                        sink(Case::new("chain Shape>Slice>Squeeze>step>Unsqueeze>Concat>ConstantOfShape", "dim arithmetic through Slice/Squeeze", nodes, inputs));
                    }
                }
            }
        }
    }));
    // Cast in the chain (int -> float -> arithmetic -> int), as exported by PyTorch for Resize sizes.
    e.push(entry("chain Shape>Cast>arith>Cast", |_, sink| {
        for a in SIZES {
            for (op, c) in [("Mul", 2.0f32), ("Mul", 0.5), ("Div", 2.0), ("Div", 0.5), ("Add", 1.0), ("Sub", 1.0)] {
                let nodes = vec![
                    n("Shape", &["x"], &["s"]),
                    n("Cast", &["s"], &["sf"]).attr("to", Attr::Int(dtype::FLOAT as i64)),
                    n(op, &["sf", "c"], &["vf"]),
                    n("Cast", &["vf"], &["vi"]).attr("to", Attr::Int(dtype::INT64 as i64)),
                    n("ConstantOfShape", &["vi"], &["y"]),
                ];
                sink(Case::new("chain Shape>Cast>arith>Cast", "float arithmetic on a shape", nodes, vec![TIn::f32("x", &[a]), TIn::floats("c", &[], &[c]).as_init()]));
            }
        }
    }));
    // Constant folding: op(c1, c2) with both operands initializers.
    e.push(entry("constant folding int", |tier, sink| {
        let vals: Vec<i64> = SMALL_VALUES.iter().chain(BIG_VALUES.iter()).copied().collect();
        for op in ["Add", "Sub", "Mul", "Div", "Equal"] {
            for dt in [dtype::INT64, dtype::INT32] {
                if dt == dtype::INT32 && !tier.is_thorough() && op != "Div" {
                    continue;
                }
                for x in &vals {
                    for y in &vals {
                        if op == "Div" && *y == 0 {
                            continue; // integer division by zero: execution aborts the operator, no claim to compare
                        }
                        sink(Case::new(
                            "constant folding int",
                            "int constant operands",
                            vec![n(op, &["a", "b"], &["y"])],
                            vec![TIn::ints("a", dt, &[], &[*x]).as_init(), TIn::ints("b", dt, &[], &[*y]).as_init()],
                        ));
                    }
                }
            }
        }
    }));
    e.push(entry("constant folding float", |_, sink| {
        // small integral / non-integral values, the edge of f32's exact integer
        // range (2^24) and values near the i32 limits
        let vals: Vec<f32> = vec![-3.0, -2.0, -1.0, 0.0, 1.0, 2.0, 3.0, 0.5, 2.5, 4096.0, 65536.0, 16777215.0, 16777216.0, 1073741824.0, -2147483648.0];
        for op in ["Add", "Sub", "Mul", "Div", "Equal"] {
            for x in &vals {
                for y in &vals {
                    sink(Case::new("constant folding float", "float constant operands", vec![n(op, &["a", "b"], &["y"])], vec![TIn::floats("a", &[], &[*x]).as_init(), TIn::floats("b", &[], &[*y]).as_init()]));
                }
            }
        }
    }));
    e.push(entry("constant folding vectors", |_, sink| {
        // vector (len 0..3) with scalar / vector of len 1 / same length
        for op in ["Add", "Mul", "Sub", "Div", "Equal"] {
            for la in 0..=3usize {
                for shape_b in [None, Some(1usize), Some(la)] {
                    for fl in [false, true] {
                        let a: Vec<i64> = (0..la).map(|i| i as i64 + 1).collect();
                        let (bs, bv): (Vec<usize>, Vec<i64>) = match shape_b {
                            None => (vec![], vec![2]),
                            Some(l) => (vec![l], (0..l).map(|i| 2 + i as i64).collect()),
                        };
                        let (ta, tb) = if fl {
                            (
                                TIn::floats("a", &[la], &a.iter().map(|v| *v as f32).collect::<Vec<_>>()),
                                TIn::floats("b", &bs, &bv.iter().map(|v| *v as f32).collect::<Vec<_>>()),
                            )
                        } else {
                            (TIn::ints("a", dtype::INT64, &[la], &a), TIn::ints("b", dtype::INT64, &bs, &bv))
                        };
                        for swap in [false, true] {
                            let ins: [&str; 2] = if swap { ["b", "a"] } else { ["a", "b"] };
                            let (ls, rs): (&[usize], &[usize]) = if swap { (&bs, &[la]) } else { (&[la], &bs) };
                            sink(Case::new(
                                "constant folding vectors",
                                binary_feature(op, ls, rs, if fl { "float constant operands" } else { "int constant operands" }),
                                vec![n(op, &ins, &["y"])],
                                vec![ta.clone().as_init(), tb.clone().as_init()],
                            ));
                        }
                    }
                }
            }
        }
    }));
    // Where with constant condition from Equal of constants and scalar/vector branches.
    e.push(entry("Where with constant inputs", |_, sink| {
        for cond_shape in [vec![], vec![1usize], vec![2]] {
            for x_shape in [vec![], vec![1usize], vec![2]] {
                for y_shape in [vec![], vec![1usize], vec![2]] {
                    let mk = |nm: &str, s: &Vec<usize>, base: i64| {
                        let c: usize = s.iter().product();
                        TIn::ints(nm, dtype::INT64, s, &(0..c).map(|i| base + i as i64).collect::<Vec<_>>()).as_init()
                    };
                    let cc: usize = cond_shape.iter().product();
                    for cbase in [0i64, 1] {
                        let k = TIn::ints("k", dtype::INT64, &cond_shape, &(0..cc).map(|i| (cbase + i as i64) % 2).collect::<Vec<_>>()).as_init();
                        let one = TIn::scalar_i64("one", 1).as_init();
                        let nodes = vec![n("Equal", &["k", "one"], &["c"]), n("Where", &["c", "p", "q"], &["w"])];
                        sink(Case::new("Where with constant inputs", "general", nodes, vec![k, one, mk("p", &x_shape, 10), mk("q", &y_shape, 20)]));
                    }
                }
            }
        }
    }));
}

// ---------------------------------------------------------------------------
// Layout operators

fn layout_ops(e: &mut Vec<Entry>, tier_outer: Tier) {
    e.push(entry("Shape", |tier, sink| {
        let bounds: Vec<Option<i64>> = std::iter::once(None).chain((-3..=3).map(Some)).collect();
        for s in data_shapes(tier) {
            for st in &bounds {
                for en in &bounds {
                    let mut node = n("Shape", &["x"], &["y"]);
                    if let Some(v) = st {
                        node = node.attr("start", Attr::Int(*v));
                    }
                    if let Some(v) = en {
                        node = node.attr("end", Attr::Int(*v));
                    }
                    sink(Case::new("Shape", "start/end attributes", vec![node], vec![TIn::f32("x", &s)]));
                }
            }
        }
    }));
    e.push(entry("Size", |tier, sink| {
        for s in data_shapes(tier) {
            sink(Case::new("Size", "dynamic data", vec![n("Size", &["x"], &["y"])], vec![TIn::f32("x", &s)]));
        }
    }));
    e.push(entry("Flatten", |tier, sink| {
        for s in data_shapes(tier) {
            let r = s.len() as i64;
            for axis in -(r + 1)..=(r + 1) {
                sink(Case::new("Flatten", "axis attribute", vec![n("Flatten", &["x"], &["y"]).attr("axis", Attr::Int(axis))], vec![TIn::f32("x", &s)]));
            }
            sink(Case::new("Flatten", "default axis", vec![n("Flatten", &["x"], &["y"])], vec![TIn::f32("x", &s)]));
        }
    }));
    e.push(entry("Transpose", |tier, sink| {
        for s in data_shapes(tier) {
            sink(Case::new("Transpose", "default perm", vec![n("Transpose", &["x"], &["y"])], vec![TIn::f32("x", &s)]));
            for p in perms(s.len()) {
                sink(Case::new("Transpose", "perm attribute", vec![n("Transpose", &["x"], &["y"]).attr("perm", Attr::Ints(p))], vec![TIn::f32("x", &s)]));
            }
        }
    }));
    e.push(entry("Squeeze", |tier, sink| {
        for s in data_shapes(tier) {
            let r = s.len();
            sink(Case::new("Squeeze", "no axes", vec![n("Squeeze", &["x"], &["y"])], vec![TIn::f32("x", &s)]));
            for sub in subsets(r) {
                if sub.is_empty() && r > 0 {
                    // an explicit empty axes vector
                    sink(Case::new("Squeeze", "empty axes input", vec![n("Squeeze", &["x", "ax"], &["y"])], vec![TIn::f32("x", &s), vin("ax", &[], true)]));
                    continue;
                }
                let pos: Vec<i64> = sub.iter().map(|a| *a as i64).collect();
                let neg: Vec<i64> = sub.iter().map(|a| neg_axis(*a, r)).collect();
                for axes in [pos, neg] {
                    for (init, feat) in value_modes() {
                        sink(Case::new("Squeeze", feat, vec![n("Squeeze", &["x", "ax"], &["y"])], vec![TIn::f32("x", &s), vin("ax", &axes, init)]));
                    }
                    // attribute form (opset < 13)
                    sink(Case::new("Squeeze", "axes attribute (opset 11)", vec![n("Squeeze", &["x"], &["y"]).attr("axes", Attr::Ints(axes.clone()))], vec![TIn::f32("x", &s)]).opset(11));
                }
            }
        }
        // constant vector of length 1 -> scalar value
        for v in [-2i64, 0, 5] {
            for axes in [None, Some(vec![0i64]), Some(vec![-1])] {
                let mut ins = vec![TIn::vec_i64("x", &[v]).as_init()];
                let node = match &axes {
                    None => n("Squeeze", &["x"], &["y"]),
                    Some(a) => {
                        ins.push(vin("ax", a, true));
                        n("Squeeze", &["x", "ax"], &["y"])
                    }
                };
                sink(Case::new("Squeeze", "constant vector operand", vec![node], ins));
            }
        }
    }));
    e.push(entry("Unsqueeze", |tier, sink| {
        for s in data_shapes(tier) {
            let r = s.len();
            // one or two new axes anywhere in the output
            let mut axes_sets: Vec<Vec<usize>> = Vec::new();
            for a in 0..=r {
                axes_sets.push(vec![a]);
            }
            for a in 0..=(r + 1) {
                for b in (a + 1)..=(r + 1) {
                    axes_sets.push(vec![a, b]);
                    axes_sets.push(vec![b, a]);
                }
            }
            for axs in axes_sets {
                let out_rank = r + axs.len();
                let pos: Vec<i64> = axs.iter().map(|a| *a as i64).collect();
                let neg: Vec<i64> = axs.iter().map(|a| neg_axis(*a, out_rank)).collect();
                for axes in [pos, neg] {
                    for (init, feat) in value_modes() {
                        sink(Case::new("Unsqueeze", feat, vec![n("Unsqueeze", &["x", "ax"], &["y"])], vec![TIn::f32("x", &s), vin("ax", &axes, init)]));
                    }
                    sink(Case::new("Unsqueeze", "axes attribute (opset 11)", vec![n("Unsqueeze", &["x"], &["y"]).attr("axes", Attr::Ints(axes.clone()))], vec![TIn::f32("x", &s)]).opset(11));
                }
            }
        }
        for v in [-2i64, 0, 5] {
            for axes in [vec![0i64], vec![-1], vec![0, 1]] {
                sink(Case::new("Unsqueeze", "constant scalar operand", vec![n("Unsqueeze", &["x", "ax"], &["y"])], vec![TIn::scalar_i64("x", v).as_init(), vin("ax", &axes, true)]));
            }
        }
    }));
    e.push(entry("Expand", |tier, sink| {
        let targets = all_shapes(tier.pick(2, 3), &SIZES);
        for s in all_shapes(2, &SIZES) {
            for t in &targets {
                if broadcast_shapes(&s, t).is_none() {
                    continue;
                }
                let tv: Vec<i64> = t.iter().map(|d| *d as i64).collect();
                for (init, feat) in value_modes() {
                    sink(Case::new("Expand", feat, vec![n("Expand", &["x", "sh"], &["y"])], vec![TIn::f32("x", &s), vin("sh", &tv, init)]));
                }
            }
        }
    }));
    for shard_rank in 0..=tier_outer.pick(3usize, 4usize) {
    for shard_allowzero in [false, true] {
    e.push(entry(&format!("Reshape (data rank {shard_rank}, allowzero={})", shard_allowzero as u8), move |tier, sink| {
        let alphabet: [i64; 8] = [-1, 0, 1, 2, 3, 4, 6, 9];
        let mut targets: Vec<Vec<i64>> = vec![vec![]];
        let mut cur: Vec<Vec<i64>> = vec![vec![]];
        for _ in 0..tier.pick(2, 3) {
            let mut next = Vec::new();
            for t in &cur {
                for a in alphabet {
                    let mut u = t.clone();
                    u.push(a);
                    next.push(u);
                }
            }
            targets.extend(next.iter().cloned());
            cur = next;
        }
        for s in data_shapes(tier).into_iter().filter(|s| s.len() == shard_rank) {
            let numel: usize = s.iter().product();
            for allowzero in [shard_allowzero] {
                for t in &targets {
                    // keep only targets that are valid by the ONNX rules
                    if t.iter().filter(|v| **v == -1).count() > 1 {
                        continue;
                    }
                    let mut resolved: Vec<Option<usize>> = Vec::new();
                    let mut ok = true;
                    for (i, v) in t.iter().enumerate() {
                        if *v == -1 {
                            resolved.push(None);
                        } else if *v == 0 && !allowzero {
                            match s.get(i) {
                                Some(d) => resolved.push(Some(*d)),
                                None => ok = false,
                            }
                        } else {
                            resolved.push(Some(*v as usize));
                        }
                    }
                    if !ok {
                        continue;
                    }
                    let known: usize = resolved.iter().flatten().product();
                    let valid = if resolved.iter().any(|r| r.is_none()) {
                        if known == 0 { false } else { numel % known == 0 }
                    } else {
                        known == numel
                    };
                    if !valid {
                        continue;
                    }
                    for (init, feat) in value_modes() {
                        let mut node = n("Reshape", &["x", "sh"], &["y"]);
                        if allowzero {
                            node = node.attr("allowzero", Attr::Int(1));
                        }
                        sink(Case::new("Reshape", feat, vec![node], vec![TIn::f32("x", &s), vin("sh", t, init)]));
                    }
                }
            }
        }
        // value-preserving reshapes of constant scalars / vectors
        if shard_rank > 0 || shard_allowzero {
            return;
        }
        for (x, sh) in [(TIn::scalar_i64("x", 4), vec![]), (TIn::scalar_i64("x", 4), vec![1i64]), (TIn::vec_i64("x", &[4, 5]), vec![-1]), (TIn::vec_i64("x", &[4, 5]), vec![2]), (TIn::vec_i64("x", &[4]), vec![])] {
            sink(Case::new("Reshape", "constant scalar/vector data", vec![n("Reshape", &["x", "sh"], &["y"])], vec![x.as_init(), vin("sh", &sh, true)]));
        }
    }));
    }
    }
    e.push(entry("DepthToSpace", |_, sink| {
        for nb in [0usize, 1, 2] {
            for c in [4usize, 8, 9] {
                for h in [0usize, 1, 2] {
                    for w in [1usize, 3] {
                        for bs in [1i64, 2, 3] {
                            for mode in ["DCR", "CRD"] {
                                sink(Case::new(
                                    "DepthToSpace",
                                    "blocksize/mode attributes",
                                    vec![n("DepthToSpace", &["x"], &["y"]).attr("blocksize", Attr::Int(bs)).attr("mode", Attr::Str(mode.into()))],
                                    vec![TIn::f32("x", &[nb, c, h, w])],
                                ));
                            }
                        }
                    }
                }
            }
        }
    }));
    e.push(entry("Concat", |tier, sink| {
        for r in 1..=tier.pick(2, 3) {
            let sizes: &[usize] = if r <= 2 { &SIZES } else { &[0, 1, 2] };
            for base in shapes_of_rank(r, sizes) {
                for axis in 0..r {
                    for d1 in [0usize, 1, 2] {
                        let mut b = base.clone();
                        b[axis] = d1;
                        for ax in [axis as i64, neg_axis(axis, r)] {
                            sink(Case::new("Concat", "two dynamic inputs", vec![n("Concat", &["a", "b"], &["y"]).attr("axis", Attr::Int(ax))], vec![TIn::f32("a", &base), TIn::f32("b", &b)]));
                        }
                        if r <= 2 {
                            let mut c = base.clone();
                            c[axis] = 3;
                            sink(Case::new(
                                "Concat",
                                "three inputs, middle one constant",
                                vec![n("Concat", &["a", "b", "c"], &["y"]).attr("axis", Attr::Int(axis as i64))],
                                vec![TIn::f32("a", &base), TIn::f32("b", &b).as_init(), TIn::f32("c", &c)],
                            ));
                        }
                    }
                }
            }
        }
        // constant vectors: the value path
        for la in 0..=2usize {
            for lb in 0..=2usize {
                let a: Vec<i64> = (0..la as i64).collect();
                let b: Vec<i64> = (10..10 + lb as i64).collect();
                for ax in [0i64, -1] {
                    sink(Case::new("Concat", "constant vector inputs", vec![n("Concat", &["a", "b"], &["y"]).attr("axis", Attr::Int(ax))], vec![vin("a", &a, true), vin("b", &b, true)]));
                }
            }
        }
    }));
    e.push(entry("Tile", |tier, sink| {
        for s in all_shapes(tier.pick(2, 3), &[0, 1, 2]) {
            let r = s.len();
            for rep in all_shapes(r, &[0, 1, 2]).into_iter().filter(|v| v.len() == r) {
                let rv: Vec<i64> = rep.iter().map(|v| *v as i64).collect();
                for (init, feat) in value_modes() {
                    sink(Case::new("Tile", feat, vec![n("Tile", &["x", "rep"], &["y"])], vec![TIn::f32("x", &s), vin("rep", &rv, init)]));
                }
            }
        }
    }));
    e.push(entry("Split", |tier, sink| {
        // compositions of d into 1..3 parts with parts from 0..=3
        fn compositions(d: usize, parts: usize) -> Vec<Vec<i64>> {
            if parts == 0 {
                return if d == 0 { vec![vec![]] } else { vec![] };
            }
            let mut out = Vec::new();
            for first in 0..=d.min(3) {
                for mut rest in compositions(d - first, parts - 1) {
                    rest.insert(0, first as i64);
                    out.push(rest);
                }
            }
            out
        }
        for s in all_shapes(tier.pick(2, 3), &SIZES) {
            let r = s.len();
            for axis in 0..r {
                for parts in 1..=3usize {
                    for comp in compositions(s[axis], parts) {
                        let outs: Vec<String> = (0..parts).map(|i| format!("y{i}")).collect();
                        let outs_ref: Vec<&str> = outs.iter().map(|s| s.as_str()).collect();
                        for ax in [axis as i64, neg_axis(axis, r)] {
                            for (init, feat) in value_modes() {
                                sink(Case::new("Split", feat, vec![n("Split", &["x", "sp"], &outs_ref).attr("axis", Attr::Int(ax))], vec![TIn::f32("x", &s), vin("sp", &comp, init)]));
                            }
                            sink(Case::new("Split", "split attribute (opset 11)", vec![n("Split", &["x"], &outs_ref).attr("axis", Attr::Int(ax)).attr("split", Attr::Ints(comp.clone()))], vec![TIn::f32("x", &s)]).opset(11));
                        }
                    }
                    // equal split without explicit sizes
                    if s[axis] % parts == 0 {
                        let outs: Vec<String> = (0..parts).map(|i| format!("y{i}")).collect();
                        let outs_ref: Vec<&str> = outs.iter().map(|s| s.as_str()).collect();
                        sink(Case::new(
                            "Split",
                            "num_outputs attribute",
                            vec![n("Split", &["x"], &outs_ref).attr("axis", Attr::Int(axis as i64)).attr("num_outputs", Attr::Int(parts as i64))],
                            vec![TIn::f32("x", &s)],
                        ));
                    }
                }
            }
        }
    }));
}

// ---------------------------------------------------------------------------
// Indexing / generating operators

/// Input class of a 1-D slice (dim d, start, end, step).
fn slice_feature(d: usize, st: i64, en: i64, step: i64) -> &'static str {
    let d = d as i64;
    if step < 0 {
        if st < -d || en < -d {
            "negative step, start or end below -dim"
        } else if en >= i32::MAX as i64 {
            "negative step, end is the INT_MAX sentinel"
        } else {
            "negative step"
        }
    } else {
        let norm = |v: i64| (if v < 0 { v.saturating_add(d) } else { v }).clamp(0, d);
        if norm(st) > norm(en) { "positive step, start beyond end" } else { "positive step" }
    }
}

fn index_ops(e: &mut Vec<Entry>) {
    e.push(entry("Slice 1-D", |tier, sink| {
        let big = i32::MAX as i64;
        let bounds: Vec<i64> = if tier.is_thorough() {
            vec![-big - 1, i64::MIN, -5, -4, -3, -2, -1, 0, 1, 2, 3, 4, 5, big, i64::MAX]
        } else {
            vec![-big - 1, -4, -3, -2, -1, 0, 1, 2, 3, 4, big, i64::MAX]
        };
        for d in SIZES {
            for st in &bounds {
                for en in &bounds {
                    for step in [None, Some(1i64), Some(2), Some(-1), Some(-2)] {
                        for axes in [None, Some(0i64), Some(-1)] {
                            for (init, mode) in value_modes() {
                                // With `axes` omitted and `steps` present, the in-place
                                // execution path re-packs its inputs; that class gets one
                                // feature of its own whatever the bounds are.
                                let feat = if axes.is_none() && step.is_some() {
                                    format!("{mode}; axes omitted but steps given")
                                } else {
                                    format!("{mode}; {}", slice_feature(d, *st, *en, step.unwrap_or(1)))
                                };
                                let feat = feat.as_str();
                                let mut ins = vec![TIn::f32("x", &[d]), vin("st", &[*st], init), vin("en", &[*en], init)];
                                let mut names = vec!["x", "st", "en"];
                                if axes.is_some() || step.is_some() {
                                    match axes {
                                        Some(a) => {
                                            ins.push(vin("ax", &[a], true));
                                            names.push("ax");
                                        }
                                        None => names.push(""),
                                    }
                                }
                                if let Some(sv) = step {
                                    ins.push(vin("sp", &[sv], init));
                                    names.push("sp");
                                }
                                sink(Case::new("Slice 1-D", feat, vec![n("Slice", &names, &["y"])], ins));
                            }
                        }
                    }
                }
            }
        }
    }));
    e.push(entry("Slice 2-D", |tier, sink| {
        let bounds: Vec<i64> = if tier.is_thorough() { vec![-3, -1, 0, 1, 2, 3, i32::MAX as i64] } else { vec![-1, 0, 1, 3, i32::MAX as i64] };
        for s in shapes_of_rank(2, &[0, 1, 2, 3]) {
            for axes in [vec![0i64, 1], vec![1, 0], vec![-1], vec![0]] {
                let k = axes.len();
                // same bounds on every sliced axis (keeps the grid small) and all pairs for single-axis slices
                for st in &bounds {
                    for en in &bounds {
                        let stv = vec![*st; k];
                        let env = vec![*en; k];
                        let worst = axes.iter().map(|a| slice_feature(s[(if *a < 0 { *a + 2 } else { *a }) as usize], *st, *en, 1)).max().unwrap();
                        sink(Case::new(
                            "Slice 2-D",
                            &format!("constant value input; {worst}"),
                            vec![n("Slice", &["x", "st", "en", "ax"], &["y"])],
                            vec![TIn::f32("x", &s), vin("st", &stv, true), vin("en", &env, true), vin("ax", &axes, true)],
                        ));
                    }
                }
            }
        }
        // attribute form (opset 9)
        for s in shapes_of_rank(2, &[1, 2, 3]) {
            for (st, en) in [(0i64, 1i64), (1, 3), (0, -1), (-2, i32::MAX as i64)] {
                sink(Case::new(
                    "Slice 2-D",
                    "starts/ends/axes attributes (opset 9)",
                    vec![n("Slice", &["x"], &["y"]).attr("starts", Attr::Ints(vec![st])).attr("ends", Attr::Ints(vec![en])).attr("axes", Attr::Ints(vec![1]))],
                    vec![TIn::f32("x", &s)],
                ).opset(9));
            }
        }
    }));
    e.push(entry("Slice of a shape vector", |_, sink| {
        // Shape(x) -> Slice(starts, ends) -> ConstantOfShape: symbolic values sliced
        for s in all_shapes(3, &[1, 2, 3]).into_iter().filter(|s| !s.is_empty()) {
            for st in [-3i64, -1, 0, 1, 2] {
                for en in [-1i64, 0, 1, 2, 3, i32::MAX as i64] {
                    for step in [None, Some(1i64), Some(2), Some(-1)] {
                        let mut ins = vec![TIn::f32("x", &s), vin("st", &[st], true), vin("en", &[en], true)];
                        let mut names = vec!["sh", "st", "en"];
                        if let Some(sv) = step {
                            ins.push(vin("ax", &[0], true));
                            ins.push(vin("sp", &[sv], true));
                            names.push("ax");
                            names.push("sp");
                        }
                        let nodes = vec![n("Shape", &["x"], &["sh"]), n("Slice", &names, &["sl"]), n("ConstantOfShape", &["sl"], &["y"])];
                        sink(Case::new("Slice of a shape vector", &format!("slicing a symbolic vector; {}", slice_feature(s.len(), st, en, step.unwrap_or(1))), nodes, ins).feature_for("Slice"));
                    }
                }
            }
        }
    }));
    e.push(entry("Slice with dim-derived bounds", |_, sink| {
        // x[a] -> Shape -> Gather -> (+c) -> Unsqueeze -> used as start or end of a Slice of z[b]
        for a in SIZES {
            for b in SIZES {
                for c in [-2i64, -1, 0, 1] {
                    for as_start in [false, true] {
                        for other in [0i64, 1, 2, i32::MAX as i64] {
                            let mut nodes = vec![
                                n("Shape", &["x"], &["s"]),
                                n("Gather", &["s", "i0"], &["d"]),
                                n("Add", &["d", "c"], &["v"]),
                                n("Unsqueeze", &["v", "ax0"], &["u"]),
                            ];
                            let ins = vec![
                                TIn::f32("x", &[a]),
                                TIn::f32("z", &[b]),
                                TIn::scalar_i64("i0", 0).as_init(),
                                TIn::scalar_i64("c", c).as_init(),
                                vin("ax0", &[0], true),
                                vin("o", &[other], true),
                            ];
                            if as_start {
                                nodes.push(n("Slice", &["z", "u", "o"], &["y"]));
                            } else {
                                nodes.push(n("Slice", &["z", "o", "u"], &["y"]));
                            }
                            sink(Case::new("Slice with dim-derived bounds", if as_start { "symbolic start, constant end" } else { "constant start, symbolic end" }, nodes, ins).feature_for("Slice"));
                        }
                    }
                }
            }
        }
    }));
    e.push(entry("Gather", |tier, sink| {
        for s in all_shapes(tier.pick(2, 3), &[1, 2, 3]).into_iter().filter(|s| !s.is_empty()) {
            let r = s.len();
            for axis in 0..r {
                let d = s[axis] as i64;
                for idx_shape in all_shapes(2, &[0, 1, 2]) {
                    let cnt: usize = idx_shape.iter().product();
                    let vals: Vec<i64> = (0..cnt).map(|i| if i % 2 == 0 { (i as i64) % d } else { -1 - (i as i64 % d) }).collect();
                    for ax in [axis as i64, neg_axis(axis, r)] {
                        for (init, feat) in value_modes() {
                            let mut idx = TIn::ints("i", dtype::INT64, &idx_shape, &vals);
                            idx.init = init;
                            sink(Case::new("Gather", feat, vec![n("Gather", &["x", "i"], &["y"]).attr("axis", Attr::Int(ax))], vec![TIn::f32("x", &s), idx]));
                        }
                    }
                }
            }
        }
        // zero-size data with empty indices
        for s in [vec![0usize], vec![0, 2], vec![2, 0]] {
            sink(Case::new("Gather", "constant value input", vec![n("Gather", &["x", "i"], &["y"])], vec![TIn::f32("x", &s), TIn::ints("i", dtype::INT64, &[0], &[]).as_init()]));
        }
        // constant vector data: value path
        for data in [vec![5i64], vec![5, 6, 7]] {
            for idx in [vec![0i64], vec![-1], vec![0, 0], vec![]] {
                if idx.iter().any(|i| *i >= data.len() as i64) {
                    continue;
                }
                sink(Case::new("Gather", "constant vector data", vec![n("Gather", &["x", "i"], &["y"])], vec![vin("x", &data, true), vin("i", &idx, true)]));
            }
            for idx in [0i64, -1] {
                sink(Case::new("Gather", "constant vector data", vec![n("Gather", &["x", "i"], &["y"])], vec![vin("x", &data, true), TIn::scalar_i64("i", idx).as_init()]));
            }
        }
    }));
    e.push(entry("Gather on a shape", |tier, sink| {
        for s in all_shapes(tier.pick(2, 3), &SIZES).into_iter().filter(|s| !s.is_empty()) {
            let r = s.len() as i64;
            for i in -r..r {
                let nodes = vec![n("Shape", &["x"], &["s"]), n("Gather", &["s", "i"], &["d"]), n("Unsqueeze", &["d", "ax"], &["u"]), n("ConstantOfShape", &["u"], &["y"])];
                sink(Case::new("Gather on a shape", "scalar index into Shape", nodes, vec![TIn::f32("x", &s), TIn::scalar_i64("i", i).as_init(), vin("ax", &[0], true)]));
                let nodes = vec![n("Shape", &["x"], &["s"]), n("Gather", &["s", "i"], &["d"]), n("ConstantOfShape", &["d"], &["y"])];
                sink(Case::new("Gather on a shape", "vector index into Shape", nodes, vec![TIn::f32("x", &s), vin("i", &[i, 0], true)]));
            }
        }
    }));
    e.push(entry("GatherElements", |tier, sink| {
        for s in all_shapes(2, &[1, 2, 3]).into_iter().filter(|s| !s.is_empty()) {
            let r = s.len();
            for axis in 0..r {
                for idx_shape in shapes_of_rank(r, &[0, 1, 2]) {
                    if idx_shape.iter().zip(&s).enumerate().any(|(i, (a, b))| i != axis && a > b) {
                        continue;
                    }
                    let cnt: usize = idx_shape.iter().product();
                    let vals: Vec<i64> = (0..cnt).map(|i| (i % s[axis]) as i64).collect();
                    for (init, feat) in value_modes() {
                        let mut idx = TIn::ints("i", dtype::INT64, &idx_shape, &vals);
                        idx.init = init;
                        sink(Case::new("GatherElements", feat, vec![n("GatherElements", &["x", "i"], &["y"]).attr("axis", Attr::Int(axis as i64))], vec![TIn::f32("x", &s), idx]));
                    }
                }
            }
        }
        let _ = tier;
    }));
    e.push(entry("GatherND", |tier, sink| {
        for s in all_shapes(tier.pick(2, 3), &[1, 2]).into_iter().filter(|s| !s.is_empty()) {
            let r = s.len();
            for batch_dims in 0..r.min(2) {
                for tuple in 1..=(r - batch_dims) {
                    // indices shape: batch dims + [k] + [tuple]
                    for k in [0usize, 1, 2] {
                        let mut ishape: Vec<usize> = s[..batch_dims].to_vec();
                        ishape.push(k);
                        ishape.push(tuple);
                        let cnt: usize = ishape.iter().product();
                        let vals = vec![0i64; cnt];
                        for (init, feat) in value_modes() {
                            let mut idx = TIn::ints("i", dtype::INT64, &ishape, &vals);
                            idx.init = init;
                            sink(Case::new("GatherND", feat, vec![n("GatherND", &["x", "i"], &["y"]).attr("batch_dims", Attr::Int(batch_dims as i64))], vec![TIn::f32("x", &s), idx]));
                        }
                    }
                }
            }
        }
    }));
    e.push(entry("Pad", |tier, sink| {
        for s in all_shapes(2, &SIZES).into_iter().filter(|s| !s.is_empty()) {
            let r = s.len();
            let pvals: &[i64] = if tier.is_thorough() { &[-1, 0, 1, 2] } else { &[0, 1, 2] };
            let mut pads: Vec<Vec<i64>> = vec![vec![]];
            for _ in 0..(2 * r) {
                let mut next = Vec::new();
                for p in &pads {
                    for v in pvals {
                        let mut q = p.clone();
                        q.push(*v);
                        next.push(q);
                    }
                }
                pads = next;
            }
            for p in pads {
                for mode in ["constant", "edge"] {
                    for (init, feat) in value_modes() {
                        sink(Case::new("Pad", feat, vec![n("Pad", &["x", "p"], &["y"]).attr("mode", Attr::Str(mode.into()))], vec![TIn::f32("x", &s), vin("p", &p, init)]));
                    }
                }
            }
        }
        // axes input and attribute form
        for s in shapes_of_rank(2, &[1, 2, 3]) {
            for ax in [0i64, 1, -1] {
                for (b, a) in [(0i64, 1i64), (2, 0), (1, 1)] {
                    for ax_init in [true, false] {
                        sink(Case::new("Pad", "axes input", vec![n("Pad", &["x", "p", "", "ax"], &["y"])], vec![TIn::f32("x", &s), vin("p", &[b, a], true), vin("ax", &[ax], ax_init)]));
                    }
                }
            }
            sink(Case::new("Pad", "pads attribute (opset 2)", vec![n("Pad", &["x"], &["y"]).attr("pads", Attr::Ints(vec![1, 0, 0, 2]))], vec![TIn::f32("x", &s)]).opset(2));
        }
    }));
    e.push(entry("ConstantOfShape", |tier, sink| {
        for t in all_shapes(tier.pick(2, 3), &SIZES) {
            let tv: Vec<i64> = t.iter().map(|d| *d as i64).collect();
            for (init, feat) in value_modes() {
                for value in [None, Some(vp_onnx::Tensor::i64("", &[1], &[7])), Some(vp_onnx::Tensor::f32("", &[1], &[2.5])), Some(vp_onnx::Tensor::i32("", &[1], &[-1]))] {
                    let mut node = n("ConstantOfShape", &["sh"], &["y"]);
                    if let Some(v) = value {
                        node = node.attr("value", Attr::Tensor(v));
                    }
                    sink(Case::new("ConstantOfShape", feat, vec![node], vec![vin("sh", &tv, init)]));
                }
            }
        }
    }));
    e.push(entry("OneHot", |tier, sink| {
        for s in all_shapes(2, &[0, 1, 2]) {
            let r = s.len() as i64;
            let cnt: usize = s.iter().product();
            for depth in [0i64, 1, 3] {
                for axis in -(r + 1)..=r {
                    for (init, feat) in value_modes() {
                        for depth_vec in [false, true] {
                            let mut dt = if depth_vec { TIn::vec_i64("depth", &[depth]) } else { TIn::scalar_i64("depth", depth) };
                            dt.init = init;
                            sink(Case::new(
                                "OneHot",
                                feat,
                                vec![n("OneHot", &["i", "depth", "vals"], &["y"]).attr("axis", Attr::Int(axis))],
                                vec![TIn::ints("i", dtype::INT64, &s, &vec![0; cnt]), dt, TIn::floats("vals", &[2], &[0.0, 1.0]).as_init()],
                            ));
                        }
                    }
                }
            }
        }
        let _ = tier;
    }));
    e.push(entry("Range", |tier, sink| {
        let vals: Vec<i64> = if tier.is_thorough() { (-4..=4).collect() } else { vec![-3, -1, 0, 1, 2, 3] };
        for st in &vals {
            for li in &vals {
                for de in &vals {
                    if *de == 0 {
                        continue;
                    }
                    for dt in [dtype::INT64, dtype::INT32] {
                        for (init, feat) in value_modes() {
                            let mk = |nm: &str, v: i64| {
                                let mut t = TIn::ints(nm, dt, &[], &[v]);
                                t.init = init;
                                t
                            };
                            sink(Case::new("Range", feat, vec![n("Range", &["s", "l", "d"], &["y"])], vec![mk("s", *st), mk("l", *li), mk("d", *de)]));
                        }
                    }
                }
            }
        }
        for (st, li, de) in [(0.0f32, 3.0f32, 1.0f32), (0.0, 2.5, 1.0), (0.5, 3.0, 1.0), (0.0, 1.0, 0.25), (3.0, 0.0, -1.0), (0.0, 3.0, 2.0), (1.0, 2.0, 0.5)] {
            sink(Case::new("Range", "float constant operands", vec![n("Range", &["s", "l", "d"], &["y"])], vec![TIn::floats("s", &[], &[st]).as_init(), TIn::floats("l", &[], &[li]).as_init(), TIn::floats("d", &[], &[de]).as_init()]));
        }
    }));
    e.push(entry("Range with dim-derived operands", |_, sink| {
        // Range(start, limit, delta) where one operand is a dim of x (optionally shifted)
        for a in SIZES {
            for c in [-2i64, 0, 1] {
                for which in 0..3 {
                    for o1 in [-1i64, 0, 1, 2, 3] {
                        for o2 in [-1i64, 1, 2] {
                            let mut nodes = vec![n("Shape", &["x"], &["s"]), n("Gather", &["s", "i0"], &["d"]), n("Add", &["d", "c"], &["v"])];
                            let ins = vec![TIn::f32("x", &[a]), TIn::scalar_i64("i0", 0).as_init(), TIn::scalar_i64("c", c).as_init(), TIn::scalar_i64("o1", o1).as_init(), TIn::scalar_i64("o2", o2).as_init()];
                            let (names, feat): ([&str; 3], &str) = match which {
                                0 => (["v", "o1", "o2"], "symbolic start"),
                                1 => (["o1", "v", "o2"], "symbolic limit"),
                                _ => (["o1", "o2", "v"], "symbolic delta"),
                            };
                            if which != 2 && o2 == 0 {
                                continue;
                            }
                            nodes.push(n("Range", &names, &["y"]));
                            sink(Case::new("Range with dim-derived operands", feat, nodes, ins).feature_for("Range"));
                        }
                    }
                }
            }
        }
    }));
    e.push(entry("TopK", |tier, sink| {
        for s in all_shapes(2, &SIZES).into_iter().filter(|s| !s.is_empty()) {
            let r = s.len();
            for axis in 0..r {
                for k in 0..=(s[axis] as i64 + 1) {
                    for ax in [Some(axis as i64), Some(neg_axis(axis, r)), None] {
                        if ax.is_none() && axis != r - 1 {
                            continue;
                        }
                        for largest in [1i64, 0] {
                            for (init, feat) in value_modes() {
                                let mut node = n("TopK", &["x", "k"], &["v", "i"]).attr("largest", Attr::Int(largest));
                                if let Some(a) = ax {
                                    node = node.attr("axis", Attr::Int(a));
                                }
                                sink(Case::new("TopK", feat, vec![node], vec![TIn::f32("x", &s), vin("k", &[k], init)]));
                            }
                        }
                    }
                }
            }
        }
        let _ = tier;
    }));
    e.push(entry("NonZero", |tier, sink| {
        for s in data_shapes(tier) {
            sink(Case::new("NonZero", "dynamic data", vec![n("NonZero", &["x"], &["y"])], vec![TIn::f32("x", &s)]));
        }
    }));
}

// ---------------------------------------------------------------------------
// Reductions

fn reduce_ops(e: &mut Vec<Entry>) {
    for op in ["ReduceSum", "ReduceMean", "ReduceMax", "ReduceMin", "ReduceProd", "ReduceL1", "ReduceL2", "ReduceLogSum", "ReduceLogSumExp", "ReduceSumSquare"] {
        for shard_keep in [1i64, 0] {
        let name = format!("{op} axes input (opset 18) keepdims={shard_keep}");
        e.push(entry(&name.clone(), move |tier, sink| {
            // The ten reduce operators share one inference rule; the large
            // shape range is spent on ReduceSum and ReduceMax.
            let shapes = if op == "ReduceSum" || op == "ReduceMax" { data_shapes(tier) } else { all_shapes(2, &[0, 1, 2]) };
            for s in shapes {
                let r = s.len();
                for keep in [shard_keep] {
                    for noop in [0i64, 1] {
                        // axes omitted
                        sink(Case::new(
                            &name,
                            if noop == 1 { "axes omitted, noop_with_empty_axes=1" } else { "axes omitted" },
                            vec![n(op, &["x"], &["y"]).attr("keepdims", Attr::Int(keep)).attr("noop_with_empty_axes", Attr::Int(noop))],
                            vec![TIn::f32("x", &s).positive()],
                        ));
                        for sub in subsets(r) {
                            let pos: Vec<i64> = sub.iter().map(|a| *a as i64).collect();
                            let neg: Vec<i64> = sub.iter().map(|a| neg_axis(*a, r)).collect();
                            let variants = if sub.is_empty() { vec![pos] } else { vec![pos, neg] };
                            for axes in variants {
                                for (init, mode) in value_modes() {
                                    let feat = if axes.is_empty() {
                                        if noop == 1 { format!("{mode}; empty axes, noop_with_empty_axes=1") } else { format!("{mode}; empty axes") }
                                    } else {
                                        mode.to_string()
                                    };
                                    sink(Case::new(
                                        &name,
                                        &feat,
                                        vec![n(op, &["x", "ax"], &["y"]).attr("keepdims", Attr::Int(keep)).attr("noop_with_empty_axes", Attr::Int(noop))],
                                        vec![TIn::f32("x", &s).positive(), vin("ax", &axes, init)],
                                    ));
                                }
                            }
                        }
                    }
                }
            }
        }));
        }
    }
    e.push(entry("ReduceSum/ReduceMax axes attribute (opset 11)", |tier, sink| {
        for op in ["ReduceMax", "ReduceMean"] {
            for s in data_shapes(tier) {
                let r = s.len();
                for keep in [1i64, 0] {
                    sink(Case::new("ReduceSum/ReduceMax axes attribute (opset 11)", "axes attribute omitted", vec![n(op, &["x"], &["y"]).attr("keepdims", Attr::Int(keep))], vec![TIn::f32("x", &s).positive()]).opset(11));
                    for sub in subsets(r) {
                        if sub.is_empty() {
                            continue;
                        }
                        let neg: Vec<i64> = sub.iter().map(|a| neg_axis(*a, r)).collect();
                        sink(Case::new(
                            "ReduceSum/ReduceMax axes attribute (opset 11)",
                            "axes attribute",
                            vec![n(op, &["x"], &["y"]).attr("keepdims", Attr::Int(keep)).attr("axes", Attr::Ints(neg))],
                            vec![TIn::f32("x", &s).positive()],
                        )
                        .opset(11));
                    }
                }
            }
        }
    }));
    for op in ["ArgMax", "ArgMin"] {
        e.push(entry(op, move |tier, sink| {
            for s in data_shapes(tier) {
                let r = s.len() as i64;
                for keep in [1i64, 0] {
                    sink(Case::new(op, "default axis", vec![n(op, &["x"], &["y"]).attr("keepdims", Attr::Int(keep))], vec![TIn::f32("x", &s)]));
                    for axis in -r..r {
                        sink(Case::new(op, "axis attribute", vec![n(op, &["x"], &["y"]).attr("keepdims", Attr::Int(keep)).attr("axis", Attr::Int(axis))], vec![TIn::f32("x", &s)]));
                    }
                }
            }
        }));
    }
}

// ---------------------------------------------------------------------------
// "Same shape as first input" operators that need attributes or extra inputs.

fn unary_with_extras(e: &mut Vec<Entry>) {
    for op in ["Softmax", "LogSoftmax", "LpNormalization"] {
        e.push(entry(op, move |tier, sink| {
            for s in data_shapes(tier) {
                let r = s.len() as i64;
                sink(Case::new(op, "default axis", vec![n(op, &["x"], &["y"])], vec![TIn::f32("x", &s)]));
                for axis in -r..r {
                    sink(Case::new(op, "axis attribute", vec![n(op, &["x"], &["y"]).attr("axis", Attr::Int(axis))], vec![TIn::f32("x", &s)]));
                }
            }
        }));
    }
    e.push(entry("Clip", |tier, sink| {
        for s in data_shapes(tier) {
            for (mn, mx) in [(false, false), (true, false), (false, true), (true, true)] {
                let mut names = vec!["x"];
                let mut ins = vec![TIn::f32("x", &s)];
                if mn || mx {
                    names.push(if mn { "mn" } else { "" });
                }
                if mn {
                    ins.push(TIn::floats("mn", &[], &[-0.5]).as_init());
                }
                if mx {
                    names.push("mx");
                    ins.push(TIn::floats("mx", &[], &[0.5]));
                }
                sink(Case::new("Clip", "min/max inputs", vec![n("Clip", &names, &["y"])], ins));
            }
            sink(Case::new("Clip", "min/max attributes (opset 6)", vec![n("Clip", &["x"], &["y"]).attr("min", Attr::Float(-1.0)).attr("max", Attr::Float(1.0))], vec![TIn::f32("x", &s)]).opset(6));
        }
    }));
    e.push(entry("Cast", |tier, sink| {
        let types = [dtype::FLOAT, dtype::INT32, dtype::INT64, dtype::BOOL, dtype::UINT8, dtype::INT8, dtype::DOUBLE, dtype::FLOAT16];
        for s in all_shapes(tier.pick(2, 3), &SIZES) {
            for from in [dtype::FLOAT, dtype::INT64, dtype::INT32, dtype::BOOL, dtype::UINT8] {
                for to in types {
                    let x = if from == dtype::FLOAT { TIn::f32("x", &s) } else { TIn::int_data("x", from, &s) };
                    sink(Case::new("Cast", "dynamic data", vec![n("Cast", &["x"], &["y"]).attr("to", Attr::Int(to as i64))], vec![x]));
                }
            }
        }
        // constants: value-preserving casts
        for to in types {
            for v in [-3i64, 0, 2, 300] {
                sink(Case::new("Cast", "int constant operand", vec![n("Cast", &["x"], &["y"]).attr("to", Attr::Int(to as i64))], vec![TIn::scalar_i64("x", v).as_init()]));
                sink(Case::new("Cast", "int constant operand", vec![n("Cast", &["x"], &["y"]).attr("to", Attr::Int(to as i64))], vec![TIn::vec_i64("x", &[v, 1]).as_init()]));
            }
            for v in [-3.0f32, 0.0, 2.0, 2.5, -2.5, 300.0, 1e10] {
                sink(Case::new("Cast", "float constant operand", vec![n("Cast", &["x"], &["y"]).attr("to", Attr::Int(to as i64))], vec![TIn::floats("x", &[], &[v]).as_init()]));
                sink(Case::new("Cast", "float constant operand", vec![n("Cast", &["x"], &["y"]).attr("to", Attr::Int(to as i64))], vec![TIn::floats("x", &[2], &[v, 1.0]).as_init()]));
            }
        }
    }));
    e.push(entry("CastLike", |tier, sink| {
        for s in all_shapes(tier.pick(2, 3), &SIZES) {
            for like_shape in [vec![], vec![2usize]] {
                sink(Case::new("CastLike", "dynamic data", vec![n("CastLike", &["x", "t"], &["y"])], vec![TIn::f32("x", &s), TIn::int_data("t", dtype::INT64, &like_shape)]));
                sink(Case::new("CastLike", "dynamic data", vec![n("CastLike", &["x", "t"], &["y"])], vec![TIn::int_data("x", dtype::INT32, &s), TIn::f32("t", &like_shape).as_init()]));
            }
        }
    }));
    e.push(entry("Trilu", |tier, sink| {
        for s in data_shapes(tier).into_iter().filter(|s| s.len() >= 2) {
            for upper in [1i64, 0] {
                sink(Case::new("Trilu", "no k", vec![n("Trilu", &["x"], &["y"]).attr("upper", Attr::Int(upper))], vec![TIn::f32("x", &s)]));
                for k in [-1i64, 0, 2] {
                    for (init, mode) in value_modes() {
                        let mut kt = TIn::scalar_i64("k", k);
                        kt.init = init;
                        sink(Case::new("Trilu", mode, vec![n("Trilu", &["x", "k"], &["y"]).attr("upper", Attr::Int(upper))], vec![TIn::f32("x", &s), kt]));
                    }
                }
            }
        }
    }));
    e.push(entry("CumSum", |tier, sink| {
        for s in data_shapes(tier).into_iter().filter(|s| !s.is_empty()) {
            let r = s.len() as i64;
            for axis in -r..r {
                for (init, mode) in value_modes() {
                    for (excl, rev) in [(0i64, 0i64), (1, 1)] {
                        let mut at = TIn::ints("ax", dtype::INT32, &[], &[axis]);
                        at.init = init;
                        sink(Case::new("CumSum", mode, vec![n("CumSum", &["x", "ax"], &["y"]).attr("exclusive", Attr::Int(excl)).attr("reverse", Attr::Int(rev))], vec![TIn::f32("x", &s), at]));
                    }
                }
            }
        }
    }));
    e.push(entry("EyeLike", |_, sink| {
        for s in shapes_of_rank(2, &SIZES) {
            for k in [-1i64, 0, 1] {
                sink(Case::new("EyeLike", "k attribute", vec![n("EyeLike", &["x"], &["y"]).attr("k", Attr::Int(k))], vec![TIn::f32("x", &s)]));
                sink(Case::new("EyeLike", "k and dtype attributes", vec![n("EyeLike", &["x"], &["y"]).attr("k", Attr::Int(k)).attr("dtype", Attr::Int(dtype::INT32 as i64))], vec![TIn::f32("x", &s)]));
            }
        }
    }));
    e.push(entry("Dropout", |tier, sink| {
        for s in data_shapes(tier) {
            sink(Case::new("Dropout", "inference mode", vec![n("Dropout", &["x"], &["y", "m"])], vec![TIn::f32("x", &s)]));
            sink(Case::new("Dropout", "inference mode", vec![n("Dropout", &["x"], &["y"])], vec![TIn::f32("x", &s)]));
            sink(Case::new(
                "Dropout",
                "ratio and training_mode inputs",
                vec![n("Dropout", &["x", "r", "t"], &["y", "m"]).attr("seed", Attr::Int(1))],
                vec![TIn::f32("x", &s), TIn::floats("r", &[], &[0.5]).as_init(), TIn::ints("t", dtype::BOOL, &[], &[1]).as_init()],
            ));
        }
    }));
    e.push(entry("RandomNormalLike/RandomUniformLike", |tier, sink| {
        for op in ["RandomNormalLike", "RandomUniformLike"] {
            for s in data_shapes(tier) {
                sink(Case::new("RandomNormalLike/RandomUniformLike", "seeded", vec![n(op, &["x"], &["y"]).attr("seed", Attr::Float(1.0))], vec![TIn::f32("x", &s)]));
            }
        }
    }));
    e.push(entry("RandomNormal/RandomUniform", |tier, sink| {
        for op in ["RandomNormal", "RandomUniform"] {
            for s in all_shapes(tier.pick(2, 3), &SIZES) {
                let sv: Vec<i64> = s.iter().map(|d| *d as i64).collect();
                // a dummy second node keeps a graph input in the model
                sink(Case::new("RandomNormal/RandomUniform", "shape attribute", vec![n(op, &[], &["y"]).attr("shape", Attr::Ints(sv)).attr("seed", Attr::Float(1.0))], vec![]));
            }
        }
    }));
    e.push(entry("Multinomial", |_, sink| {
        for b in [0usize, 1, 2] {
            for c in [1usize, 3] {
                for ss in [0i64, 1, 4] {
                    sink(Case::new("Multinomial", "sample_size attribute", vec![n("Multinomial", &["x"], &["y"]).attr("sample_size", Attr::Int(ss)).attr("seed", Attr::Float(1.0))], vec![TIn::f32("x", &[b, c]).positive()]));
                }
            }
        }
    }));
    e.push(entry("BatchNormalization", |tier, sink| {
        for s in data_shapes(tier).into_iter().filter(|s| s.len() >= 2) {
            let c = s[1];
            let p = |nm: &str| TIn::f32(nm, &[c]).positive().as_init();
            sink(Case::new("BatchNormalization", "per-channel parameters", vec![n("BatchNormalization", &["x", "sc", "b", "m", "v"], &["y"])], vec![TIn::f32("x", &s), p("sc"), p("b"), p("m"), p("v")]));
        }
    }));
    e.push(entry("InstanceNormalization", |tier, sink| {
        for s in data_shapes(tier).into_iter().filter(|s| s.len() >= 3) {
            let c = s[1];
            let p = |nm: &str| TIn::f32(nm, &[c]).positive().as_init();
            sink(Case::new("InstanceNormalization", "per-channel parameters", vec![n("InstanceNormalization", &["x", "sc", "b"], &["y"])], vec![TIn::f32("x", &s), p("sc"), p("b")]));
        }
    }));
    for (op, domain) in [("LayerNormalization", ""), ("RMSNormalization", ""), ("SimplifiedLayerNormalization", "ai.onnx")] {
        e.push(entry(op, move |tier, sink| {
            for s in data_shapes(tier).into_iter().filter(|s| !s.is_empty()) {
                let r = s.len() as i64;
                for axis in -r..r {
                    let a = (if axis < 0 { axis + r } else { axis }) as usize;
                    let pshape: Vec<usize> = s[a..].to_vec();
                    let mut ins = vec![TIn::f32("x", &s), TIn::f32("sc", &pshape).positive().as_init()];
                    let mut names = vec!["x", "sc"];
                    if op == "LayerNormalization" {
                        ins.push(TIn::f32("b", &pshape).as_init());
                        names.push("b");
                    }
                    let mut node = n(op, &names, &["y"]).attr("axis", Attr::Int(axis));
                    if !domain.is_empty() {
                        node = node.domain(domain);
                    }
                    sink(Case::new(op, "axis attribute", vec![node], ins).opset(23));
                }
            }
        }));
    }
    e.push(entry("QuantizeLinear/DequantizeLinear/DynamicQuantizeLinear", |tier, sink| {
        for s in data_shapes(tier) {
            sink(Case::new(
                "QuantizeLinear/DequantizeLinear/DynamicQuantizeLinear",
                "per-tensor scale",
                vec![n("QuantizeLinear", &["x", "sc", "zp"], &["y"])],
                vec![TIn::f32("x", &s), TIn::floats("sc", &[], &[0.5]).as_init(), TIn::ints("zp", dtype::UINT8, &[], &[3]).as_init()],
            ));
            sink(Case::new(
                "QuantizeLinear/DequantizeLinear/DynamicQuantizeLinear",
                "per-tensor scale",
                vec![n("DequantizeLinear", &["x", "sc", "zp"], &["y"])],
                vec![TIn::int_data("x", dtype::UINT8, &s), TIn::floats("sc", &[], &[0.5]).as_init(), TIn::ints("zp", dtype::UINT8, &[], &[3]).as_init()],
            ));
            sink(Case::new("QuantizeLinear/DequantizeLinear/DynamicQuantizeLinear", "dynamic quantization", vec![n("DynamicQuantizeLinear", &["x"], &["y", "ysc", "yzp"])], vec![TIn::f32("x", &s)]));
            if s.len() >= 2 {
                let c = s[1];
                sink(Case::new(
                    "QuantizeLinear/DequantizeLinear/DynamicQuantizeLinear",
                    "per-axis scale",
                    vec![n("DequantizeLinear", &["x", "sc", "zp"], &["y"]).attr("axis", Attr::Int(1))],
                    vec![TIn::int_data("x", dtype::INT8, &s), TIn::f32("sc", &[c]).positive().as_init(), TIn::ints("zp", dtype::INT8, &[c], &vec![0; c]).as_init()],
                ));
            }
        }
    }));
    e.push(entry("ScatterElements/ScatterND/Scatter", |tier, sink| {
        for s in all_shapes(tier.pick(2, 3), &[1, 2, 3]).into_iter().filter(|s| !s.is_empty()) {
            let r = s.len();
            for axis in 0..r {
                for idx_shape in shapes_of_rank(r, &[0, 1]) {
                    let cnt: usize = idx_shape.iter().product();
                    for op in ["ScatterElements", "Scatter"] {
                        let c = Case::new(
                            "ScatterElements/ScatterND/Scatter",
                            "indices/updates of smaller shape",
                            vec![n(op, &["x", "i", "u"], &["y"]).attr("axis", Attr::Int(axis as i64))],
                            vec![TIn::f32("x", &s), TIn::ints("i", dtype::INT64, &idx_shape, &vec![0; cnt]), TIn::f32("u", &idx_shape)],
                        );
                        sink(if op == "Scatter" { c.opset(10) } else { c });
                    }
                }
            }
            // ScatterND: indices [k, r] -> updates [k]
            for k in [0usize, 1, 2] {
                sink(Case::new(
                    "ScatterElements/ScatterND/Scatter",
                    "full-index updates",
                    vec![n("ScatterND", &["x", "i", "u"], &["y"])],
                    vec![TIn::f32("x", &s), TIn::ints("i", dtype::INT64, &[k, r], &vec![0; k * r]), TIn::f32("u", &[k])],
                ));
            }
        }
    }));
    e.push(entry("ReverseSequence", |_, sink| {
        for t in [1usize, 2, 3] {
            for b in [0usize, 1, 2] {
                for rest in [vec![], vec![2usize]] {
                    let mut s = vec![t, b];
                    s.extend(rest.iter());
                    sink(Case::new("ReverseSequence", "time-major", vec![n("ReverseSequence", &["x", "l"], &["y"])], vec![TIn::f32("x", &s), TIn::ints("l", dtype::INT64, &[b], &vec![1; b])]));
                    let mut s2 = vec![b, t];
                    s2.extend(rest.iter());
                    sink(Case::new(
                        "ReverseSequence",
                        "batch-major",
                        vec![n("ReverseSequence", &["x", "l"], &["y"]).attr("batch_axis", Attr::Int(0)).attr("time_axis", Attr::Int(1))],
                        vec![TIn::f32("x", &s2), TIn::ints("l", dtype::INT64, &[b], &vec![1; b])],
                    ));
                }
            }
        }
    }));
    e.push(entry("Gelu variants (com.microsoft)", |tier, sink| {
        for s in all_shapes(tier.pick(2, 3), &SIZES) {
            for op in ["FastGelu", "Gelu", "QuickGelu"] {
                sink(Case::new("Gelu variants (com.microsoft)", "float data", vec![n(op, &["x"], &["y"]).domain("com.microsoft")], vec![TIn::f32("x", &s)]));
            }
            if let Some(last) = s.last() {
                sink(Case::new("Gelu variants (com.microsoft)", "float data with bias", vec![n("BiasGelu", &["x", "b"], &["y"]).domain("com.microsoft")], vec![TIn::f32("x", &s), TIn::f32("b", &[*last]).as_init()]));
            }
        }
    }));
    e.push(entry("SkipLayerNormalization (com.microsoft)", |_, sink| {
        for b in [0usize, 1, 2] {
            for sq in [1usize, 3] {
                for h in [2usize, 4] {
                    for op in ["SkipLayerNormalization", "SkipSimplifiedLayerNormalization"] {
                        let mut names = vec!["x", "sk", "g"];
                        let mut ins = vec![TIn::f32("x", &[b, sq, h]), TIn::f32("sk", &[b, sq, h]), TIn::f32("g", &[h]).positive().as_init()];
                        if op == "SkipLayerNormalization" {
                            names.push("be");
                            ins.push(TIn::f32("be", &[h]).as_init());
                        }
                        for outs in [vec!["y"], vec!["y", "", "", "sum"]] {
                            sink(Case::new(
                                "SkipLayerNormalization (com.microsoft)",
                                "3-D input",
                                vec![n(op, &names, &outs).domain("com.microsoft").attr("epsilon", Attr::Float(1e-5))],
                                ins.clone(),
                            ));
                        }
                    }
                }
            }
        }
    }));
}

// ---------------------------------------------------------------------------
// Convolution, pooling, matmul, resize and other NN operators

fn nn_ops(e: &mut Vec<Entry>) {
    e.push(entry("MatMul", |tier, sink| {
        // batch dims broadcast; M, K, N from {0,1,2,3}
        let batches: Vec<(Vec<usize>, Vec<usize>)> = {
            let bs = all_shapes(tier.pick(1, 2), &[1, 2]);
            let mut v = Vec::new();
            for a in &bs {
                for b in &bs {
                    if broadcast_shapes(a, b).is_some() {
                        v.push((a.clone(), b.clone()));
                    }
                }
            }
            v
        };
        for (ba, bb) in batches {
            for m in [0usize, 1, 2] {
                for k in [0usize, 1, 3] {
                    for nn in [0usize, 1, 2] {
                        let mut a = ba.clone();
                        a.extend([m, k]);
                        let mut b = bb.clone();
                        b.extend([k, nn]);
                        sink(Case::new("MatMul", "matrices with batch dims", vec![n("MatMul", &["a", "b"], &["y"])], vec![TIn::f32("a", &a), TIn::f32("b", &b)]));
                        if ba.is_empty() {
                            sink(Case::new("MatMul", "constant right operand", vec![n("MatMul", &["a", "b"], &["y"])], vec![TIn::f32("a", &a), TIn::f32("b", &b).as_init()]));
                        }
                    }
                }
            }
        }
        // vector operands
        for k in [1usize, 2] {
            for nn in [1usize, 3] {
                sink(Case::new("MatMul", "vector operand", vec![n("MatMul", &["a", "b"], &["y"])], vec![TIn::f32("a", &[k]), TIn::f32("b", &[k, nn])]));
                sink(Case::new("MatMul", "vector operand", vec![n("MatMul", &["a", "b"], &["y"])], vec![TIn::f32("a", &[nn, k]), TIn::f32("b", &[k])]));
                sink(Case::new("MatMul", "vector operand", vec![n("MatMul", &["a", "b"], &["y"])], vec![TIn::f32("a", &[k]), TIn::f32("b", &[k])]));
            }
        }
    }));
    e.push(entry("MatMulInteger", |_, sink| {
        for m in [0usize, 1, 2] {
            for k in [1usize, 3] {
                for nn in [1usize, 2] {
                    for batch in [vec![], vec![2usize]] {
                        let mut a = batch.clone();
                        a.extend([m, k]);
                        sink(Case::new("MatMulInteger", "u8 x i8", vec![n("MatMulInteger", &["a", "b"], &["y"])], vec![TIn::int_data("a", dtype::UINT8, &a), TIn::int_data("b", dtype::INT8, &[k, nn])]));
                        sink(Case::new(
                            "MatMulInteger",
                            "u8 x i8 with zero points",
                            vec![n("MatMulInteger", &["a", "b", "az", "bz"], &["y"])],
                            vec![TIn::int_data("a", dtype::UINT8, &a), TIn::int_data("b", dtype::INT8, &[k, nn]).as_init(), TIn::ints("az", dtype::UINT8, &[], &[1]).as_init(), TIn::ints("bz", dtype::INT8, &[], &[0]).as_init()],
                        ));
                    }
                }
            }
        }
    }));
    e.push(entry("Gemm", |_, sink| {
        for m in [0usize, 1, 2] {
            for k in [0usize, 1, 3] {
                for nn in [0usize, 1, 2] {
                    for ta in [0i64, 1] {
                        for tb in [0i64, 1] {
                            let a = if ta == 1 { vec![k, m] } else { vec![m, k] };
                            let b = if tb == 1 { vec![nn, k] } else { vec![k, nn] };
                            for c in [None, Some(vec![]), Some(vec![nn]), Some(vec![m, nn]), Some(vec![1, nn])] {
                                let mut ins = vec![TIn::f32("a", &a), TIn::f32("b", &b)];
                                let mut names = vec!["a", "b"];
                                if let Some(cs) = &c {
                                    ins.push(TIn::f32("c", cs));
                                    names.push("c");
                                }
                                sink(Case::new("Gemm", "transA/transB attributes", vec![n("Gemm", &names, &["y"]).attr("transA", Attr::Int(ta)).attr("transB", Attr::Int(tb))], ins));
                            }
                        }
                    }
                }
            }
        }
    }));
    e.push(entry("Einsum", |_, sink| {
        let eqs: Vec<(&str, Vec<Vec<usize>>)> = vec![
            ("ij,jk->ik", vec![vec![2, 3], vec![3, 1]]),
            ("ij,jk->ik", vec![vec![0, 3], vec![3, 2]]),
            ("ij,jk", vec![vec![2, 3], vec![3, 2]]),
            ("ij->ji", vec![vec![2, 3]]),
            ("ij->", vec![vec![2, 3]]),
            ("ij->j", vec![vec![2, 0]]),
            ("ii->i", vec![vec![2, 2]]),
            ("i,i->", vec![vec![3], vec![3]]),
            ("i,j->ij", vec![vec![3], vec![2]]),
            ("bij,bjk->bik", vec![vec![2, 1, 3], vec![2, 3, 2]]),
            ("bij,bjk->bik", vec![vec![1, 1, 3], vec![2, 3, 2]]),
            ("...ij,...jk->...ik", vec![vec![2, 1, 3], vec![2, 3, 2]]),
            ("...ij,...jk->...ik", vec![vec![1, 3], vec![2, 3, 2]]),
            ("...i->...", vec![vec![2, 3]]),
            ("i...->...", vec![vec![2, 3, 1]]),
            ("ij,ij->ij", vec![vec![2, 3], vec![2, 3]]),
            ("ij,ij->ij", vec![vec![1, 3], vec![2, 3]]),
        ];
        for (eq, shapes) in eqs {
            let names: Vec<String> = (0..shapes.len()).map(|i| format!("x{i}")).collect();
            let nrefs: Vec<&str> = names.iter().map(|s| s.as_str()).collect();
            let ins: Vec<TIn> = shapes.iter().zip(&names).map(|(s, nm)| TIn::f32(nm, s)).collect();
            sink(Case::new("Einsum", "equation attribute", vec![n("Einsum", &nrefs, &["y"]).attr("equation", Attr::Str(eq.into()))], ins));
        }
    }));
    // Conv / ConvInteger / pools share the output-size formula; spatial sizes go to 6.
    e.push(entry("Conv 1-D/2-D", |tier, sink| {
        let spatial: &[usize] = if tier.is_thorough() { &[1, 2, 3, 4, 5, 6, 7] } else { &[1, 2, 3, 4, 6] };
        for &h in spatial {
            for k in [1usize, 2, 3] {
                for stride in [1i64, 2, 3] {
                    for dil in [1i64, 2] {
                        for pad in [(0i64, 0i64), (1, 1), (0, 2), (2, 1)] {
                            for auto in ["NOTSET", "SAME_UPPER", "SAME_LOWER", "VALID"] {
                                if auto != "NOTSET" && pad != (0, 0) {
                                    continue;
                                }
                                for nb in [1usize, 2] {
                                    // 1-D
                                    let mut node = n("Conv", &["x", "w"], &["y"])
                                        .attr("kernel_shape", Attr::Ints(vec![k as i64]))
                                        .attr("strides", Attr::Ints(vec![stride]))
                                        .attr("dilations", Attr::Ints(vec![dil]));
                                    if auto == "NOTSET" {
                                        node = node.attr("pads", Attr::Ints(vec![pad.0, pad.1]));
                                    } else {
                                        node = node.attr("auto_pad", Attr::Str(auto.into()));
                                    }
                                    sink(Case::new("Conv 1-D/2-D", "1-D", vec![node], vec![TIn::f32("x", &[nb, 2, h]), TIn::f32("w", &[3, 2, k]).as_init()]));
                                    // 2-D with a different second spatial dim
                                    if nb == 1 && dil == 1 {
                                        let mut node = n("Conv", &["x", "w", "b"], &["y"])
                                            .attr("kernel_shape", Attr::Ints(vec![k as i64, 2]))
                                            .attr("strides", Attr::Ints(vec![stride, 1]));
                                        if auto == "NOTSET" {
                                            node = node.attr("pads", Attr::Ints(vec![pad.0, 1, pad.1, 0]));
                                        } else {
                                            node = node.attr("auto_pad", Attr::Str(auto.into()));
                                        }
                                        sink(Case::new("Conv 1-D/2-D", "2-D with bias", vec![node], vec![TIn::f32("x", &[1, 2, h, 3]), TIn::f32("w", &[3, 2, k, 2]).as_init(), TIn::f32("b", &[3]).as_init()]));
                                    }
                                }
                            }
                        }
                    }
                }
            }
        }
        // grouped / depthwise, dynamic weights, default attributes
        for (cin, cout, g) in [(4usize, 4usize, 2i64), (4, 4, 4), (2, 6, 2)] {
            sink(Case::new(
                "Conv 1-D/2-D",
                "grouped",
                vec![n("Conv", &["x", "w"], &["y"]).attr("group", Attr::Int(g)).attr("kernel_shape", Attr::Ints(vec![2, 2]))],
                vec![TIn::f32("x", &[1, cin, 3, 3]), TIn::f32("w", &[cout, cin / g as usize, 2, 2])],
            ));
        }
    }));
    e.push(entry("ConvInteger", |_, sink| {
        for h in [2usize, 3, 5] {
            for k in [1usize, 2] {
                for stride in [1i64, 2] {
                    sink(Case::new(
                        "ConvInteger",
                        "2-D u8 x i8",
                        vec![n("ConvInteger", &["x", "w"], &["y"]).attr("kernel_shape", Attr::Ints(vec![k as i64, k as i64])).attr("strides", Attr::Ints(vec![stride, stride]))],
                        vec![TIn::int_data("x", dtype::UINT8, &[1, 2, h, 4]), TIn::int_data("w", dtype::INT8, &[3, 2, k, k]).as_init()],
                    ));
                }
            }
        }
    }));
    e.push(entry("ConvTranspose", |tier, sink| {
        let spatial: &[usize] = if tier.is_thorough() { &[1, 2, 3, 4] } else { &[1, 2, 3] };
        for &h in spatial {
            for k in [1usize, 2, 3] {
                for stride in [1i64, 2] {
                    for pad in [(0i64, 0i64), (1, 0), (1, 1)] {
                        for outpad in [None, Some(1i64)] {
                            if outpad == Some(1) && stride == 1 {
                                continue;
                            }
                            for dil in [1i64, 2] {
                                let mut node = n("ConvTranspose", &["x", "w"], &["y"])
                                    .attr("kernel_shape", Attr::Ints(vec![k as i64]))
                                    .attr("strides", Attr::Ints(vec![stride]))
                                    .attr("dilations", Attr::Ints(vec![dil]))
                                    .attr("pads", Attr::Ints(vec![pad.0, pad.1]));
                                if let Some(op) = outpad {
                                    node = node.attr("output_padding", Attr::Ints(vec![op]));
                                }
                                sink(Case::new("ConvTranspose", "1-D", vec![node], vec![TIn::f32("x", &[1, 2, h]), TIn::f32("w", &[2, 3, k]).as_init()]));
                            }
                            let mut node = n("ConvTranspose", &["x", "w"], &["y"])
                                .attr("kernel_shape", Attr::Ints(vec![k as i64, 2]))
                                .attr("strides", Attr::Ints(vec![stride, 2]))
                                .attr("pads", Attr::Ints(vec![pad.0, 0, pad.1, 1]));
                            if let Some(op) = outpad {
                                node = node.attr("output_padding", Attr::Ints(vec![op, 0]));
                            }
                            sink(Case::new("ConvTranspose", "2-D", vec![node], vec![TIn::f32("x", &[2, 2, h, 2]), TIn::f32("w", &[2, 1, k, 2]).as_init()]));
                        }
                    }
                    for auto in ["SAME_UPPER", "SAME_LOWER"] {
                        sink(Case::new(
                            "ConvTranspose",
                            "auto_pad SAME",
                            vec![n("ConvTranspose", &["x", "w"], &["y"]).attr("kernel_shape", Attr::Ints(vec![k as i64, k as i64])).attr("strides", Attr::Ints(vec![stride, stride])).attr("auto_pad", Attr::Str(auto.into()))],
                            vec![TIn::f32("x", &[1, 2, h, h]), TIn::f32("w", &[2, 1, k, k]).as_init()],
                        ));
                    }
                }
            }
        }
        sink(Case::new(
            "ConvTranspose",
            "grouped",
            vec![n("ConvTranspose", &["x", "w"], &["y"]).attr("kernel_shape", Attr::Ints(vec![2, 2])).attr("group", Attr::Int(2))],
            vec![TIn::f32("x", &[1, 4, 2, 2]), TIn::f32("w", &[4, 3, 2, 2]).as_init()],
        ));
    }));
    for op in ["MaxPool", "AveragePool"] {
        e.push(entry(op, move |tier, sink| {
            let spatial: &[usize] = if tier.is_thorough() { &[1, 2, 3, 4, 5, 6, 7, 8] } else { &[1, 2, 3, 4, 5, 7] };
            for &h in spatial {
                for k in [1i64, 2, 3] {
                    for stride in [1i64, 2, 3] {
                        for pad in [(0i64, 0i64), (1, 1), (0, 1), (1, 0)] {
                            if pad.0 >= k || pad.1 >= k {
                                continue;
                            }
                            for ceil in [0i64, 1] {
                                sink(Case::new(
                                    op,
                                    if ceil == 1 { "1-D ceil_mode" } else { "1-D" },
                                    vec![n(op, &["x"], &["y"]).attr("kernel_shape", Attr::Ints(vec![k])).attr("strides", Attr::Ints(vec![stride])).attr("pads", Attr::Ints(vec![pad.0, pad.1])).attr("ceil_mode", Attr::Int(ceil))],
                                    vec![TIn::f32("x", &[1, 2, h])],
                                ));
                                sink(Case::new(
                                    op,
                                    if ceil == 1 { "2-D ceil_mode" } else { "2-D" },
                                    vec![n(op, &["x"], &["y"]).attr("kernel_shape", Attr::Ints(vec![k, 2])).attr("strides", Attr::Ints(vec![stride, 1])).attr("pads", Attr::Ints(vec![pad.0, 0, pad.1, 1])).attr("ceil_mode", Attr::Int(ceil))],
                                    vec![TIn::f32("x", &[2, 1, h, 3])],
                                ));
                            }
                        }
                        for auto in ["SAME_UPPER", "SAME_LOWER", "VALID"] {
                            sink(Case::new(
                                op,
                                "auto_pad",
                                vec![n(op, &["x"], &["y"]).attr("kernel_shape", Attr::Ints(vec![k, k])).attr("strides", Attr::Ints(vec![stride, stride])).attr("auto_pad", Attr::Str(auto.into()))],
                                vec![TIn::f32("x", &[1, 1, h, 4])],
                            ));
                        }
                    }
                    // default strides
                    sink(Case::new(op, "default strides", vec![n(op, &["x"], &["y"]).attr("kernel_shape", Attr::Ints(vec![k, k]))], vec![TIn::f32("x", &[1, 1, h, 4])]));
                }
            }
        }));
    }
    e.push(entry("GlobalAveragePool/GlobalMaxPool", |tier, sink| {
        for op in ["GlobalAveragePool", "GlobalMaxPool"] {
            for s in data_shapes(tier).into_iter().filter(|s| s.len() >= 2) {
                sink(Case::new("GlobalAveragePool/GlobalMaxPool", "dynamic data", vec![n(op, &["x"], &["y"])], vec![TIn::f32("x", &s)]));
            }
        }
    }));
    e.push(entry("Resize", |_, sink| {
        for h in [1usize, 2, 3] {
            for w in [1usize, 2] {
                for nb in [1usize, 2] {
                    let s = [nb, 2, h, w];
                    for scales in [vec![1.0f32, 1.0, 2.0, 2.0], vec![1.0, 1.0, 0.5, 0.5], vec![1.0, 1.0, 1.5, 2.5], vec![1.0, 1.0, 3.0, 1.0], vec![2.0, 1.0, 1.0, 1.0]] {
                        for mode in ["nearest", "linear"] {
                            for (init, vm) in value_modes() {
                                let mut st = TIn::floats("sc", &[4], &scales);
                                st.init = init;
                                let integral = scales.iter().all(|v| v.fract() == 0.0);
                                sink(Case::new(
                                    "Resize",
                                    &format!("{vm}; scales {}", if integral { "integral" } else { "non-integral" }),
                                    vec![n("Resize", &["x", "", "sc"], &["y"]).attr("mode", Attr::Str(mode.into()))],
                                    vec![TIn::f32("x", &s), st],
                                ));
                            }
                        }
                    }
                    for sizes in [vec![nb as i64, 2, 4, 4], vec![nb as i64, 2, 1, 3], vec![nb as i64, 2, 0, 2]] {
                        for (init, vm) in value_modes() {
                            sink(Case::new("Resize", &format!("{vm}; sizes"), vec![n("Resize", &["x", "", "", "sz"], &["y"])], vec![TIn::f32("x", &s), vin("sz", &sizes, init)]));
                        }
                    }
                    // opset 11 style: empty roi and empty scales with sizes
                    sink(Case::new(
                        "Resize",
                        "opset 11 inputs (empty roi/scales)",
                        vec![n("Resize", &["x", "roi", "esc", "sz"], &["y"])],
                        vec![TIn::f32("x", &s), TIn::floats("roi", &[0], &[]).as_init(), TIn::floats("esc", &[0], &[]).as_init(), vin("sz", &[nb as i64, 2, 2, 2], true)],
                    ).opset(11));
                }
            }
        }
    }));
    e.push(entry("Upsample", |_, sink| {
        for h in [1usize, 2, 3] {
            for scales in [vec![1.0f32, 1.0, 2.0, 2.0], vec![1.0, 1.0, 1.5, 3.0]] {
                for (init, vm) in value_modes() {
                    let mut st = TIn::floats("sc", &[4], &scales);
                    st.init = init;
                    sink(Case::new("Upsample", vm, vec![n("Upsample", &["x", "sc"], &["y"])], vec![TIn::f32("x", &[1, 2, h, 2]), st]).opset(9));
                }
                sink(Case::new("Upsample", "scales attribute (opset 7)", vec![n("Upsample", &["x"], &["y"]).attr("scales", Attr::Floats(scales.clone()))], vec![TIn::f32("x", &[1, 2, h, 2])]).opset(7));
            }
        }
    }));
    e.push(entry("GridSample", |_, sink| {
        for nb in [1usize, 2] {
            for (h, w) in [(2usize, 3usize), (1, 1)] {
                for (ho, wo) in [(1usize, 2usize), (3, 3), (0, 2)] {
                    sink(Case::new("GridSample", "2-D", vec![n("GridSample", &["x", "g"], &["y"])], vec![TIn::f32("x", &[nb, 2, h, w]), TIn::f32("g", &[nb, ho, wo, 2])]).opset(20));
                }
            }
        }
    }));
    e.push(entry("NonMaxSuppression", |_, sink| {
        for nbox in [0usize, 1, 3] {
            for ncls in [1usize, 2] {
                let boxes: Vec<f32> = (0..nbox).flat_map(|i| [i as f32, i as f32, i as f32 + 1.0, i as f32 + 1.0]).collect();
                let scores: Vec<f32> = (0..ncls * nbox).map(|i| 0.9 - 0.1 * i as f32).collect();
                sink(Case::new(
                    "NonMaxSuppression",
                    "boxes/scores",
                    vec![n("NonMaxSuppression", &["b", "s", "mx", "iou", "st"], &["y"])],
                    vec![TIn::floats("b", &[1, nbox, 4], &boxes), TIn::floats("s", &[1, ncls, nbox], &scores), TIn::scalar_i64("mx", 2).as_init(), TIn::floats("iou", &[], &[0.5]).as_init(), TIn::floats("st", &[], &[0.0]).as_init()],
                ));
            }
        }
    }));
}

// ---------------------------------------------------------------------------
// FFT, RNN, attention, block-quantized matmul, rotary embedding

fn sequence_ops(e: &mut Vec<Entry>) {
    // DFT/STFT need rten's `fft` cargo feature, which the harness workspace does
    // not enable: the models then fail to load and the entries claim nothing.
    e.push(entry_vac("DFT", |_, sink| {
        for batch in [1usize, 2] {
            for len in [1usize, 2, 3, 4, 5] {
                for comps in [1usize, 2] {
                    for (inverse, onesided) in [(0i64, 0i64), (0, 1), (1, 0), (1, 1)] {
                        for dft_len in [None, Some(1i64), Some(3), Some(4), Some(6)] {
                            for (init, vm) in value_modes() {
                                if dft_len.is_none() && !init {
                                    continue;
                                }
                                let mut names = vec!["x"];
                                let mut ins = vec![TIn::f32("x", &[batch, len, comps])];
                                if let Some(l) = dft_len {
                                    let mut t = TIn::scalar_i64("n", l);
                                    t.init = init;
                                    ins.push(t);
                                    names.push("n");
                                }
                                sink(Case::new(
                                    "DFT",
                                    &format!("{vm}; inverse={inverse} onesided={onesided}"),
                                    vec![n("DFT", &names, &["y"]).attr("inverse", Attr::Int(inverse)).attr("onesided", Attr::Int(onesided))],
                                    ins,
                                )
                                .opset(20));
                            }
                        }
                    }
                }
            }
        }
        // axis as an input (opset 20) and as an attribute (opset 17), rank-4 input
        for axis in [-3i64, -2, 0, 1, 2] {
            sink(Case::new(
                "DFT",
                "axis input",
                vec![n("DFT", &["x", "", "ax"], &["y"])],
                vec![TIn::f32("x", &[2, 3, 4, 1]), TIn::scalar_i64("ax", axis).as_init()],
            )
            .opset(20));
            sink(Case::new("DFT", "axis attribute (opset 17)", vec![n("DFT", &["x"], &["y"]).attr("axis", Attr::Int(axis))], vec![TIn::f32("x", &[2, 3, 4, 1])]).opset(17));
        }
        sink(Case::new("DFT", "default axis (opset 17)", vec![n("DFT", &["x"], &["y"])], vec![TIn::f32("x", &[2, 3, 4, 1])]).opset(17));
    }));
    e.push(entry_vac("STFT", |_, sink| {
        for batch in [1usize, 2] {
            for len in [4usize, 5, 8] {
                for step in [1i64, 2, 3] {
                    for nfft in [2usize, 3, 4] {
                        for onesided in [1i64, 0] {
                            for use_window in [true, false] {
                                for rank3 in [true, false] {
                                    for (init, vm) in value_modes() {
                                        let sig = if rank3 { vec![batch, len, 1] } else { vec![batch, len] };
                                        let mut st = TIn::scalar_i64("step", step);
                                        st.init = init;
                                        let mut ins = vec![TIn::f32("x", &sig), st];
                                        let names: Vec<&str> = if use_window {
                                            ins.push(TIn::f32("w", &[nfft]).positive().as_init());
                                            vec!["x", "step", "w"]
                                        } else {
                                            let mut fl = TIn::scalar_i64("fl", nfft as i64);
                                            fl.init = init;
                                            ins.push(fl);
                                            vec!["x", "step", "", "fl"]
                                        };
                                        sink(Case::new("STFT", &format!("{vm}; onesided={onesided}"), vec![n("STFT", &names, &["y"]).attr("onesided", Attr::Int(onesided))], ins).opset(17));
                                    }
                                }
                            }
                        }
                    }
                }
            }
        }
    }));
    for (op, gates) in [("GRU", 3usize), ("LSTM", 4usize)] {
        e.push(entry(op, move |_, sink| {
            for seq in [0usize, 1, 2] {
                for batch in [1usize, 2] {
                    for input in [1usize, 3] {
                        for hidden in [1usize, 2] {
                            for (dir, nd) in [("forward", 1usize), ("reverse", 1), ("bidirectional", 2)] {
                                for bias in [false, true] {
                                    let mut ins = vec![
                                        TIn::f32("x", &[seq, batch, input]),
                                        TIn::f32("w", &[nd, gates * hidden, input]).as_init(),
                                        TIn::f32("r", &[nd, gates * hidden, hidden]).as_init(),
                                    ];
                                    let mut names = vec!["x", "w", "r"];
                                    if bias {
                                        ins.push(TIn::f32("b", &[nd, 2 * gates * hidden]).as_init());
                                        names.push("b");
                                    }
                                    let outs: Vec<&str> = if op == "GRU" { vec!["y", "yh"] } else { vec!["y", "yh", "yc"] };
                                    let mut node = n(op, &names, &outs).attr("hidden_size", Attr::Int(hidden as i64)).attr("direction", Attr::Str(dir.into()));
                                    if op == "GRU" {
                                        node = node.attr("linear_before_reset", Attr::Int(1));
                                    }
                                    sink(Case::new(op, "constant weights", vec![node], ins));
                                }
                            }
                            // dynamic weights
                            sink(Case::new(
                                op,
                                "dynamic weights",
                                vec![if op == "GRU" {
                                    n(op, &["x", "w", "r"], &["y", "yh"]).attr("hidden_size", Attr::Int(hidden as i64)).attr("linear_before_reset", Attr::Int(1))
                                } else {
                                    n(op, &["x", "w", "r"], &["y", "yh"]).attr("hidden_size", Attr::Int(hidden as i64))
                                }],
                                vec![TIn::f32("x", &[seq, batch, input]), TIn::f32("w", &[1, gates * hidden, input]), TIn::f32("r", &[1, gates * hidden, hidden])],
                            ));
                        }
                    }
                }
            }
        }));
    }
    e.push(entry("Attention (ai.onnx)", |_, sink| {
        for batch in [1usize, 2] {
            for qs in [1usize, 2] {
                for kvs in [1usize, 3] {
                    for (qh, kvh) in [(2usize, 2usize), (2, 1), (4, 2)] {
                        for (hs, vhs) in [(2usize, 2usize), (2, 3)] {
                            for past in [None, Some(2usize)] {
                                // 4-D inputs
                                let mut ins = vec![TIn::f32("q", &[batch, qh, qs, hs]), TIn::f32("k", &[batch, kvh, kvs, hs]), TIn::f32("v", &[batch, kvh, kvs, vhs])];
                                let mut names = vec!["q", "k", "v"];
                                if let Some(p) = past {
                                    ins.push(TIn::f32("pk", &[batch, kvh, p, hs]));
                                    ins.push(TIn::f32("pv", &[batch, kvh, p, vhs]));
                                    names.extend(["", "pk", "pv"]);
                                }
                                let outs: Vec<&str> = if past.is_some() { vec!["y", "prk", "prv"] } else { vec!["y"] };
                                sink(Case::new("Attention (ai.onnx)", if past.is_some() { "4-D with past" } else { "4-D" }, vec![n("Attention", &names, &outs)], ins).opset(23));
                                // 3-D inputs with head-count attributes
                                let mut ins = vec![TIn::f32("q", &[batch, qs, qh * hs]), TIn::f32("k", &[batch, kvs, kvh * hs]), TIn::f32("v", &[batch, kvs, kvh * vhs])];
                                let mut names = vec!["q", "k", "v"];
                                if let Some(p) = past {
                                    ins.push(TIn::f32("pk", &[batch, kvh, p, hs]));
                                    ins.push(TIn::f32("pv", &[batch, kvh, p, vhs]));
                                    names.extend(["", "pk", "pv"]);
                                }
                                let outs: Vec<&str> = if past.is_some() { vec!["y", "prk", "prv"] } else { vec!["y"] };
                                sink(Case::new(
                                    "Attention (ai.onnx)",
                                    if past.is_some() { "3-D with past" } else { "3-D" },
                                    vec![n("Attention", &names, &outs).attr("q_num_heads", Attr::Int(qh as i64)).attr("kv_num_heads", Attr::Int(kvh as i64))],
                                    ins,
                                )
                                .opset(23));
                            }
                        }
                    }
                }
            }
        }
    }));
    e.push(entry("MultiHeadAttention (com.microsoft)", |_, sink| {
        for batch in [1usize, 2] {
            for qs in [1usize, 2] {
                for kvs in [1usize, 3] {
                    for heads in [1usize, 2] {
                        for (hs, vhs) in [(2usize, 2usize), (2, 3)] {
                            for past in [None, Some(2usize)] {
                                let mut ins = vec![TIn::f32("q", &[batch, qs, heads * hs]), TIn::f32("k", &[batch, kvs, heads * hs]), TIn::f32("v", &[batch, kvs, heads * vhs])];
                                let mut names = vec!["q", "k", "v"];
                                if let Some(p) = past {
                                    ins.push(TIn::f32("pk", &[batch, heads, p, hs]));
                                    ins.push(TIn::f32("pv", &[batch, heads, p, vhs]));
                                    names.extend(["", "", "", "pk", "pv"]);
                                }
                                for outs in [vec!["y"], vec!["y", "prk", "prv"]] {
                                    sink(Case::new(
                                        "MultiHeadAttention (com.microsoft)",
                                        if past.is_some() { "separate Q/K/V with past" } else { "separate Q/K/V" },
                                        vec![n("MultiHeadAttention", &names, &outs).domain("com.microsoft").attr("num_heads", Attr::Int(heads as i64))],
                                        ins.clone(),
                                    ));
                                }
                            }
                            // packed QKV
                            if hs == vhs {
                                sink(Case::new(
                                    "MultiHeadAttention (com.microsoft)",
                                    "packed QKV",
                                    vec![n("MultiHeadAttention", &["q"], &["y", "prk", "prv"]).domain("com.microsoft").attr("num_heads", Attr::Int(heads as i64))],
                                    vec![TIn::f32("q", &[batch, qs, heads, 3, hs])],
                                ));
                            }
                        }
                    }
                }
            }
        }
    }));
    e.push(entry("GroupQueryAttention (com.microsoft)", |_, sink| {
        for batch in [1usize, 2] {
            for seq in [1usize, 2] {
                for (heads, kvh) in [(2usize, 2usize), (2, 1), (4, 2)] {
                    for hs in [2usize, 4] {
                        for past in [0usize, 2] {
                            let total = (past + seq) as i64;
                            let mut ins = vec![
                                TIn::f32("q", &[batch, seq, heads * hs]),
                                TIn::f32("k", &[batch, seq, kvh * hs]),
                                TIn::f32("v", &[batch, seq, kvh * hs]),
                                TIn::f32("pk", &[batch, kvh, past, hs]),
                                TIn::f32("pv", &[batch, kvh, past, hs]),
                                TIn::ints("sl", dtype::INT32, &[batch], &vec![total - 1; batch]),
                                TIn::ints("tl", dtype::INT32, &[], &[total]),
                            ];
                            sink(Case::new(
                                "GroupQueryAttention (com.microsoft)",
                                "separate Q/K/V",
                                vec![n("GroupQueryAttention", &["q", "k", "v", "pk", "pv", "sl", "tl"], &["y", "prk", "prv"]).domain("com.microsoft").attr("num_heads", Attr::Int(heads as i64)).attr("kv_num_heads", Attr::Int(kvh as i64))],
                                ins.clone(),
                            ));
                            // packed QKV
                            ins[0] = TIn::f32("q", &[batch, seq, (heads + 2 * kvh) * hs]);
                            ins.remove(2);
                            ins.remove(1);
                            sink(Case::new(
                                "GroupQueryAttention (com.microsoft)",
                                "packed QKV",
                                vec![n("GroupQueryAttention", &["q", "", "", "pk", "pv", "sl", "tl"], &["y", "prk", "prv"]).domain("com.microsoft").attr("num_heads", Attr::Int(heads as i64)).attr("kv_num_heads", Attr::Int(kvh as i64))],
                                ins,
                            ));
                        }
                    }
                }
            }
        }
    }));
    e.push(entry("MatMulNBits (com.microsoft)", |_, sink| {
        for batch in [vec![], vec![2usize]] {
            for m in [1usize, 2] {
                for nn in [1usize, 3] {
                    for (block, kblocks) in [(16usize, 1usize), (32, 1), (16, 2)] {
                        let k = block * kblocks;
                        let mut a = batch.clone();
                        a.extend([m, k]);
                        let bcount = nn * kblocks * block / 2;
                        sink(Case::new(
                            "MatMulNBits (com.microsoft)",
                            "4-bit blocks",
                            vec![n("MatMulNBits", &["a", "b", "s"], &["y"])
                                .domain("com.microsoft")
                                .attr("K", Attr::Int(k as i64))
                                .attr("N", Attr::Int(nn as i64))
                                .attr("bits", Attr::Int(4))
                                .attr("block_size", Attr::Int(block as i64))],
                            vec![
                                TIn::f32("a", &a),
                                TIn::ints("b", dtype::UINT8, &[nn, kblocks, block / 2], &(0..bcount).map(|i| (i % 200) as i64).collect::<Vec<_>>()).as_init(),
                                TIn::f32("s", &[nn, kblocks]).positive().as_init(),
                            ],
                        ));
                    }
                }
            }
        }
    }));
    e.push(entry("RotaryEmbedding", |_, sink| {
        for batch in [1usize, 2] {
            for seq in [1usize, 2] {
                for heads in [1usize, 2] {
                    for hs in [2usize, 4] {
                        // 4-D input [batch, heads, seq, head]; caches [batch, seq, head/2]
                        sink(Case::new(
                            "RotaryEmbedding",
                            "4-D input",
                            vec![n("RotaryEmbedding", &["x", "c", "s"], &["y"])],
                            vec![TIn::f32("x", &[batch, heads, seq, hs]), TIn::f32("c", &[batch, seq, hs / 2]), TIn::f32("s", &[batch, seq, hs / 2])],
                        )
                        .opset(23));
                        sink(Case::new(
                            "RotaryEmbedding",
                            "3-D input",
                            vec![n("RotaryEmbedding", &["x", "c", "s"], &["y"]).attr("num_heads", Attr::Int(heads as i64))],
                            vec![TIn::f32("x", &[batch, seq, heads * hs]), TIn::f32("c", &[batch, seq, hs / 2]), TIn::f32("s", &[batch, seq, hs / 2])],
                        )
                        .opset(23));
                        // com.microsoft variant: position ids + 2-D caches
                        sink(Case::new(
                            "RotaryEmbedding",
                            "com.microsoft",
                            vec![n("RotaryEmbedding", &["x", "p", "c", "s"], &["y"]).domain("com.microsoft").attr("num_heads", Attr::Int(heads as i64))],
                            vec![
                                TIn::f32("x", &[batch, seq, heads * hs]),
                                TIn::ints("p", dtype::INT64, &[batch, seq], &vec![0; batch * seq]),
                                TIn::f32("c", &[4, hs / 2]).as_init(),
                                TIn::f32("s", &[4, hs / 2]).as_init(),
                            ],
                        ));
                    }
                }
            }
        }
    }));
}
