//! C11 — symbolic expression simplification and bounds are sound.
//!
//! Box: every expression tree of depth <= d over the binary operators
//! Add/Sub/Mul/Div/DivCeil/Max/Min/Broadcast and unary Neg with leaves from a
//! stated alphabet (constants incl. negatives and i32 extremes, two symbols
//! declared non-negative `a`,`b`, one unconstrained symbol `x`), crossed with
//! every assignment a,b in {0,1,2,3,5}, x in {-3..3} of the symbols that occur.
//!
//! Oracle: `symeval` (checked i64 arithmetic). An assignment counts only if
//! the ORIGINAL expression evaluates strictly (no division by zero, every
//! node value in i32, Broadcast precondition holds at every Broadcast node).
//! Then
//!   * `simplify()` must evaluate (in wide i64 arithmetic) to the same value,
//!   * `range()` of the expression must contain the value,
//!   * `is_positive()` implies value >= 0,
//!   * `SymExpr::eval` must return the same value,
//!   * range()/is_positive() of the simplified expression are checked in the
//!     same way whenever the simplified expression itself evaluates strictly
//!     (it is a symbolic expression in its own right).

use std::collections::{BTreeMap, HashSet};
use std::hash::{Hash, Hasher};
use std::sync::{Arc, Mutex};

use rten_shape_inference::{SymExpr, SymbolMap};
use vp_core::{Ctx, Json, Tier, json};

use crate::symeval::{self as se, Fail, Mode, op_name, to_sexpr};

const A_VALS: [i64; 5] = [0, 1, 2, 3, 5];
const X_VALS: [i64; 7] = [-3, -2, -1, 0, 1, 2, 3];

#[derive(Clone, Copy, Debug, PartialEq)]
struct Env {
    a: i64,
    b: i64,
    x: i64,
}

impl Env {
    fn get(&self, n: &str) -> Option<i64> {
        match n {
            "a" => Some(self.a),
            "b" => Some(self.b),
            "x" => Some(self.x),
            _ => None,
        }
    }
    fn json(&self, used: (bool, bool, bool)) -> Json {
        let mut m = serde_json_map();
        if used.0 {
            m.insert("a".into(), json!(self.a));
        }
        if used.1 {
            m.insert("b".into(), json!(self.b));
        }
        if used.2 {
            m.insert("x".into(), json!(self.x));
        }
        Json::Object(m)
    }
}

fn serde_json_map() -> vp_core::serde_json::Map<String, Json> {
    vp_core::serde_json::Map::new()
}

fn vars_used(e: &SymExpr) -> (bool, bool, bool) {
    let mut u = (false, false, false);
    for n in e.iter() {
        if let SymExpr::Var(s) = n {
            match s.name.as_str() {
                "a" => u.0 = true,
                "b" => u.1 = true,
                "x" => u.2 = true,
                _ => {}
            }
        }
    }
    u
}

fn assignments(u: (bool, bool, bool)) -> Vec<Env> {
    let av: &[i64] = if u.0 { &A_VALS } else { &[0] };
    let bv: &[i64] = if u.1 { &A_VALS } else { &[0] };
    let xv: &[i64] = if u.2 { &X_VALS } else { &[0] };
    let mut out = Vec::with_capacity(av.len() * bv.len() * xv.len());
    for &a in av {
        for &b in bv {
            for &x in xv {
                out.push(Env { a, b, x });
            }
        }
    }
    out
}

fn leaf(code: &str) -> SymExpr {
    match code {
        "a" => SymExpr::pos_var("a"),
        "b" => SymExpr::pos_var("b"),
        "x" => SymExpr::var("x"),
        "MIN" => SymExpr::Value(i32::MIN),
        "MAX" => SymExpr::Value(i32::MAX),
        n => SymExpr::Value(n.parse().expect("leaf")),
    }
}

const BIN_OPS: [&str; 8] = ["Add", "Sub", "Mul", "Div", "DivCeil", "Max", "Min", "Broadcast"];

fn mk_bin(op: usize, l: Arc<SymExpr>, r: Arc<SymExpr>) -> SymExpr {
    match op {
        0 => SymExpr::Add(l, r),
        1 => SymExpr::Sub(l, r),
        2 => SymExpr::Mul(l, r),
        3 => SymExpr::Div(l, r),
        4 => SymExpr::DivCeil(l, r),
        5 => SymExpr::Max(l, r),
        6 => SymExpr::Min(l, r),
        7 => SymExpr::Broadcast(l, r),
        _ => unreachable!(),
    }
}

/// All trees of depth <= d over `leaves`, each exactly once: a tree of depth
/// <= d is a leaf, Neg of a tree of depth <= d-1, or a binary operator applied
/// to two trees of depth <= d-1.
fn trees_upto(d: usize, leaves: &[SymExpr]) -> Vec<Arc<SymExpr>> {
    let mut cur: Vec<Arc<SymExpr>> = leaves.iter().cloned().map(Arc::new).collect();
    for _ in 0..d {
        let mut next: Vec<Arc<SymExpr>> = leaves.iter().cloned().map(Arc::new).collect();
        for t in &cur {
            next.push(Arc::new(SymExpr::Neg(t.clone())));
        }
        for op in 0..BIN_OPS.len() {
            for l in &cur {
                for r in &cur {
                    next.push(Arc::new(mk_bin(op, l.clone(), r.clone())));
                }
            }
        }
        cur = next;
    }
    cur
}

fn count_upto(d: usize, nleaves: u128) -> u128 {
    let mut cur = nleaves;
    for _ in 0..d {
        cur = nleaves + cur + 8 * cur * cur;
    }
    cur
}

// ---------------------------------------------------------------------------

#[derive(Default)]
struct Acc {
    trees: u64,
    trees_reached: u64,
    trees_changed_and_reached: u64,
    evaluations: u64,
    skip_div0: u64,
    skip_overflow: u64,
    skip_broadcast: u64,
    range_checks: u64,
    range_simplified_checks: u64,
    eval_crosschecks: u64,
    simplify_checks: u64,
    is_positive_true: u64,
    viol: BTreeMap<String, (Json, String, u64)>,
    obs: BTreeMap<String, u64>,
    distinct: HashSet<u64>,
    distinct_values: HashSet<i64>,
    samples: Vec<Json>,
}

impl Acc {
    fn violation(&mut self, sig: String, case: impl FnOnce() -> (Json, String)) {
        match self.viol.get_mut(&sig) {
            Some(e) => e.2 += 1,
            None => {
                let (c, d) = case();
                self.viol.insert(sig, (c, d, 1));
            }
        }
    }
    fn observe(&mut self, what: &str) {
        *self.obs.entry(what.to_string()).or_insert(0) += 1;
    }
    fn merge_small(&mut self, o: Acc) {
        self.trees += o.trees;
        self.trees_reached += o.trees_reached;
        self.trees_changed_and_reached += o.trees_changed_and_reached;
        self.evaluations += o.evaluations;
        self.skip_div0 += o.skip_div0;
        self.skip_overflow += o.skip_overflow;
        self.skip_broadcast += o.skip_broadcast;
        self.range_checks += o.range_checks;
        self.range_simplified_checks += o.range_simplified_checks;
        self.eval_crosschecks += o.eval_crosschecks;
        self.simplify_checks += o.simplify_checks;
        self.is_positive_true += o.is_positive_true;
        for (k, (c, d, n)) in o.viol {
            match self.viol.get_mut(&k) {
                Some(e) => e.2 += n,
                None => {
                    self.viol.insert(k, (c, d, n));
                }
            }
        }
        for (k, n) in o.obs {
            *self.obs.entry(k).or_insert(0) += n;
        }
        for s in o.samples {
            if self.samples.len() < 12 {
                self.samples.push(s);
            }
        }
    }
}

fn hash_expr(e: &SymExpr) -> u64 {
    // Structural hash of the printed form (SymExpr's own Hash is
    // commutativity-insensitive by design; the printed form is not).
    let mut h = std::collections::hash_map::DefaultHasher::new();
    to_sexpr(e).hash(&mut h);
    h.finish()
}

/// Deepest node (post-order, left first) at which `bad(node, value)` holds
/// while it holds for none of its descendants. Requires strict evaluability.
fn culprit<'e>(
    e: &'e SymExpr,
    env: &Env,
    bad: &dyn Fn(&SymExpr, i64) -> bool,
) -> (i64, Option<&'e SymExpr>) {
    let get = |n: &str| env.get(n);
    match e {
        SymExpr::Value(_) | SymExpr::Var(_) => {
            let v = se::eval(e, &get, Mode::Strict).expect("strict");
            (v, if bad(e, v) { Some(e) } else { None })
        }
        _ => {
            let (l, r) = se::children(e);
            let (x, cl) = culprit(l.unwrap(), env, bad);
            let (y, cr) = match r {
                Some(r) => culprit(r, env, bad),
                None => (0, None),
            };
            let v = se::apply(e, x, y, Mode::Strict).expect("strict");
            if let Some(c) = cl.or(cr) {
                return (v, Some(c));
            }
            (v, if bad(e, v) { Some(e) } else { None })
        }
    }
}

#[derive(Clone, Debug, PartialEq)]
enum SimplifyFail {
    Panic(String),
    Differs { got: i64, want: i64 },
    DivZero { want: i64 },
    Broadcast { want: i64 },
}

impl SimplifyFail {
    fn kind(&self) -> &'static str {
        match self {
            SimplifyFail::Panic(_) => "simplify panics",
            SimplifyFail::Differs { .. } => "value differs",
            SimplifyFail::DivZero { .. } => "simplified divides by zero",
            SimplifyFail::Broadcast { .. } => "simplified breaks broadcast precondition",
        }
    }
}

/// First assignment (box order) under which `e` evaluates strictly but its
/// simplification does not evaluate to the same value.
fn simplify_failure(e: &SymExpr) -> Option<(Env, SimplifyFail)> {
    let used = vars_used(e);
    let simp = vp_core::catch(|| e.simplify());
    for env in assignments(used) {
        let get = |n: &str| env.get(n);
        let Ok(v) = se::eval(e, &get, Mode::Strict) else { continue };
        match &simp {
            Err(msg) => return Some((env, SimplifyFail::Panic(msg.clone()))),
            Ok(s) => match se::eval(s, &get, Mode::Wide) {
                Ok(w) if w == v => {}
                Ok(w) => return Some((env, SimplifyFail::Differs { got: w, want: v })),
                Err(Fail::DivZero) => return Some((env, SimplifyFail::DivZero { want: v })),
                Err(Fail::Broadcast) => return Some((env, SimplifyFail::Broadcast { want: v })),
                Err(_) => {}
            },
        }
    }
    None
}

/// Descend to a sub-expression that still fails while none of its children does.
fn minimal_failing(e: &SymExpr) -> SymExpr {
    let (l, r) = se::children(e);
    for c in [l, r].into_iter().flatten() {
        if simplify_failure(c).is_some() {
            return minimal_failing(c);
        }
    }
    e.clone()
}

fn is_extreme(v: i32) -> bool {
    (v as i64).abs() > 1024
}

fn has_extreme(e: &SymExpr) -> bool {
    e.iter().any(|n| matches!(n, SymExpr::Value(v) if is_extreme(*v)))
}

/// Replace extreme constants by small ones of the same sign.
fn tame(e: &SymExpr) -> SymExpr {
    match e {
        SymExpr::Value(v) if is_extreme(*v) => SymExpr::Value(if *v < 0 { -3 } else { 3 }),
        SymExpr::Value(_) | SymExpr::Var(_) => e.clone(),
        SymExpr::Neg(x) => SymExpr::Neg(tame(x).into()),
        SymExpr::Add(l, r) => SymExpr::Add(tame(l).into(), tame(r).into()),
        SymExpr::Sub(l, r) => SymExpr::Sub(tame(l).into(), tame(r).into()),
        SymExpr::Mul(l, r) => SymExpr::Mul(tame(l).into(), tame(r).into()),
        SymExpr::Div(l, r) => SymExpr::Div(tame(l).into(), tame(r).into()),
        SymExpr::DivCeil(l, r) => SymExpr::DivCeil(tame(l).into(), tame(r).into()),
        SymExpr::Max(l, r) => SymExpr::Max(tame(l).into(), tame(r).into()),
        SymExpr::Min(l, r) => SymExpr::Min(tame(l).into(), tame(r).into()),
        SymExpr::Broadcast(l, r) => SymExpr::Broadcast(tame(l).into(), tame(r).into()),
    }
}

/// Signature of a simplify failure: operator of the minimal failing
/// sub-expression, the operator of its deepest operand chain that takes part
/// (`Div of Div`), the failure kind, and whether the failure needs an extreme
/// (|c| > 1024) constant, i.e. disappears when extremes are replaced by +-3.
fn simplify_signature(e: &SymExpr) -> (String, SymExpr, Env, SimplifyFail) {
    let m = minimal_failing(e);
    let (env, f) = simplify_failure(&m).expect("minimal fails");
    let needs_extreme = has_extreme(&m) && {
        let t = tame(&m);
        match simplify_failure(&t) {
            Some((_, f2)) => f2.kind() != f.kind(),
            None => true,
        }
    };
    // Value of the right operand of the minimal failing node under the witness
    // (for the debugging dump only).
    if let Ok(path) = std::env::var("C11_DUMP") {
        use std::io::Write;
        let get = |n: &str| env.get(n);
        let (_, r) = se::children(&m);
        let rv = r.map(|r| se::eval(r, &get, Mode::Strict));
        if let Ok(mut fh) = std::fs::OpenOptions::new().create(true).append(true).open(path) {
            let _ = writeln!(fh, "{}\t{}\t{:?}\t{:?}\trhs={:?}\tneeds_extreme={}", op_name(&m), to_sexpr(&m), env, f, rv, needs_extreme);
        }
    }
    let what = match &f {
        SimplifyFail::Panic(_) => "simplify panics",
        _ => "simplify changes the value",
    };
    let sig = format!(
        "SymExpr::simplify: {} at a {} node [{}]",
        what,
        op_name(&m),
        if needs_extreme { "only with a constant beyond +-1024: i32 wrap-around" } else { "small constants" }
    );
    (sig, m, env, f)
}

struct Checked {
    simp: Option<SymExpr>,
}

fn check_tree(e: &SymExpr, acc: &mut Acc, want_sample: bool) -> Checked {
    acc.trees += 1;
    let used = vars_used(e);
    let envs = assignments(used);

    // The calls under test. Panics are classified below.
    let simp = vp_core::catch(|| e.simplify());
    let range = vp_core::catch(|| e.range());
    let pos = vp_core::catch(|| e.is_positive());
    let simp_facts = match &simp {
        Ok(s) => vp_core::catch(|| (s.range(), s.is_positive())).ok(),
        Err(_) => None,
    };
    if range.is_err() || pos.is_err() {
        acc.violation("SymExpr::range/is_positive panics".into(), || {
            (json!({"expr": to_sexpr(e)}), format!("range() or is_positive() panicked on {}", to_sexpr(e)))
        });
    }
    if pos == Ok(true) {
        acc.is_positive_true += 1;
    }

    let mut reached = 0u64;
    let mut flagged_range = false;
    let mut flagged_pos = false;
    let mut flagged_eval = false;
    let mut flagged_simp = false;
    let mut flagged_srange = false;
    let mut flagged_spos = false;
    let mut obs_simp_ovf = false;
    let names = [("a", 0i32), ("b", 0), ("x", 0)];

    for env in &envs {
        let get = |n: &str| env.get(n);
        let v = match se::eval(e, &get, Mode::Strict) {
            Ok(v) => v,
            Err(Fail::DivZero) => {
                acc.skip_div0 += 1;
                continue;
            }
            Err(Fail::Overflow) => {
                acc.skip_overflow += 1;
                continue;
            }
            Err(Fail::Broadcast) => {
                acc.skip_broadcast += 1;
                continue;
            }
            Err(Fail::Missing) => vp_core::machinery_error("C11: unbound symbol in enumeration"),
        };
        reached += 1;
        acc.evaluations += 1;
        if acc.distinct_values.len() < 4096 {
            acc.distinct_values.insert(v);
        }

        // range
        if let Ok((lo, hi)) = range {
            acc.range_checks += 1;
            if !flagged_range && !(lo as i64 <= v && v <= hi as i64) {
                flagged_range = true;
                let (_, c) = culprit(e, env, &|n, val| {
                    let (lo, hi) = n.range();
                    !(lo as i64 <= val && val <= hi as i64)
                });
                let c = c.unwrap_or(e);
                let sig = format!("SymExpr::range: {} node reports an interval that excludes its value", op_name(c));
                acc.violation(sig, || {
                    let get = |n: &str| env.get(n);
                    let cv = se::eval(c, &get, Mode::Strict).unwrap();
                    (
                        json!({"expr": to_sexpr(e), "assign": env.json(used), "check": "range"}),
                        format!(
                            "expr {} = {} under {}; range() = ({}, {}); first unsound node: {} has value {} but range() = {:?}",
                            to_sexpr(e), v, env.json(used), lo, hi, to_sexpr(c), cv, c.range()
                        ),
                    )
                });
            }
        }
        // is_positive
        if pos == Ok(true) && v < 0 && !flagged_pos {
            flagged_pos = true;
            let (_, c) = culprit(e, env, &|n, val| n.is_positive() && val < 0);
            let c = c.unwrap_or(e);
            let sig = format!("SymExpr::is_positive: {} node claims >= 0 but evaluates negative", op_name(c));
            acc.violation(sig, || {
                (
                    json!({"expr": to_sexpr(e), "assign": env.json(used), "check": "is_positive"}),
                    format!("expr {} = {} under {} but is_positive() = true (node {})", to_sexpr(e), v, env.json(used), to_sexpr(c)),
                )
            });
        }
        // SymExpr::eval cross-check
        {
            let mut syms = names;
            syms[0].1 = env.a as i32;
            syms[1].1 = env.b as i32;
            syms[2].1 = env.x as i32;
            let got = vp_core::catch(|| e.eval(&SymbolMap::new(&syms)));
            acc.eval_crosschecks += 1;
            let ok = matches!(&got, Ok(Ok(w)) if *w as i64 == v);
            if !ok && !flagged_eval {
                flagged_eval = true;
                let syms2 = syms;
                let (_, c) = culprit(e, env, &|n, val| {
                    !matches!(vp_core::catch(|| n.eval(&SymbolMap::new(&syms2))), Ok(Ok(w)) if w as i64 == val)
                });
                let c = c.unwrap_or(e);
                let sig = format!("SymExpr::eval: {} node disagrees with reference evaluation", op_name(c));
                acc.violation(sig, || {
                    let get = |n: &str| env.get(n);
                    let cv = se::eval(c, &get, Mode::Strict).unwrap();
                    let cg = vp_core::catch(|| c.eval(&SymbolMap::new(&syms2)));
                    (
                        json!({"expr": to_sexpr(e), "assign": env.json(used), "check": "eval"}),
                        format!(
                            "expr {} under {}: reference {}, SymExpr::eval {:?}; first disagreeing node {}: reference {}, eval {:?}",
                            to_sexpr(e), env.json(used), v, got, to_sexpr(c), cv, cg
                        ),
                    )
                });
            }
        }
        // simplify
        acc.simplify_checks += 1;
        match &simp {
            Err(_) => {
                if !flagged_simp {
                    flagged_simp = true;
                    let (sig, m, menv, f) = simplify_signature(e);
                    acc.violation(sig, || {
                        (
                            json!({"expr": to_sexpr(e), "assign": env.json(used), "check": "simplify"}),
                            format!("simplify() panics on {} ({:?}); minimal failing sub-expression {} under {}", to_sexpr(e), f, to_sexpr(&m), menv.json(vars_used(&m))),
                        )
                    });
                }
            }
            Ok(s) => {
                let w = se::eval(s, &get, Mode::Wide);
                let bad = match w {
                    Ok(w) => w != v,
                    Err(Fail::DivZero) | Err(Fail::Broadcast) | Err(Fail::Missing) => true,
                    Err(Fail::Overflow) => {
                        if !obs_simp_ovf {
                            obs_simp_ovf = true;
                            acc.observe("simplified expression overflows i64 where the original evaluates (not judged)");
                        }
                        false
                    }
                };
                if bad && !flagged_simp {
                    flagged_simp = true;
                    let (sig, m, menv, f) = simplify_signature(e);
                    acc.violation(sig, || {
                        let ms = m.simplify();
                        (
                            json!({"expr": to_sexpr(e), "assign": env.json(used), "check": "simplify"}),
                            format!(
                                "expr {} = {} under {}, simplify() = {} evaluates to {:?}; minimal failing sub-expression {} -> {} under {}: {:?}",
                                to_sexpr(e), v, env.json(used), to_sexpr(s), w, to_sexpr(&m), to_sexpr(&ms), menv.json(vars_used(&m)), f
                            ),
                        )
                    });
                }
                if !bad {
                    // the simplified expression as a subject of range()/is_positive()
                    match se::eval(s, &get, Mode::Strict) {
                        Ok(sv) => {
                            if let Some(((lo, hi), sp)) = simp_facts {
                                acc.range_simplified_checks += 1;
                                if !flagged_srange && !(lo as i64 <= sv && sv <= hi as i64) {
                                    flagged_srange = true;
                                    let (_, c) = culprit(s, env, &|n, val| {
                                        let (lo, hi) = n.range();
                                        !(lo as i64 <= val && val <= hi as i64)
                                    });
                                    let c = c.unwrap_or(s);
                                    let sig = format!("SymExpr::range: {} node reports an interval that excludes its value", op_name(c));
                                    // Only count it here when the original tree did not already show it.
                                    if !flagged_range {
                                        acc.violation(sig, || {
                                            (
                                                json!({"expr": to_sexpr(e), "assign": env.json(used), "check": "range(simplified)"}),
                                                format!(
                                                    "simplified expr {} (of {}) = {} under {}; range() = ({}, {}); unsound node {}",
                                                    to_sexpr(s), to_sexpr(e), sv, env.json(used), lo, hi, to_sexpr(c)
                                                ),
                                            )
                                        });
                                    }
                                }
                                if sp && sv < 0 && !flagged_spos && !flagged_pos {
                                    flagged_spos = true;
                                    let (_, c) = culprit(s, env, &|n, val| n.is_positive() && val < 0);
                                    let c = c.unwrap_or(s);
                                    let sig = format!("SymExpr::is_positive: {} node claims >= 0 but evaluates negative", op_name(c));
                                    acc.violation(sig, || {
                                        (
                                            json!({"expr": to_sexpr(e), "assign": env.json(used), "check": "is_positive(simplified)"}),
                                            format!("simplified expr {} (of {}) = {} under {} but is_positive() = true", to_sexpr(s), to_sexpr(e), sv, env.json(used)),
                                        )
                                    });
                                }
                            }
                        }
                        Err(_) => {
                            if !obs_simp_ovf {
                                obs_simp_ovf = true;
                                acc.observe("simplified expression leaves the i32 range at some node although value is right (not judged)");
                            }
                        }
                    }
                }
            }
        }
    }

    if reached > 0 {
        acc.trees_reached += 1;
        if let Ok(s) = &simp {
            let changed = to_sexpr(s) != to_sexpr(e);
            if changed {
                acc.trees_changed_and_reached += 1;
            }
            acc.distinct.insert(hash_expr(s));
            if want_sample && acc.samples.is_empty() {
                if changed {
                    let sample = (|| {
                        let env = envs.iter().find(|env| se::eval(e, &|n: &str| env.get(n), Mode::Strict).is_ok()).unwrap();
                        let v = se::eval(e, &|n: &str| env.get(n), Mode::Strict).unwrap();
                        json!({
                            "expr": to_sexpr(e), "simplified": to_sexpr(s), "assign": env.json(used), "value": v,
                            "range": format!("{:?}", range.clone().ok()), "is_positive": pos.clone().ok(),
                            "assignments_reaching_oracle": reached, "assignments_total": envs.len(),
                        })
                    })();
                    acc.samples.push(sample);
                }
            }
        }
    }
    Checked { simp: simp.ok() }
}

// ---------------------------------------------------------------------------

struct SubBox {
    name: String,
    leaves: Vec<&'static str>,
    /// Root operand pools: a binary root takes its left operand from the pool
    /// of trees of depth <= deep and its right operand from depth <= shallow,
    /// and (if deep != shallow) also the other way round. A Neg root takes its
    /// operand from the deep pool. deep == shallow == d-1 gives all trees of
    /// depth <= d.
    deep: usize,
    shallow: usize,
}

fn depth(e: &SymExpr) -> usize {
    let (l, r) = se::children(e);
    match (l, r) {
        (None, _) => 0,
        (Some(l), None) => 1 + depth(l),
        (Some(l), Some(r)) => 1 + depth(l).max(depth(r)),
    }
}

/// Trees per shard (approximately).
const SHARD_TREES: usize = 20_000;

fn run_box(b: &SubBox, total: &mut Acc, distinct: &Mutex<HashSet<u64>>) -> Json {
    let leaves: Vec<SymExpr> = b.leaves.iter().map(|c| leaf(c)).collect();
    let deep = trees_upto(b.deep, &leaves);
    let shallow = if b.shallow == b.deep { deep.clone() } else { trees_upto(b.shallow, &leaves) };
    if deep.len() as u128 != count_upto(b.deep, leaves.len() as u128)
        || shallow.len() as u128 != count_upto(b.shallow, leaves.len() as u128)
    {
        vp_core::machinery_error("C11: tree pool size does not match the closed-form count");
    }
    // In the mirrored orientation (left shallow, right deep) the right operand
    // must be strictly deeper than `shallow`, otherwise the pair was already
    // enumerated in the first orientation.
    let deep_only: Vec<Arc<SymExpr>> =
        if b.shallow == b.deep { Vec::new() } else { deep.iter().filter(|t| depth(t) > b.shallow).cloned().collect() };

    // Shard descriptors: (orientation, op, range of first-operand indices).
    let mut shards: Vec<(usize, usize, usize, usize)> = Vec::new();
    let mut add_shards = |orient: usize, first_len: usize, second_len: usize| {
        if second_len == 0 {
            return;
        }
        let chunk = (SHARD_TREES / second_len).max(1);
        for op in 0..BIN_OPS.len() {
            let mut i = 0;
            while i < first_len {
                let j = (i + chunk).min(first_len);
                shards.push((orient, op, i, j));
                i = j;
            }
        }
    };
    add_shards(0, deep.len(), shallow.len());
    add_shards(1, shallow.len(), deep_only.len());
    let expected: u128 = leaves.len() as u128
        + deep.len() as u128
        + 8 * (deep.len() as u128 * shallow.len() as u128 + shallow.len() as u128 * deep_only.len() as u128);

    let before = total.trees;
    let n = shards.len();
    let accs = vp_core::par::map(n + 1, |i| {
        let mut acc = Acc::default();
        if i == n {
            for l in &leaves {
                check_tree(l, &mut acc, false);
            }
            for t in &deep {
                check_tree(&SymExpr::Neg(t.clone()), &mut acc, true);
            }
        } else {
            let (orient, op, lo, hi) = shards[i];
            let (first, second) = if orient == 0 { (&deep, &shallow) } else { (&shallow, &deep_only) };
            let mut k = 0usize;
            for l in &first[lo..hi] {
                for r in second.iter() {
                    let e = mk_bin(op, l.clone(), r.clone());
                    // sample candidates: a deterministic sparse subset
                    k += 1;
                    check_tree(&e, &mut acc, k % 257 == 5);
                }
            }
        }
        let mut g = distinct.lock().unwrap();
        g.extend(acc.distinct.drain());
        drop(g);
        acc
    });
    // Merge in shard order (simplest trees first) so that the first case kept
    // per signature does not depend on thread scheduling. The leaf/Neg shard
    // is merged first.
    let mut accs = accs;
    let last = accs.pop().unwrap();
    for a in std::iter::once(last).chain(accs) {
        if total.distinct_values.len() < 4096 {
            total.distinct_values.extend(a.distinct_values.iter().copied());
        }
        total.merge_small(a);
    }
    let trees = total.trees - before;
    if trees as u128 != expected {
        vp_core::machinery_error(&format!("C11: enumerated {trees} trees, closed form says {expected}"));
    }
    json!({
        "name": b.name,
        "leaves": b.leaves,
        "root_operand_depths": format!("one operand of depth <= {}, the other of depth <= {}", b.deep, b.shallow),
        "pool_sizes": {"deep": deep.len(), "shallow": shallow.len()},
        "trees": trees,
        "shards": n + 1,
    })
}

const LEAVES_FULL: [&str; 14] = ["-3", "-2", "-1", "0", "1", "2", "3", "256", "768", "MIN", "MAX", "a", "b", "x"];

pub fn run(ctx: Ctx) -> ! {
    let distinct = Mutex::new(HashSet::new());
    let mut total = Acc::default();

    if let Some(path) = ctx.replay.clone() {
        let case = vp_core::read_replay_case(&path);
        let Some(s) = case["expr"].as_str() else { vp_core::machinery_error("C11 replay: case.expr missing") };
        let e = se::from_sexpr(s).unwrap_or_else(|m| vp_core::machinery_error(&format!("C11 replay: {m}")));
        let c = check_tree(&e, &mut total, true);
        println!(
            "replay: expr {} simplify -> {} range {:?} is_positive {:?}",
            to_sexpr(&e),
            c.simp.as_ref().map(to_sexpr).unwrap_or("<panic>".into()),
            vp_core::catch(|| e.range()),
            vp_core::catch(|| e.is_positive())
        );
        finish(ctx, total, vec![], distinct);
    }

    let boxes: Vec<SubBox> = match ctx.tier {
        Tier::Quick => vec![
            SubBox { name: "all trees of depth <= 1, 14 leaves".into(), leaves: LEAVES_FULL.to_vec(), deep: 0, shallow: 0 },
            SubBox {
                name: "all trees of depth <= 2, 12 leaves".into(),
                leaves: vec!["-2", "-1", "0", "1", "2", "3", "256", "MIN", "MAX", "a", "b", "x"],
                deep: 1,
                shallow: 1,
            },
        ],
        Tier::Thorough => vec![
            SubBox { name: "all trees of depth <= 2, 14 leaves".into(), leaves: LEAVES_FULL.to_vec(), deep: 1, shallow: 1 },
            SubBox {
                name: "trees of depth <= 3 whose root has a leaf operand, 4 leaves".into(),
                leaves: vec!["-2", "1", "a", "x"],
                deep: 2,
                shallow: 0,
            },
            SubBox {
                name: "trees of depth <= 3 whose root has an operand of depth <= 1, 3 leaves".into(),
                leaves: vec!["-2", "a", "x"],
                deep: 2,
                shallow: 1,
            },
        ],
    };
    let mut box_reports = Vec::new();
    // Development aid: `--box <i>` runs a single sub-box (evidence then says so).
    let only: Option<usize> =
        ctx.extra_args.iter().position(|a| a == "--box").and_then(|i| ctx.extra_args.get(i + 1)).and_then(|s| s.parse().ok());
    for (bi, b) in boxes.iter().enumerate() {
        if only.is_some() && only != Some(bi) {
            continue;
        }
        let r = run_box(b, &mut total, &distinct);
        println!("C11 sub-box [{}]: {} trees, {:.1}s elapsed", b.name, r["trees"], ctx.elapsed_s());
        box_reports.push(r);
    }
    finish(ctx, total, box_reports, distinct)
}

fn finish(ctx: Ctx, mut total: Acc, boxes: Vec<Json>, distinct: Mutex<HashSet<u64>>) -> ! {
    let replaying = ctx.replay.is_some();
    for (sig, (case, detail, n)) in &total.viol {
        ctx.violation(sig.clone(), case.clone(), detail.clone());
        for _ in 1..*n {
            ctx.violation(sig.clone(), Json::Null, "");
        }
    }
    for (k, n) in &total.obs {
        ctx.observe_n(k, *n);
    }
    let distinct_simplified = distinct.lock().unwrap().len() as u64 + total.distinct.len() as u64;
    if !replaying
        && (total.trees_reached < 1000 || total.trees_changed_and_reached < 100 || distinct_simplified < 100)
    {
        ctx.machinery("C11: vacuous run (too few trees reached the oracle or were changed by simplify)");
    }
    println!(
        "C11 summary: trees={} reached_oracle={} changed_by_simplify={} evaluations={} skipped(div0={}, overflow={}, broadcast={}) distinct_simplified={} signatures={}",
        total.trees,
        total.trees_reached,
        total.trees_changed_and_reached,
        total.evaluations,
        total.skip_div0,
        total.skip_overflow,
        total.skip_broadcast,
        distinct_simplified,
        total.viol.len()
    );
    let by_sig: BTreeMap<String, u64> = total.viol.iter().map(|(k, v)| (k.clone(), v.2)).collect();
    let mut samp = std::mem::take(&mut total.samples);
    if samp.is_empty() {
        samp.push(json!({"note": "no tree changed by simplify in this (replay) run"}));
    }
    let coverage = json!({
        "rule": "every expression tree of the stated sub-boxes x every assignment of its symbols; an assignment counts iff the original expression evaluates strictly in the reference evaluator (no /0, every node in i32, Broadcast precondition); then simplify().value == value, value in range(), is_positive() => value >= 0, SymExpr::eval == value; range()/is_positive() are also checked on the simplified expression",
        "exhaustive": true,
        "evaluations": total.evaluations,
        "distinct_nontrivial": total.trees_changed_and_reached,
        "trees": total.trees,
        "trees_with_an_assignment_reaching_oracle": total.trees_reached,
        "trees_changed_by_simplify_and_reaching_oracle": total.trees_changed_and_reached,
        "distinct_simplified_forms": distinct_simplified,
        "distinct_values_seen_at_least": total.distinct_values.len(),
        "assignments_skipped": {"division_by_zero": total.skip_div0, "i32_overflow": total.skip_overflow, "broadcast_precondition": total.skip_broadcast},
        "checks": {
            "range": total.range_checks, "range_of_simplified": total.range_simplified_checks,
            "simplify_value": total.simplify_checks, "eval_crosscheck": total.eval_crosschecks,
            "trees_with_is_positive_true": total.is_positive_true,
        },
        "axes": {
            "operators": {"binary": BIN_OPS, "unary": ["Neg"]},
            "assignments": {"a (declared >= 0)": A_VALS, "b (declared >= 0)": A_VALS, "x (unconstrained)": X_VALS},
            "sub_boxes": boxes,
        },
        "violating_trees_by_signature": by_sig,
        "samples": samp,
    });
    ctx.finish(
        "exploration",
        coverage,
        vec![
            "Reference semantics: Div truncates toward zero (as SymExpr::eval, ONNX integer Div and rten's Div operator do); DivCeil rounds up; Broadcast(x,y) is ONNX broadcasting of two dim sizes (x if x==y, else the operand that is not 1), defined only for operands >= 0 that are equal or contain a 1.".into(),
            "The simplified expression is evaluated in checked i64 without the i32 restriction; an intermediate that only leaves the i32 range is recorded as an observation, not a violation.".into(),
            "Harness built with overflow-checks off (as rten release builds): i32 arithmetic inside rten wraps instead of panicking.".into(),
        ],
    )
}
