fn main() {
    vp_core::machinery_error("engine not built yet");
}
