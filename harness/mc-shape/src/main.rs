//! Engine for the shape-inference properties.
//!
//! * C11: `SymExpr::{simplify, range, is_positive, eval}` are sound — every
//!   expression tree up to a depth over a leaf alphabet x every assignment.
//! * C10: operator shape inference never contradicts execution — every
//!   single-operator / short shape-arithmetic model of a catalogue x every
//!   fixed/symbolic mask x every instantiation of a small alphabet.

mod c10;
mod c10_catalogue;
mod c11;
mod symeval;

fn main() {
    let prop = std::env::args().nth(1).unwrap_or_default();
    match prop.as_str() {
        "C11" => c11::run(vp_core::Ctx::from_env("C11")),
        "C10" => c10::run(vp_core::Ctx::from_env("C10")),
        _ => vp_core::machinery_error("mc-shape: unknown property (expected C10 or C11)"),
    }
}
