//! Reference semantics of symbolic integer expressions, written independently
//! of `SymExpr::eval`: mathematical integers in `i64` with explicit failure
//! modes. `SymExpr` is used only as a *data structure* (public enum).
//!
//! * `Strict` mode defines "evaluates without division by zero or overflow":
//!   every node value (leaves included) must be representable as `i32`, no
//!   divisor is zero and every `Broadcast` node satisfies the broadcasting
//!   precondition (operands >= 0, equal or one of them 1).
//! * `Wide` mode evaluates in checked `i64` without the `i32` restriction; it is
//!   used for the *simplified* expression so that a simplification is not
//!   blamed for an intermediate that merely leaves the `i32` range while the
//!   mathematical value is right.
//!
//! Division: `Div` truncates toward zero (this is what ONNX integer `Div`,
//! rten's `Div` operator and `SymExpr::eval` do; for the non-negative operands
//! shape arithmetic uses it coincides with flooring). `DivCeil` rounds toward
//! +infinity. `Broadcast(x, y)` is ONNX multidirectional broadcasting of two
//! dimension sizes: `x` if `x == y`, otherwise the operand that is not 1.

use rten_shape_inference::SymExpr;

#[derive(Clone, Copy, Debug, PartialEq, Eq)]
pub enum Fail {
    DivZero,
    /// a node value left the i32 range (strict) or the i64 range (wide)
    Overflow,
    /// Broadcast precondition violated
    Broadcast,
    /// symbol without a value
    Missing,
}

#[derive(Clone, Copy, PartialEq, Eq)]
pub enum Mode {
    Strict,
    Wide,
}

fn fit(v: Option<i64>, mode: Mode) -> Result<i64, Fail> {
    match v {
        None => Err(Fail::Overflow),
        Some(v) => {
            if mode == Mode::Strict && (v < i32::MIN as i64 || v > i32::MAX as i64) {
                Err(Fail::Overflow)
            } else {
                Ok(v)
            }
        }
    }
}

pub fn ceil_div(x: i64, y: i64) -> Option<i64> {
    let q = x.checked_div(y)?;
    let r = x.checked_rem(y)?;
    // The exact quotient is positive and not an integer iff the remainder is
    // non-zero and has the sign of the divisor; truncation then rounded down.
    if r != 0 && ((r < 0) == (y < 0)) { q.checked_add(1) } else { Some(q) }
}

pub fn broadcast(x: i64, y: i64) -> Result<i64, Fail> {
    if x < 0 || y < 0 {
        return Err(Fail::Broadcast);
    }
    if x == y {
        Ok(x)
    } else if x == 1 {
        Ok(y)
    } else if y == 1 {
        Ok(x)
    } else {
        Err(Fail::Broadcast)
    }
}

/// Value of one node given the values of its operands.
pub fn apply(e: &SymExpr, x: i64, y: i64, mode: Mode) -> Result<i64, Fail> {
    match e {
        SymExpr::Value(_) | SymExpr::Var(_) => unreachable!(),
        SymExpr::Neg(_) => fit(x.checked_neg(), mode),
        SymExpr::Add(..) => fit(x.checked_add(y), mode),
        SymExpr::Sub(..) => fit(x.checked_sub(y), mode),
        SymExpr::Mul(..) => fit(x.checked_mul(y), mode),
        SymExpr::Div(..) => {
            if y == 0 {
                Err(Fail::DivZero)
            } else {
                fit(x.checked_div(y), mode)
            }
        }
        SymExpr::DivCeil(..) => {
            if y == 0 {
                Err(Fail::DivZero)
            } else {
                fit(ceil_div(x, y), mode)
            }
        }
        SymExpr::Max(..) => Ok(x.max(y)),
        SymExpr::Min(..) => Ok(x.min(y)),
        SymExpr::Broadcast(..) => broadcast(x, y),
    }
}

pub fn children(e: &SymExpr) -> (Option<&SymExpr>, Option<&SymExpr>) {
    match e {
        SymExpr::Value(_) | SymExpr::Var(_) => (None, None),
        SymExpr::Neg(x) => (Some(x), None),
        SymExpr::Add(l, r)
        | SymExpr::Sub(l, r)
        | SymExpr::Mul(l, r)
        | SymExpr::Div(l, r)
        | SymExpr::DivCeil(l, r)
        | SymExpr::Max(l, r)
        | SymExpr::Min(l, r)
        | SymExpr::Broadcast(l, r) => (Some(l), Some(r)),
    }
}

pub fn op_name(e: &SymExpr) -> &'static str {
    match e {
        SymExpr::Value(_) => "Value",
        SymExpr::Var(_) => "Var",
        SymExpr::Neg(_) => "Neg",
        SymExpr::Add(..) => "Add",
        SymExpr::Sub(..) => "Sub",
        SymExpr::Mul(..) => "Mul",
        SymExpr::Div(..) => "Div",
        SymExpr::DivCeil(..) => "DivCeil",
        SymExpr::Max(..) => "Max",
        SymExpr::Min(..) => "Min",
        SymExpr::Broadcast(..) => "Broadcast",
    }
}

/// Evaluate `e` with symbol values from `env`. All failing sub-expressions
/// fail the whole expression (there is no short-circuiting), the first failure
/// in post-order (left before right) is reported.
pub fn eval<F: Fn(&str) -> Option<i64>>(e: &SymExpr, env: &F, mode: Mode) -> Result<i64, Fail> {
    match e {
        SymExpr::Value(v) => Ok(*v as i64),
        SymExpr::Var(s) => fit(Some(env(&s.name).ok_or(Fail::Missing)?), mode),
        _ => {
            let (l, r) = children(e);
            let x = eval(l.unwrap(), env, mode)?;
            let y = match r {
                Some(r) => eval(r, env, mode)?,
                None => 0,
            };
            apply(e, x, y, mode)
        }
    }
}

// ---------------------------------------------------------------------------
// S-expression form used in replay artefacts: (Add 3 (Neg a)) ; leaves are
// integers, `a`/`b` style names for non-negative symbols and names with a
// trailing `?` for unconstrained symbols (e.g. `x?`).

pub fn to_sexpr(e: &SymExpr) -> String {
    match e {
        SymExpr::Value(v) => v.to_string(),
        SymExpr::Var(s) => {
            if s.positive {
                s.name.clone()
            } else {
                format!("{}?", s.name)
            }
        }
        _ => {
            let (l, r) = children(e);
            match r {
                Some(r) => format!("({} {} {})", op_name(e), to_sexpr(l.unwrap()), to_sexpr(r)),
                None => format!("({} {})", op_name(e), to_sexpr(l.unwrap())),
            }
        }
    }
}

pub fn from_sexpr(s: &str) -> Result<SymExpr, String> {
    let toks: Vec<String> = s
        .replace('(', " ( ")
        .replace(')', " ) ")
        .split_whitespace()
        .map(|t| t.to_string())
        .collect();
    let mut pos = 0;
    let e = parse_sexpr(&toks, &mut pos)?;
    if pos != toks.len() {
        return Err("trailing tokens".into());
    }
    Ok(e)
}

fn parse_sexpr(t: &[String], pos: &mut usize) -> Result<SymExpr, String> {
    let tok = t.get(*pos).ok_or("unexpected end")?.clone();
    *pos += 1;
    if tok == "(" {
        let op = t.get(*pos).ok_or("missing op")?.clone();
        *pos += 1;
        let l = parse_sexpr(t, pos)?;
        let e = if op == "Neg" {
            SymExpr::Neg(l.into())
        } else {
            let r = parse_sexpr(t, pos)?;
            let (l, r) = (l.into(), r.into());
            match op.as_str() {
                "Add" => SymExpr::Add(l, r),
                "Sub" => SymExpr::Sub(l, r),
                "Mul" => SymExpr::Mul(l, r),
                "Div" => SymExpr::Div(l, r),
                "DivCeil" => SymExpr::DivCeil(l, r),
                "Max" => SymExpr::Max(l, r),
                "Min" => SymExpr::Min(l, r),
                "Broadcast" => SymExpr::Broadcast(l, r),
                o => return Err(format!("unknown op {o}")),
            }
        };
        if t.get(*pos).map(|s| s.as_str()) != Some(")") {
            return Err("expected )".into());
        }
        *pos += 1;
        Ok(e)
    } else if tok == ")" {
        Err("unexpected )".into())
    } else if let Ok(v) = tok.parse::<i32>() {
        Ok(SymExpr::Value(v))
    } else if let Some(name) = tok.strip_suffix('?') {
        Ok(SymExpr::var(name))
    } else {
        Ok(SymExpr::pos_var(&tok))
    }
}

// ---------------------------------------------------------------------------
// Parser for the `Display` form of SymExpr, which is what graph-level shape
// inference hands out (`Dimension::Symbolic(expr.to_string())`).
//
// Grammar as printed by rten (precedence: Sub/Neg 0 < Add 1 < Mul 2 < Div 3 <
// atoms/functions 4; a child is parenthesised iff its precedence is lower than
// the parent's, so operators of equal precedence nest without parentheses on
// either side). Printing is therefore ambiguous for right-nested equal-
// precedence children: `a - (b - c)` prints as `a - b - c`, `a / (b / c)` as
// `a / b / c`. The parser returns `None` for every string that has more than
// one reading with different structure (see `parse_display`).

#[derive(Clone, Debug, PartialEq)]
enum Tok {
    Num(i64),
    Name(String),
    LParen,
    RParen,
    Comma,
    Plus,
    Minus,
    /// `-` directly followed by an operand (no space): negation
    NegSign,
    Star,
    Slash,
}

fn lex_display(s: &str) -> Option<Vec<Tok>> {
    let b: Vec<char> = s.chars().collect();
    let mut i = 0;
    let mut out = Vec::new();
    while i < b.len() {
        let c = b[i];
        match c {
            ' ' => i += 1,
            '(' => {
                out.push(Tok::LParen);
                i += 1
            }
            ')' => {
                out.push(Tok::RParen);
                i += 1
            }
            ',' => {
                out.push(Tok::Comma);
                i += 1
            }
            '+' => {
                out.push(Tok::Plus);
                i += 1
            }
            '*' => {
                out.push(Tok::Star);
                i += 1
            }
            '/' => {
                out.push(Tok::Slash);
                i += 1
            }
            '-' => {
                // Binary minus is printed as " - " (spaces on both sides);
                // negation and negative literals have no following space.
                let next_space = b.get(i + 1).map(|c| *c == ' ').unwrap_or(true);
                if next_space {
                    out.push(Tok::Minus);
                    i += 1;
                } else if b.get(i + 1).map(|c| c.is_ascii_digit()).unwrap_or(false) {
                    // Negative literal `-3` or negation of a literal `-(3)`:
                    // both denote the same value unless the literal is 2^31.
                    let mut j = i + 1;
                    while j < b.len() && b[j].is_ascii_digit() {
                        j += 1;
                    }
                    let txt: String = b[i..j].iter().collect();
                    out.push(Tok::Num(txt.parse().ok()?));
                    i = j;
                } else {
                    out.push(Tok::NegSign);
                    i += 1;
                }
            }
            c if c.is_ascii_digit() => {
                let mut j = i;
                while j < b.len() && b[j].is_ascii_digit() {
                    j += 1;
                }
                let txt: String = b[i..j].iter().collect();
                out.push(Tok::Num(txt.parse().ok()?));
                i = j;
            }
            c if c.is_alphanumeric() || c == '_' => {
                let mut j = i;
                while j < b.len() && (b[j].is_alphanumeric() || b[j] == '_' || b[j] == '.') {
                    j += 1;
                }
                out.push(Tok::Name(b[i..j].iter().collect()));
                i = j;
            }
            _ => return None,
        }
    }
    Some(out)
}

/// Expression tree parsed from the display form. Symbol positivity is not
/// printed; it is irrelevant for evaluation.
#[derive(Clone, Debug, PartialEq)]
pub enum PExpr {
    Num(i64),
    Var(String),
    Neg(Box<PExpr>),
    Bin(&'static str, Box<PExpr>, Box<PExpr>),
}

struct P<'a> {
    t: &'a [Tok],
    i: usize,
    /// set when a construct with more than one structural reading was met
    ambiguous: bool,
}

impl<'a> P<'a> {
    fn peek(&self) -> Option<&Tok> {
        self.t.get(self.i)
    }
    fn eat(&mut self, tok: &Tok) -> bool {
        if self.peek() == Some(tok) {
            self.i += 1;
            true
        } else {
            false
        }
    }
    // level 0: Sub chain of level-0.. operands. `x - y` where the printer put
    // no parentheses around a Sub/Neg child on the right. Left-assoc reading is
    // taken; a chain of two or more `-`/mixed with `+` on this level where the
    // right operand could itself have been a Sub is ambiguous.
    fn expr(&mut self) -> Option<PExpr> {
        // Parse a flat sequence of additive terms and record operators.
        let first = self.term()?;
        let mut ops: Vec<(char, PExpr)> = Vec::new();
        loop {
            if self.eat(&Tok::Plus) {
                ops.push(('+', self.term()?));
            } else if self.eat(&Tok::Minus) {
                ops.push(('-', self.term()?));
            } else {
                break;
            }
        }
        // Readings: printer output for Add(l, r) parenthesises children of
        // lower precedence (Sub, Neg) and prints Add/… children bare. For
        // Sub(l, r) no child is ever parenthesised (precedence 0 is minimal).
        // Addition is associative, so only what follows a `-` matters:
        // `p - q + r` may be Sub(p, Add(q, r)) or Add(Sub(p,q), r)?? The
        // latter would have been printed `(p - q) + r`. So after a `-`, all
        // remaining `+`/`-` terms belong to the right operand or to an outer
        // Sub: `p - q - r` = Sub(Sub(p,q),r) or Sub(p,Sub(q,r)): ambiguous.
        // `p - q + r` = Sub(p, Add(q, r)) only. `p + q - r` = Sub(Add(p,q), r)
        // only (Add(p, Sub(q,r)) prints with parentheses).
        let minus_positions: Vec<usize> =
            ops.iter().enumerate().filter(|(_, (c, _))| *c == '-').map(|(i, _)| i).collect();
        match minus_positions.len() {
            0 => {
                let mut acc = first;
                for (_, t) in ops {
                    acc = PExpr::Bin("Add", Box::new(acc), Box::new(t));
                }
                Some(acc)
            }
            1 => {
                let m = minus_positions[0];
                let mut lhs = first;
                let mut it = ops.into_iter();
                for _ in 0..m {
                    let (_, t) = it.next().unwrap();
                    lhs = PExpr::Bin("Add", Box::new(lhs), Box::new(t));
                }
                let (_, mut rhs) = it.next().unwrap();
                for (_, t) in it {
                    rhs = PExpr::Bin("Add", Box::new(rhs), Box::new(t));
                }
                Some(PExpr::Bin("Sub", Box::new(lhs), Box::new(rhs)))
            }
            _ => {
                self.ambiguous = true;
                None
            }
        }
    }
    // level 2: Mul chain (associative, any nesting has the same value)
    fn term(&mut self) -> Option<PExpr> {
        let mut acc = self.factor()?;
        while self.eat(&Tok::Star) {
            let r = self.factor()?;
            acc = PExpr::Bin("Mul", Box::new(acc), Box::new(r));
        }
        Some(acc)
    }
    // level 3: Div chain. `p / q / r` is Div(Div(p,q),r) or Div(p,Div(q,r)).
    fn factor(&mut self) -> Option<PExpr> {
        let first = self.atom()?;
        let mut rest = Vec::new();
        while self.eat(&Tok::Slash) {
            rest.push(self.atom()?);
        }
        match rest.len() {
            0 => Some(first),
            1 => Some(PExpr::Bin("Div", Box::new(first), Box::new(rest.pop().unwrap()))),
            _ => {
                self.ambiguous = true;
                None
            }
        }
    }
    fn atom(&mut self) -> Option<PExpr> {
        match self.peek()?.clone() {
            Tok::Num(n) => {
                self.i += 1;
                Some(PExpr::Num(n))
            }
            Tok::NegSign => {
                // `-E` where E is printed with the parenthesisation rule of a
                // precedence-0 parent: never parenthesised. `-a + b` could be
                // Neg(Add(a,b)) or (as a child of Add, parenthesised) ... the
                // bare form at this position is ambiguous unless E is an atom
                // that ends the expression level; be conservative: accept only
                // when the operand is an atom and the next token closes the
                // current level or continues with an operator of *lower or
                // equal* binding that the printer would also have produced
                // for Neg(atom) as a left operand: a Neg child is
                // parenthesised inside Add/Mul/Div parents, never inside Sub.
                self.i += 1;
                let inner = self.atom()?;
                match self.peek() {
                    None | Some(Tok::RParen) | Some(Tok::Comma) => {}
                    // `-a - b` = Sub(Neg(a), b) or Neg(Sub(a, b)); `-a + b`
                    // = Neg(Add(a,b)) only, but keep it simple.
                    _ => {
                        self.ambiguous = true;
                        return None;
                    }
                }
                Some(PExpr::Neg(Box::new(inner)))
            }
            Tok::LParen => {
                self.i += 1;
                let e = self.expr()?;
                if !self.eat(&Tok::RParen) {
                    return None;
                }
                Some(e)
            }
            Tok::Name(n) => {
                self.i += 1;
                let func = match n.as_str() {
                    "ceil_div" => Some("DivCeil"),
                    "max" => Some("Max"),
                    "min" => Some("Min"),
                    "broadcast" => Some("Broadcast"),
                    _ => None,
                };
                if let (Some(f), Some(Tok::LParen)) = (func, self.peek()) {
                    self.i += 1;
                    let l = self.expr()?;
                    if !self.eat(&Tok::Comma) {
                        return None;
                    }
                    let r = self.expr()?;
                    if !self.eat(&Tok::RParen) {
                        return None;
                    }
                    Some(PExpr::Bin(f, Box::new(l), Box::new(r)))
                } else {
                    Some(PExpr::Var(n))
                }
            }
            _ => None,
        }
    }
}

/// Parse the display form. `Ok(None)`: the string is a well-formed printout
/// with more than one structural reading (not evaluated by the caller).
/// `Err`: not a printout of a SymExpr at all (machinery problem).
pub fn parse_display(s: &str) -> Result<Option<PExpr>, String> {
    let toks = lex_display(s).ok_or_else(|| format!("cannot tokenise {s:?}"))?;
    let mut p = P { t: &toks, i: 0, ambiguous: false };
    let e = p.expr();
    if p.ambiguous {
        return Ok(None);
    }
    match e {
        Some(e) if p.i == toks.len() => Ok(Some(e)),
        _ => Err(format!("cannot parse {s:?}")),
    }
}

pub fn eval_pexpr<F: Fn(&str) -> Option<i64>>(e: &PExpr, env: &F) -> Result<i64, Fail> {
    let fit = |v: Option<i64>| v.ok_or(Fail::Overflow);
    match e {
        PExpr::Num(n) => Ok(*n),
        PExpr::Var(n) => env(n).ok_or(Fail::Missing),
        PExpr::Neg(x) => fit(eval_pexpr(x, env)?.checked_neg()),
        PExpr::Bin(op, l, r) => {
            let x = eval_pexpr(l, env)?;
            let y = eval_pexpr(r, env)?;
            match *op {
                "Add" => fit(x.checked_add(y)),
                "Sub" => fit(x.checked_sub(y)),
                "Mul" => fit(x.checked_mul(y)),
                "Div" => {
                    if y == 0 {
                        Err(Fail::DivZero)
                    } else {
                        fit(x.checked_div(y))
                    }
                }
                "DivCeil" => {
                    if y == 0 {
                        Err(Fail::DivZero)
                    } else {
                        fit(ceil_div(x, y))
                    }
                }
                "Max" => Ok(x.max(y)),
                "Min" => Ok(x.min(y)),
                "Broadcast" => broadcast(x, y),
                _ => unreachable!(),
            }
        }
    }
}

pub fn pexpr_vars(e: &PExpr, out: &mut Vec<String>) {
    match e {
        PExpr::Num(_) => {}
        PExpr::Var(n) => {
            if !out.contains(n) {
                out.push(n.clone())
            }
        }
        PExpr::Neg(x) => pexpr_vars(x, out),
        PExpr::Bin(_, l, r) => {
            pexpr_vars(l, out);
            pexpr_vars(r, out);
        }
    }
}
