//! Reference semantics of symbolic integer expressions, written independently
//! of `SymExpr::eval`: mathematical integers in `i64` with explicit failure
//! modes. `SymExpr` is used only as a *data structure* (public enum).
//!
//! * `Strict` mode defines "evaluates without division by zero or overflow":
//!   every node value (leaves included) must be representable as `i32`, no
//!   divisor is zero and every `Broadcast` node satisfies the broadcasting
//!   precondition (operands >= 0, equal or one of them 1).
//! * `Wide` mode evaluates in checked `i64` without the `i32` restriction; it is
//!   used for the *simplified* expression so that a simplification is not
//!   blamed for an intermediate that merely leaves the `i32` range while the
//!   mathematical value is right.
//!
//! Division: `Div` truncates toward zero (this is what ONNX integer `Div`,
//! rten's `Div` operator and `SymExpr::eval` do; for the non-negative operands
//! shape arithmetic uses it coincides with flooring). `DivCeil` rounds toward
//! +infinity. `Broadcast(x, y)` is ONNX multidirectional broadcasting of two
//! dimension sizes: `x` if `x == y`, otherwise the operand that is not 1.

use rten_shape_inference::SymExpr;

#[derive(Clone, Copy, Debug, PartialEq, Eq)]
pub enum Fail {
    DivZero,
    /// a node value left the i32 range (strict) or the i64 range (wide)
    Overflow,
    /// Broadcast precondition violated
    Broadcast,
    /// symbol without a value
    Missing,
}

#[derive(Clone, Copy, PartialEq, Eq)]
pub enum Mode {
    Strict,
    Wide,
}

fn fit(v: Option<i64>, mode: Mode) -> Result<i64, Fail> {
    match v {
        None => Err(Fail::Overflow),
        Some(v) => {
            if mode == Mode::Strict && (v < i32::MIN as i64 || v > i32::MAX as i64) {
                Err(Fail::Overflow)
            } else {
                Ok(v)
            }
        }
    }
}

pub fn ceil_div(x: i64, y: i64) -> Option<i64> {
    let q = x.checked_div(y)?;
    let r = x.checked_rem(y)?;
    // The exact quotient is positive and not an integer iff the remainder is
    // non-zero and has the sign of the divisor; truncation then rounded down.
    if r != 0 && ((r < 0) == (y < 0)) { q.checked_add(1) } else { Some(q) }
}

pub fn broadcast(x: i64, y: i64) -> Result<i64, Fail> {
    if x < 0 || y < 0 {
        return Err(Fail::Broadcast);
    }
    if x == y {
        Ok(x)
    } else if x == 1 {
        Ok(y)
    } else if y == 1 {
        Ok(x)
    } else {
        Err(Fail::Broadcast)
    }
}

/// Value of one node given the values of its operands.
pub fn apply(e: &SymExpr, x: i64, y: i64, mode: Mode) -> Result<i64, Fail> {
    match e {
        SymExpr::Value(_) | SymExpr::Var(_) => unreachable!(),
        SymExpr::Neg(_) => fit(x.checked_neg(), mode),
        SymExpr::Add(..) => fit(x.checked_add(y), mode),
        SymExpr::Sub(..) => fit(x.checked_sub(y), mode),
        SymExpr::Mul(..) => fit(x.checked_mul(y), mode),
        SymExpr::Div(..) => {
            if y == 0 {
                Err(Fail::DivZero)
            } else {
                fit(x.checked_div(y), mode)
            }
        }
        SymExpr::DivCeil(..) => {
            if y == 0 {
                Err(Fail::DivZero)
            } else {
                fit(ceil_div(x, y), mode)
            }
        }
        SymExpr::Max(..) => Ok(x.max(y)),
        SymExpr::Min(..) => Ok(x.min(y)),
        SymExpr::Broadcast(..) => broadcast(x, y),
    }
}

pub fn children(e: &SymExpr) -> (Option<&SymExpr>, Option<&SymExpr>) {
    match e {
        SymExpr::Value(_) | SymExpr::Var(_) => (None, None),
        SymExpr::Neg(x) => (Some(x), None),
        SymExpr::Add(l, r)
        | SymExpr::Sub(l, r)
        | SymExpr::Mul(l, r)
        | SymExpr::Div(l, r)
        | SymExpr::DivCeil(l, r)
        | SymExpr::Max(l, r)
        | SymExpr::Min(l, r)
        | SymExpr::Broadcast(l, r) => (Some(l), Some(r)),
    }
}

pub fn op_name(e: &SymExpr) -> &'static str {
    match e {
        SymExpr::Value(_) => "Value",
        SymExpr::Var(_) => "Var",
        SymExpr::Neg(_) => "Neg",
        SymExpr::Add(..) => "Add",
        SymExpr::Sub(..) => "Sub",
        SymExpr::Mul(..) => "Mul",
        SymExpr::Div(..) => "Div",
        SymExpr::DivCeil(..) => "DivCeil",
        SymExpr::Max(..) => "Max",
        SymExpr::Min(..) => "Min",
        SymExpr::Broadcast(..) => "Broadcast",
    }
}

/// Evaluate `e` with symbol values from `env`. All failing sub-expressions
/// fail the whole expression (there is no short-circuiting), the first failure
/// in post-order (left before right) is reported.
pub fn eval<F: Fn(&str) -> Option<i64>>(e: &SymExpr, env: &F, mode: Mode) -> Result<i64, Fail> {
    match e {
        SymExpr::Value(v) => Ok(*v as i64),
        SymExpr::Var(s) => fit(Some(env(&s.name).ok_or(Fail::Missing)?), mode),
        _ => {
            let (l, r) = children(e);
            let x = eval(l.unwrap(), env, mode)?;
            let y = match r {
                Some(r) => eval(r, env, mode)?,
                None => 0,
            };
            apply(e, x, y, mode)
        }
    }
}

// ---------------------------------------------------------------------------
// S-expression form used in replay artefacts: (Add 3 (Neg a)) ; leaves are
// integers, `a`/`b` style names for non-negative symbols and names with a
// trailing `?` for unconstrained symbols (e.g. `x?`).

pub fn to_sexpr(e: &SymExpr) -> String {
    match e {
        SymExpr::Value(v) => v.to_string(),
        SymExpr::Var(s) => {
            if s.positive {
                s.name.clone()
            } else {
                format!("{}?", s.name)
            }
        }
        _ => {
            let (l, r) = children(e);
            match r {
                Some(r) => format!("({} {} {})", op_name(e), to_sexpr(l.unwrap()), to_sexpr(r)),
                None => format!("({} {})", op_name(e), to_sexpr(l.unwrap())),
            }
        }
    }
}

pub fn from_sexpr(s: &str) -> Result<SymExpr, String> {
    let toks: Vec<String> = s
        .replace('(', " ( ")
        .replace(')', " ) ")
        .split_whitespace()
        .map(|t| t.to_string())
        .collect();
    let mut pos = 0;
    let e = parse_sexpr(&toks, &mut pos)?;
    if pos != toks.len() {
        return Err("trailing tokens".into());
    }
    Ok(e)
}

fn parse_sexpr(t: &[String], pos: &mut usize) -> Result<SymExpr, String> {
    let tok = t.get(*pos).ok_or("unexpected end")?.clone();
    *pos += 1;
    if tok == "(" {
        let op = t.get(*pos).ok_or("missing op")?.clone();
        *pos += 1;
        let l = parse_sexpr(t, pos)?;
        let e = if op == "Neg" {
            SymExpr::Neg(l.into())
        } else {
            let r = parse_sexpr(t, pos)?;
            let (l, r) = (l.into(), r.into());
            match op.as_str() {
                "Add" => SymExpr::Add(l, r),
                "Sub" => SymExpr::Sub(l, r),
                "Mul" => SymExpr::Mul(l, r),
                "Div" => SymExpr::Div(l, r),
                "DivCeil" => SymExpr::DivCeil(l, r),
                "Max" => SymExpr::Max(l, r),
                "Min" => SymExpr::Min(l, r),
                "Broadcast" => SymExpr::Broadcast(l, r),
                o => return Err(format!("unknown op {o}")),
            }
        };
        if t.get(*pos).map(|s| s.as_str()) != Some(")") {
            return Err("expected )".into());
        }
        *pos += 1;
        Ok(e)
    } else if tok == ")" {
        Err("unexpected )".into())
    } else if let Ok(v) = tok.parse::<i32>() {
        Ok(SymExpr::Value(v))
    } else if let Some(name) = tok.strip_suffix('?') {
        Ok(SymExpr::var(name))
    } else {
        Ok(SymExpr::pos_var(&tok))
    }
}

// ---------------------------------------------------------------------------
// Reader for the `Display` form of SymExpr, which is what graph-level shape
// inference hands out (`Dimension::Symbolic(expr.to_string())`).
//
// rten prints with a precedence table (Sub = Neg = 0 < Add = 1 < Mul = 2 <
// Div = DivCeil = 3 < Value/Var/Max/Min/Broadcast = 4); an operand of a binary
// operator is parenthesised iff its precedence is lower than the operator's,
// `Neg` prints `-` directly followed by its operand without parentheses, and
// ceil_div/max/min/broadcast print as function calls. That printout is not
// injective (`-1 + a` is Add(-1, a) and Neg(Add(1, a)); `a - b - c`, `a / b / c`
// have two bracketings). The reader therefore returns ALL expression trees whose
// printout is exactly the given string (chart parser over token spans that
// mirrors the printing rules). A claim is judged only against the whole set of
// readings; `selftest_display_reader` checks on real SymExpr printouts that the
// true tree is always among the readings.

#[derive(Clone, Debug, PartialEq)]
enum Tok {
    Num(i64),
    Name(String),
    LParen,
    RParen,
    Comma,
    Plus,
    /// ` - ` (binary minus, printed with spaces)
    Minus,
    /// `-` directly followed by an operand
    NegSign,
    Star,
    Slash,
}

fn lex_display(s: &str) -> Option<Vec<Tok>> {
    let b: Vec<char> = s.chars().collect();
    let mut i = 0;
    let mut out = Vec::new();
    while i < b.len() {
        let c = b[i];
        match c {
            ' ' => i += 1,
            '(' => {
                out.push(Tok::LParen);
                i += 1
            }
            ')' => {
                out.push(Tok::RParen);
                i += 1
            }
            ',' => {
                out.push(Tok::Comma);
                i += 1
            }
            '+' => {
                out.push(Tok::Plus);
                i += 1
            }
            '*' => {
                out.push(Tok::Star);
                i += 1
            }
            '/' => {
                out.push(Tok::Slash);
                i += 1
            }
            '-' => {
                let next_space = b.get(i + 1).map(|c| *c == ' ').unwrap_or(true);
                out.push(if next_space { Tok::Minus } else { Tok::NegSign });
                i += 1;
            }
            c if c.is_ascii_digit() => {
                let mut j = i;
                while j < b.len() && b[j].is_ascii_digit() {
                    j += 1;
                }
                let txt: String = b[i..j].iter().collect();
                out.push(Tok::Num(txt.parse().ok()?));
                i = j;
            }
            c if c.is_alphanumeric() || c == '_' => {
                let mut j = i;
                while j < b.len() && (b[j].is_alphanumeric() || b[j] == '_' || b[j] == '.') {
                    j += 1;
                }
                out.push(Tok::Name(b[i..j].iter().collect()));
                i = j;
            }
            _ => return None,
        }
    }
    Some(out)
}

/// Expression tree read from the display form. Symbol positivity is not
/// printed; it is irrelevant for evaluation.
#[derive(Clone, Debug, PartialEq)]
pub enum PExpr {
    Num(i64),
    Var(String),
    Neg(Box<PExpr>),
    Bin(&'static str, Box<PExpr>, Box<PExpr>),
}

fn pprec(e: &PExpr) -> u8 {
    match e {
        PExpr::Num(_) | PExpr::Var(_) => 4,
        PExpr::Neg(_) => 0,
        PExpr::Bin(op, ..) => match *op {
            "Sub" => 0,
            "Add" => 1,
            "Mul" => 2,
            "Div" | "DivCeil" => 3,
            _ => 4,
        },
    }
}

/// Maximum number of readings kept per token span; more => "too ambiguous".
const MAX_READINGS: usize = 64;

struct Chart<'a> {
    t: &'a [Tok],
    /// index of the matching parenthesis for each LParen/RParen
    mate: Vec<usize>,
    depth: Vec<usize>,
    memo: std::collections::HashMap<(usize, usize), Option<Vec<PExpr>>>,
}

impl<'a> Chart<'a> {
    /// All trees whose bare printout is exactly tokens[i..j). None = overflow.
    fn parses(&mut self, i: usize, j: usize) -> Option<Vec<PExpr>> {
        if let Some(r) = self.memo.get(&(i, j)) {
            return r.clone();
        }
        let r = self.parses_uncached(i, j);
        self.memo.insert((i, j), r.clone());
        r
    }

    fn push(out: &mut Vec<PExpr>, e: PExpr) -> Option<()> {
        if !out.contains(&e) {
            if out.len() >= MAX_READINGS {
                return None;
            }
            out.push(e);
        }
        Some(())
    }

    fn parses_uncached(&mut self, i: usize, j: usize) -> Option<Vec<PExpr>> {
        let mut out: Vec<PExpr> = Vec::new();
        if i >= j {
            return Some(out);
        }
        let t = self.t;
        // atoms
        if j - i == 1 {
            match &t[i] {
                Tok::Num(n) => out.push(PExpr::Num(*n)),
                Tok::Name(n) => out.push(PExpr::Var(n.clone())),
                _ => {}
            }
            return Some(out);
        }
        if t[i] == Tok::NegSign {
            // negative literal
            if j - i == 2 {
                if let Tok::Num(n) = &t[i + 1] {
                    Self::push(&mut out, PExpr::Num(-*n))?;
                }
            }
            // negation of everything that follows (never parenthesised)
            for e in self.parses(i + 1, j)? {
                Self::push(&mut out, PExpr::Neg(Box::new(e)))?;
            }
        }
        // function call spanning the whole range
        if let Tok::Name(f) = &t[i] {
            let func = match f.as_str() {
                "ceil_div" => Some("DivCeil"),
                "max" => Some("Max"),
                "min" => Some("Min"),
                "broadcast" => Some("Broadcast"),
                _ => None,
            };
            if let Some(func) = func {
                if t[i + 1] == Tok::LParen && self.mate[i + 1] == j - 1 {
                    let d = self.depth[i + 1] + 1;
                    for k in (i + 2)..(j - 1) {
                        if t[k] == Tok::Comma && self.depth[k] == d {
                            let ls = self.parses(i + 2, k)?;
                            let rs = self.parses(k + 1, j - 1)?;
                            for l in &ls {
                                for r in &rs {
                                    Self::push(&mut out, PExpr::Bin(func, Box::new(l.clone()), Box::new(r.clone())))?;
                                }
                            }
                        }
                    }
                }
            }
        }
        // binary operators at the nesting depth of the span
        let d0 = self.depth[i];
        for k in (i + 1)..(j - 1) {
            if self.depth[k] != d0 {
                continue;
            }
            let (op, p) = match t[k] {
                Tok::Plus => ("Add", 1u8),
                Tok::Minus => ("Sub", 0),
                Tok::Star => ("Mul", 2),
                Tok::Slash => ("Div", 3),
                _ => continue,
            };
            let ls = self.operand(i, k, p)?;
            if ls.is_empty() {
                continue;
            }
            let rs = self.operand(k + 1, j, p)?;
            for l in &ls {
                for r in &rs {
                    Self::push(&mut out, PExpr::Bin(op, Box::new(l.clone()), Box::new(r.clone())))?;
                }
            }
        }
        Some(out)
    }

    /// Trees that can stand as an operand of an operator of precedence `p` with
    /// printed text tokens[i..j): bare if their precedence is >= p,
    /// parenthesised if it is lower.
    fn operand(&mut self, i: usize, j: usize, p: u8) -> Option<Vec<PExpr>> {
        let mut out: Vec<PExpr> = self.parses(i, j)?.into_iter().filter(|e| pprec(e) >= p).collect();
        if j - i >= 3 && self.t[i] == Tok::LParen && self.mate[i] == j - 1 {
            for e in self.parses(i + 1, j - 1)? {
                if pprec(&e) < p && !out.contains(&e) {
                    out.push(e);
                }
            }
        }
        Some(out)
    }
}

/// All readings of a printed SymExpr. `Ok(None)`: more than MAX_READINGS.
/// `Err`: the string is not a printout of any SymExpr (machinery problem).
pub fn parse_display(s: &str) -> Result<Option<Vec<PExpr>>, String> {
    let toks = lex_display(s).ok_or_else(|| format!("cannot tokenise {s:?}"))?;
    let n = toks.len();
    let mut mate = vec![usize::MAX; n];
    let mut depth = vec![0usize; n];
    let mut stack = Vec::new();
    for (i, t) in toks.iter().enumerate() {
        match t {
            Tok::LParen => {
                depth[i] = stack.len();
                stack.push(i);
            }
            Tok::RParen => {
                let o = stack.pop().ok_or_else(|| format!("unbalanced parentheses in {s:?}"))?;
                mate[o] = i;
                mate[i] = o;
                depth[i] = stack.len();
            }
            _ => depth[i] = stack.len(),
        }
    }
    if !stack.is_empty() {
        return Err(format!("unbalanced parentheses in {s:?}"));
    }
    let mut chart = Chart { t: &toks, mate, depth, memo: Default::default() };
    match chart.parses(0, n) {
        None => Ok(None),
        Some(v) if v.is_empty() => Err(format!("no reading of {s:?}")),
        Some(v) => Ok(Some(v)),
    }
}

pub fn eval_pexpr<F: Fn(&str) -> Option<i64>>(e: &PExpr, env: &F) -> Result<i64, Fail> {
    let fit = |v: Option<i64>| v.ok_or(Fail::Overflow);
    match e {
        PExpr::Num(n) => Ok(*n),
        PExpr::Var(n) => env(n).ok_or(Fail::Missing),
        PExpr::Neg(x) => fit(eval_pexpr(x, env)?.checked_neg()),
        PExpr::Bin(op, l, r) => {
            let x = eval_pexpr(l, env)?;
            let y = eval_pexpr(r, env)?;
            match *op {
                "Add" => fit(x.checked_add(y)),
                "Sub" => fit(x.checked_sub(y)),
                "Mul" => fit(x.checked_mul(y)),
                "Div" => {
                    if y == 0 {
                        Err(Fail::DivZero)
                    } else {
                        fit(x.checked_div(y))
                    }
                }
                "DivCeil" => {
                    if y == 0 {
                        Err(Fail::DivZero)
                    } else {
                        fit(ceil_div(x, y))
                    }
                }
                "Max" => Ok(x.max(y)),
                "Min" => Ok(x.min(y)),
                "Broadcast" => broadcast(x, y),
                _ => unreachable!(),
            }
        }
    }
}

pub fn to_pexpr(e: &SymExpr) -> PExpr {
    match e {
        SymExpr::Value(v) => PExpr::Num(*v as i64),
        SymExpr::Var(s) => PExpr::Var(s.name.clone()),
        SymExpr::Neg(x) => PExpr::Neg(Box::new(to_pexpr(x))),
        _ => {
            let (l, r) = children(e);
            PExpr::Bin(op_name(e), Box::new(to_pexpr(l.unwrap())), Box::new(to_pexpr(r.unwrap())))
        }
    }
}

/// Structural equality up to the one identification the printer makes that
/// cannot matter: `Neg(Num(c))` and `Num(-c)` print identically and denote the
/// same value.
fn norm(e: &PExpr) -> PExpr {
    match e {
        PExpr::Neg(x) => match norm(x) {
            PExpr::Num(c) if c != i64::MIN => PExpr::Num(-c),
            x => PExpr::Neg(Box::new(x)),
        },
        PExpr::Bin(op, l, r) => PExpr::Bin(op, Box::new(norm(l)), Box::new(norm(r))),
        e => e.clone(),
    }
}

/// Machinery self-check: for real printouts, the true tree must be among the
/// readings. Returns (strings checked, strings with more than one reading).
pub fn selftest_display_reader(exprs: &[SymExpr]) -> Result<(u64, u64), String> {
    let mut ambiguous = 0;
    for e in exprs {
        let s = e.to_string();
        match parse_display(&s)? {
            None => ambiguous += 1,
            Some(rs) => {
                let want = norm(&to_pexpr(e));
                if !rs.iter().any(|r| norm(r) == want) {
                    return Err(format!("display reader misses the true tree of {s:?}: {:?} not in {:?}", want, rs));
                }
                if rs.len() > 1 {
                    ambiguous += 1;
                }
            }
        }
    }
    Ok((exprs.len() as u64, ambiguous))
}
