//! C06: safe tensor APIs never access memory out of bounds or alias mutably.
//!
//! Part 1 (constructor box): every (shape, strides, storage length) of the box
//! through every checked constructor; an *accepted* combination must be valid
//! in exact (u128) arithmetic: all offsets inside the storage and, for mutable
//! storage, index -> offset injective. Bogus accepted tensors are flagged
//! arithmetically and never dereferenced.
//! Part 2 (access): for every accepted (and valid) tensor every element is
//! reached through get / Index / iter / get_mut / iter_mut and each address
//! is compared with the allocation bounds; one-past indices must be refused.
//! Part 3 (iteration histories): the C07 history explorer restricted to the
//! mutable iterator kinds, with the address-uniqueness and bounds oracles.

use std::sync::atomic::{AtomicU64, Ordering};

use rten_tensor::layout::{MutLayout, OverlapPolicy};
use rten_tensor::prelude::*;
use rten_tensor::{DynLayout, NdLayout, NdTensor, NdTensorView, NdTensorViewMut, Tensor, TensorView, TensorViewMut};
use vp_core::odometer::Odometer;
use vp_core::{Ctx, Json, Samples, json};

use crate::c07;
use crate::c08::{aliases, max_offset_u128};
use crate::layouts::indices;

const SIZES: [usize; 8] = [0, 1, 2, 3, 1 << 31, 1 << 32, 1 << 63, usize::MAX];
const STRIDES: [usize; 9] = [0, 1, 2, 3, 4, 6, 1 << 32, 1 << 63, usize::MAX];

fn exact_count(shape: &[usize]) -> u128 {
    shape.iter().map(|&s| s as u128).product()
}

fn s(v: &[usize]) -> Vec<String> {
    v.iter().map(|x| x.to_string()).collect()
}

fn class_of(shape: &[usize], strides: &[usize]) -> &'static str {
    if shape.iter().chain(strides).any(|&x| x >= 1 << 31) { "huge" } else { "small" }
}

struct Cnt {
    evals: AtomicU64,
    accepted: AtomicU64,
    accessed: AtomicU64,
}

/// Is a contiguous tensor of `shape` over `storage` elements valid?
fn valid_contig(shape: &[usize], storage: usize) -> bool {
    exact_count(shape) == storage as u128
}

/// Is a strided layout valid for `storage` elements (and injective if `mutable`)?
fn valid_strided(shape: &[usize], strides: &[usize], storage: usize, mutable: bool) -> bool {
    let fits = match max_offset_u128(shape, strides) {
        None => true,
        Some(m) => m < storage as u128,
    };
    // aliases() enumerates indices: only do so when the index space is small
    fits && (!mutable || exact_count(shape) > 4096 || !aliases(shape, strides))
}

fn flag(ctx: &Ctx, ctor: &str, shape: &[usize], strides: Option<&[usize]>, storage: usize, why: &str) {
    let cls = class_of(shape, strides.unwrap_or(&[]));
    ctx.violation(
        format!("{ctor} accepts invalid shape/strides/storage: {why} [{cls} values]"),
        json!({"ctor": ctor, "shape": s(shape), "strides": strides.map(s), "storage": storage}),
        format!("{ctor}(shape {shape:?}, strides {strides:?}, storage len {storage}) returned a tensor: {why}"),
    );
}

/// Access every element of a valid dyn view and compare addresses with the allocation.
fn access_view(ctx: &Ctx, what: &str, v: &TensorView<i32>, base: *const i32, storage: usize, cnt: &Cnt) {
    let shape: Vec<usize> = v.shape().to_vec();
    if exact_count(&shape) > 4096 {
        return;
    }
    cnt.accessed.fetch_add(1, Ordering::Relaxed);
    let inb = |p: *const i32| {
        let off = (p as isize - base as isize) / 4;
        off >= 0 && (off as usize) < storage
    };
    let case = || json!({"via": what, "shape": s(&shape), "strides": s(v.strides().as_ref()), "storage": storage});
    for idx in indices(&shape) {
        match v.get(idx.as_slice()) {
            Some(r) if inb(r) => {}
            Some(_) => ctx.violation(format!("{what}: get() returns out-of-bounds reference"), case(), format!("index {idx:?}")),
            None => ctx.violation(format!("{what}: get() refuses an in-range index"), case(), format!("index {idx:?}")),
        }
        // one past each bound must be refused
        for d in 0..shape.len() {
            let mut j = idx.clone();
            j[d] = shape[d];
            if let Some(r) = v.get(j.as_slice()) {
                if !inb(r) {
                    ctx.violation(format!("{what}: get() past the bound returns out-of-bounds reference"), case(), format!("index {j:?}"));
                } else {
                    ctx.violation(format!("{what}: get() accepts an index past the bound"), case(), format!("index {j:?}"));
                }
            }
        }
    }
    let mut n = 0u128;
    let r = vp_core::catch(|| {
        for r in v.iter() {
            n += 1;
            if !inb(r) {
                return false;
            }
        }
        true
    });
    match r {
        Ok(true) => {
            if n != exact_count(&shape) {
                ctx.violation(format!("{what}: iter() yields wrong number of elements"), case(), format!("{n} vs {}", exact_count(&shape)));
            }
        }
        Ok(false) => ctx.violation(format!("{what}: iter() yields out-of-bounds reference"), case(), String::new()),
        Err(p) => ctx.observe(&format!("{what}: iter panicked: {}", vp_core::truncate(&p, 50))),
    }
}

fn access_view_mut(ctx: &Ctx, what: &str, v: &mut TensorViewMut<i32>, base: *const i32, storage: usize) {
    let shape: Vec<usize> = v.shape().to_vec();
    if exact_count(&shape) > 4096 {
        return;
    }
    let case = json!({"via": what, "shape": s(&shape), "strides": s(v.strides().as_ref()), "storage": storage});
    let mut seen = std::collections::HashSet::new();
    for idx in indices(&shape) {
        if let Some(r) = v.get_mut(idx.as_slice()) {
            let off = (r as *mut i32 as isize - base as isize) / 4;
            if off < 0 || off as usize >= storage {
                ctx.violation(format!("{what}: get_mut() returns out-of-bounds reference"), case.clone(), format!("{idx:?}"));
            }
            if !seen.insert(off) {
                ctx.violation(format!("{what}: get_mut() maps two indices to one element"), case.clone(), format!("{idx:?}"));
            }
        }
    }
    if v.strides().as_ref().contains(&0) {
        return; // rten refuses mutable iteration here with a panic
    }
    let r = vp_core::catch(|| {
        let mut seen = std::collections::HashSet::new();
        for r in v.iter_mut() {
            let off = (r as *mut i32 as isize - base as isize) / 4;
            if off < 0 || off as usize >= storage || !seen.insert(off) {
                return false;
            }
        }
        true
    });
    if let Ok(false) = r {
        ctx.violation(format!("{what}: iter_mut() yields out-of-bounds or repeated element"), case, String::new());
    }
}

/// Static-rank (NdLayout) layout operations have their own implementations. Every
/// `permuted` / `permuted_mut` order over {0..=N}^N (repeated and out-of-range axes
/// included) and every `split_at_mut(axis, mid)` is applied to a contiguous
/// NdTensor; whatever is returned without a panic is accessed element by element
/// and its addresses are compared with the allocation (and, for mutable views, with
/// each other).
fn static_rank_ops<const N: usize>(ctx: &Ctx, shape: &[usize], cnt: &Cnt) {
    let n: usize = shape.iter().product();
    let mut t = NdTensor::<i32, N>::from_data(nd::<N>(shape), (0..n as i32).collect::<Vec<_>>());
    let base = t.data().map(|d| d.as_ptr()).unwrap_or(std::ptr::null());
    for order in Odometer::new(&vec![N + 1; N]) {
        let o: [usize; N] = nd::<N>(&order);
        cnt.evals.fetch_add(2, Ordering::Relaxed);
        if let Ok(v) = vp_core::catch(|| t.permuted(o)) {
            cnt.accepted.fetch_add(1, Ordering::Relaxed);
            access_view(ctx, "NdTensor::permuted", &v.as_dyn(), base, n, cnt);
        }
        let r = vp_core::catch(std::panic::AssertUnwindSafe(|| {
            let mut v = t.permuted_mut(o);
            access_view_mut(ctx, "NdTensor::permuted_mut", &mut v.as_dyn_mut(), base, n);
        }));
        if r.is_ok() {
            cnt.accepted.fetch_add(1, Ordering::Relaxed);
        }
    }
    // get_array / set_array (unchecked element access behind an index check): every base index
    // over 0..=size per axis (one past each bound included), every dim, M in {1, 2}; also on
    // the left half of split_at_mut, whose storage is shared with the right half
    for dim in 0..N {
        for base in Odometer::new(&shape.iter().map(|&d| d + 2).collect::<Vec<_>>()) {
            let b: [usize; N] = nd::<N>(&base);
            array_access::<N, 1>(ctx, &mut t, shape, b, dim, cnt);
            array_access::<N, 2>(ctx, &mut t, shape, b, dim, cnt);
        }
    }
    for axis in 0..=N {
        for mid in 0..=shape.get(axis).copied().unwrap_or(1) + 1 {
            cnt.evals.fetch_add(1, Ordering::Relaxed);
            let _ = vp_core::catch(std::panic::AssertUnwindSafe(|| {
                let mut view = t.view_mut();
                let (mut a, mut b) = view.split_at_mut(axis, mid);
                // the two halves together must not hand out one element twice
                let mut seen = std::collections::HashSet::new();
                for half in [&mut a, &mut b] {
                    let hs: Vec<usize> = half.shape().to_vec();
                    let mut d = half.as_dyn_mut();
                    for idx in indices(&hs) {
                        if let Some(r) = d.get_mut(idx.as_slice()) {
                            let off = (r as *mut i32 as isize - base as isize) / 4;
                            if off < 0 || off as usize >= n || !seen.insert(off) {
                                ctx.violation(
                                    "NdTensorViewMut::split_at_mut: the halves reach an element outside the allocation or share an element".to_string(),
                                    json!({"via": "split_at_mut", "shape": s(shape), "axis": axis, "mid": mid}),
                                    format!("index {idx:?} offset {off}"),
                                );
                                return;
                            }
                        }
                    }
                }
            }));
        }
    }
}

/// `get_array::<M>` / `set_array::<M>` with base index `b` along `dim`: when some index of
/// the M-element run is out of range the call must panic; when it does not, the values
/// read / the set of elements written must be exactly the run's. The tensor is a view into
/// the middle of a larger buffer, so that an out-of-range access of a broken subject lands
/// in the padding (and is seen there) instead of corrupting the heap.
fn array_access<const N: usize, const M: usize>(ctx: &Ctx, _t: &mut NdTensor<i32, N>, shape: &[usize], b: [usize; N], dim: usize, cnt: &Cnt) {
    const PAD: usize = 256;
    cnt.evals.fetch_add(2, Ordering::Relaxed);
    let n: usize = shape.iter().product();
    let mut buf: Vec<i32> = vec![-999; PAD + n + PAD];
    for i in 0..n {
        buf[PAD + i] = i as i32;
    }
    let before = buf.clone();
    let valid = (0..N).all(|d| if d == dim { b[d] + M <= shape[d] } else { b[d] < shape[d] });
    let case = || json!({"via": "get_array/set_array", "shape": s(shape), "base": s(&b), "dim": dim, "M": M});
    let mut strides = vec![0usize; N];
    let mut acc = 1;
    for d in (0..N).rev() {
        strides[d] = acc;
        acc *= shape[d];
    }
    let off = |idx: &[usize]| -> usize { idx.iter().zip(&strides).map(|(i, st)| i * st).sum() };
    let want: Vec<usize> = (0..M).map(|k| { let mut i = b; i[dim] += k; PAD + off(&i) }).collect();
    {
        let view = NdTensorView::<i32, N>::from_data(nd::<N>(shape), &buf[PAD..PAD + n]);
        match vp_core::catch(|| view.get_array::<M>(b, dim)) {
            Ok(vals) => {
                if !valid {
                    ctx.violation("NdTensor::get_array returns data for a run with an out-of-range index".to_string(), case(), format!("returned {vals:?}"));
                } else {
                    cnt.accepted.fetch_add(1, Ordering::Relaxed);
                    if (0..M).any(|k| vals[k] != before[want[k]]) {
                        ctx.violation("NdTensor::get_array returns the wrong elements".to_string(), case(), format!("{vals:?}"));
                    }
                }
            }
            Err(_) => {
                if valid {
                    ctx.observe("NdTensor::get_array panics for an in-range run");
                }
            }
        }
    }
    let r = {
        let mut view = NdTensorViewMut::<i32, N>::from_data(nd::<N>(shape), &mut buf[PAD..PAD + n]);
        vp_core::catch(std::panic::AssertUnwindSafe(|| view.set_array::<M>(b, dim, [-7i32; M])))
    };
    let changed: Vec<usize> = (0..buf.len()).filter(|&i| buf[i] != before[i]).collect();
    let mut expect: Vec<usize> = if valid && r.is_ok() { want.clone() } else { vec![] };
    expect.sort();
    if r.is_ok() && !valid {
        ctx.violation("NdTensor::set_array accepts a run with an out-of-range index".to_string(), case(), format!("buffer positions changed (storage starts at {PAD}, {n} elements): {changed:?}"));
    } else if changed != expect {
        ctx.violation("NdTensor::set_array changes other elements than the run's".to_string(), case(), format!("changed {changed:?}, expected {expect:?}"));
    }
}

fn nd<const N: usize>(v: &[usize]) -> [usize; N] {
    v.try_into().unwrap()
}

fn ctor_box_nd<const N: usize>(ctx: &Ctx, shape: &[usize], strides: &[usize], storage: usize, cnt: &Cnt) {
    let sh: [usize; N] = nd(shape);
    let st: [usize; N] = nd(strides);
    let buf = vec![0i32; storage];
    cnt.evals.fetch_add(3, Ordering::Relaxed);
    if let Ok(Ok(_t)) = vp_core::catch(|| NdTensor::<i32, N>::try_from_data(sh, buf.clone())) {
        cnt.accepted.fetch_add(1, Ordering::Relaxed);
        if !valid_contig(shape, storage) {
            flag(ctx, "NdTensor::try_from_data", shape, None, storage, "element count != storage length");
        }
    }
    if let Ok(Ok(_t)) = vp_core::catch(|| NdTensorView::<i32, N>::from_slice_with_strides(sh, &buf[..], st)) {
        cnt.accepted.fetch_add(1, Ordering::Relaxed);
        if !valid_strided(shape, strides, storage, false) {
            flag(ctx, "NdTensorView::from_slice_with_strides", shape, Some(strides), storage, "an offset lies outside the storage");
        }
    }
    let mut mbuf = vec![0i32; storage];
    if let Ok(Ok(_t)) = vp_core::catch(|| NdTensorViewMut::<i32, N>::from_data_with_strides(sh, &mut mbuf[..], st)) {
        cnt.accepted.fetch_add(1, Ordering::Relaxed);
        if !valid_strided(shape, strides, storage, true) {
            flag(ctx, "NdTensorViewMut::from_data_with_strides", shape, Some(strides), storage, "offset outside storage or two indices alias");
        }
    }
}

fn ctor_box(ctx: &Ctx, shape: &[usize], strides: &[usize], storage: usize, cnt: &Cnt, first_stride_choice: bool) {
    let buf = vec![0i32; storage];
    // --- contiguous constructors (independent of strides: only once per shape/storage)
    if first_stride_choice {
        cnt.evals.fetch_add(2, Ordering::Relaxed);
        match vp_core::catch(|| Tensor::<i32>::try_from_data(shape, buf.clone())) {
            Ok(Ok(t)) => {
                cnt.accepted.fetch_add(1, Ordering::Relaxed);
                if !valid_contig(shape, storage) {
                    flag(ctx, "Tensor::try_from_data", shape, None, storage, "element count != storage length");
                } else {
                    let base = t.data().map(|d| d.as_ptr()).unwrap_or(std::ptr::null());
                    access_view(ctx, "Tensor::try_from_data", &t.view(), base, storage, cnt);
                }
            }
            Ok(Err(_)) => {}
            Err(_) => ctx.observe("Tensor::try_from_data panicked"),
        }
        if let Ok(t) = vp_core::catch(|| Tensor::<i32>::from_data(shape, buf.clone())) {
            cnt.accepted.fetch_add(1, Ordering::Relaxed);
            if !valid_contig(shape, storage) {
                flag(ctx, "Tensor::from_data", shape, None, storage, "element count != storage length");
            }
            // owned tensor: capacity expansion must stay inside the allocation
            if valid_contig(shape, storage) {
                for axis in 0..shape.len() {
                    for &new_size in &SIZES {
                        cnt.evals.fetch_add(1, Ordering::Relaxed);
                        if let Ok(true) = vp_core::catch(|| t.has_capacity(axis, new_size)) {
                            let mut ns = shape.to_vec();
                            ns[axis] = new_size;
                            let need = max_offset_u128(&ns, t.strides().as_ref()).map(|m| m + 1).unwrap_or(0);
                            if need > storage as u128 && new_size > shape[axis] {
                                ctx.violation(
                                    format!("has_capacity claims room beyond the allocation [{} values]", class_of(&ns, &[])),
                                    json!({"shape": s(shape), "axis": axis, "new_size": new_size.to_string(), "storage": storage}),
                                    format!("needs {need} elements, capacity is at most {storage}"),
                                );
                            }
                        }
                    }
                }
            }
        }
    }
    // --- strided constructors
    cnt.evals.fetch_add(4, Ordering::Relaxed);
    match vp_core::catch(|| TensorView::<i32>::from_slice_with_strides(shape, &buf[..], strides)) {
        Ok(Ok(v)) => {
            cnt.accepted.fetch_add(1, Ordering::Relaxed);
            if !valid_strided(shape, strides, storage, false) {
                flag(ctx, "TensorView::from_slice_with_strides", shape, Some(strides), storage, "an offset lies outside the storage");
            } else {
                access_view(ctx, "TensorView::from_slice_with_strides", &v, buf.as_ptr(), storage, cnt);
            }
        }
        Ok(Err(_)) => {}
        Err(_) => ctx.observe("from_slice_with_strides panicked"),
    }
    let mut mbuf = vec![0i32; storage];
    let mbase = mbuf.as_ptr();
    match vp_core::catch(|| TensorViewMut::<i32>::from_data_with_strides(shape, &mut mbuf[..], strides)) {
        Ok(Ok(mut v)) => {
            cnt.accepted.fetch_add(1, Ordering::Relaxed);
            if !valid_strided(shape, strides, storage, true) {
                flag(ctx, "TensorViewMut::from_data_with_strides", shape, Some(strides), storage, "offset outside storage or two indices alias");
            } else {
                access_view_mut(ctx, "TensorViewMut::from_data_with_strides", &mut v, mbase, storage);
            }
        }
        Ok(Err(_)) => {}
        Err(_) => ctx.observe("from_data_with_strides(&mut) panicked"),
    }
    if let Ok(Ok(_t)) = vp_core::catch(|| Tensor::<i32>::from_data_with_strides(shape, buf.clone(), strides)) {
        cnt.accepted.fetch_add(1, Ordering::Relaxed);
        if !valid_strided(shape, strides, storage, true) {
            flag(ctx, "Tensor::from_data_with_strides", shape, Some(strides), storage, "offset outside storage or two indices alias");
        }
    }
    // from_storage_and_layout with a layout object built separately
    if let Ok(layout) = DynLayout::from_shape_and_strides(shape, strides, OverlapPolicy::AllowOverlap) {
        if let Ok(_v) = vp_core::catch(|| TensorView::<i32>::from_storage_and_layout((&buf[..]).into_storage(), layout.clone())) {
            cnt.accepted.fetch_add(1, Ordering::Relaxed);
            if !valid_strided(shape, strides, storage, false) {
                flag(ctx, "TensorView::from_storage_and_layout", shape, Some(strides), storage, "an offset lies outside the storage");
            }
        }
        let mut mbuf2 = vec![0i32; storage];
        if let Ok(_v) = vp_core::catch(|| TensorViewMut::<i32>::from_storage_and_layout((&mut mbuf2[..]).into_storage(), layout)) {
            cnt.accepted.fetch_add(1, Ordering::Relaxed);
            if !valid_strided(shape, strides, storage, true) {
                flag(ctx, "TensorViewMut::from_storage_and_layout", shape, Some(strides), storage, "offset outside storage or two indices alias");
            }
        }
    }
    match shape.len() {
        1 => ctor_box_nd::<1>(ctx, shape, strides, storage, cnt),
        2 => ctor_box_nd::<2>(ctx, shape, strides, storage, cnt),
        3 => ctor_box_nd::<3>(ctx, shape, strides, storage, cnt),
        _ => {}
    }
    // Allocation from a shape whose wrapped element count is small must not
    // produce a tensor that claims more elements than it owns.
    if first_stride_choice && storage == 0 {
        let wrapped = shape.iter().fold(1usize, |a, &b| a.wrapping_mul(b));
        if wrapped <= 64 && exact_count(shape) != wrapped as u128 {
            cnt.evals.fetch_add(1, Ordering::Relaxed);
            if let Ok(t) = vp_core::catch(|| Tensor::<i32>::zeros(shape)) {
                let have = t.data().map(|d| d.len()).unwrap_or(0);
                ctx.violation(
                    "Tensor::zeros accepts a shape whose element count overflows [huge values]",
                    json!({"ctor": "Tensor::zeros", "shape": s(shape)}),
                    format!("shape {shape:?} has {} elements but the tensor owns {have}", exact_count(shape)),
                );
            }
        }
    }
}

use rten_tensor::storage::IntoStorage;

fn parse(case: &Json, k: &str) -> Vec<usize> {
    case[k].as_array().map(|a| a.iter().map(|v| v.as_str().unwrap().parse().unwrap()).collect()).unwrap_or_default()
}

pub fn run(ctx: Ctx) -> ! {
    let cnt = Cnt { evals: AtomicU64::new(0), accepted: AtomicU64::new(0), accessed: AtomicU64::new(0) };
    if let Some(p) = &ctx.replay {
        let case = vp_core::read_replay_case(p);
        if case.get("history").is_some() {
            // an iteration-history case: same format as C07
            vp_core::machinery_error("replay iteration histories with: ./check C07 --replay <file>");
        }
        let shape = parse(&case, "shape");
        let strides = if case["strides"].is_null() { vec![1; shape.len()] } else { parse(&case, "strides") };
        let storage = case["storage"].as_u64().unwrap_or(0) as usize;
        ctor_box(&ctx, &shape, &strides, storage, &cnt, true);
        ctx.finish("exploration", json!({"evaluations":1,"distinct_nontrivial":2,"rule":"replay","samples":[case]}), vec![]);
    }
    let max_storage = ctx.tier.pick(8usize, 12usize);
    let mut jobs: Vec<Vec<usize>> = Vec::new();
    for r in 0..=3usize {
        for c in Odometer::new(&vec![SIZES.len(); r]) {
            jobs.push(c.iter().map(|&i| SIZES[i]).collect());
        }
    }
    let samples = Samples::new(5);
    let ctxr = &ctx;
    let cntr = &cnt;
    vp_core::par::for_each(jobs.len(), |i| {
        let shape = &jobs[i];
        for (k, sc) in Odometer::new(&vec![STRIDES.len(); shape.len()]).enumerate() {
            let strides: Vec<usize> = sc.iter().map(|&j| STRIDES[j]).collect();
            for storage in 0..=max_storage {
                ctor_box(ctxr, shape, &strides, storage, cntr, k == 0);
            }
        }
        if i % 101 == 7 {
            samples.push(|| json!({"shape": s(shape), "strides_alphabet": s(&STRIDES), "storage": format!("0..={max_storage}")}));
        }
    });
    // Static-rank layout operations (NdLayout has its own implementations).
    {
        let mut sjobs: Vec<Vec<usize>> = Vec::new();
        for r in 1..=3usize {
            for c in Odometer::new(&vec![3; r]) {
                sjobs.push(c.iter().map(|&i| i + 1).collect());
            }
        }
        vp_core::par::for_each(sjobs.len(), |i| {
            let sh = &sjobs[i];
            match sh.len() {
                1 => static_rank_ops::<1>(ctxr, sh, cntr),
                2 => static_rank_ops::<2>(ctxr, sh, cntr),
                _ => static_rank_ops::<3>(ctxr, sh, cntr),
            }
        });
    }
    // Part 3: iteration histories of the mutable iterator kinds.
    let lays = c07::layout_family(&ctx);
    let mut units = Vec::new();
    for lay in &lays {
        for spec in c07::kinds_for(lay, true) {
            units.push(c07::Unit { lay: lay.clone(), spec });
        }
    }
    let hist = AtomicU64::new(0);
    vp_core::par::for_each(units.len(), |i| {
        let u = &units[i];
        let b = crate::iterx::Bounds { depth: ctxr.tier.pick(2, 3), max_splits: 1, all_split_points: false };
        let r = c07::run_unit(u, &b);
        hist.fetch_add(r.stats.histories, Ordering::Relaxed);
        for (h, d, sig, detail) in &r.fails {
            // only memory-safety outcomes belong to C06; ordering errors are C07's
            if sig.contains("dup-mut") || sig.contains("oob") {
                ctxr.violation(format!("mutable iteration: {sig}"), c07::case_json(&u.lay, &u.spec, h, *d), detail.clone());
            }
        }
    });
    let evals = cnt.evals.load(Ordering::Relaxed);
    let accepted = cnt.accepted.load(Ordering::Relaxed);
    let accessed = cnt.accessed.load(Ordering::Relaxed);
    if accepted < 1000 || accessed < 100 {
        ctx.machinery("C06 vacuous: too few accepted tensors");
    }
    let cov = json!({
        "evaluations": evals + hist.load(Ordering::Relaxed),
        "distinct_nontrivial": accepted,
        "rule": "constructor calls over the full box (shape sizes x strides x storage length); non-trivial = calls that returned a tensor (each then validated in u128 and, when valid and small, fully accessed)",
        "samples": samples.take(),
        "exhaustive": true,
        "box": format!("rank 0..=3, sizes {:?}, strides {:?}, storage 0..={max_storage}; ctors: Tensor/NdTensor try_from_data, from_data, from_data_with_strides (owned,&mut), from_slice_with_strides, from_storage_and_layout (view, view_mut), zeros(overflowing), has_capacity; static rank 1..3 over sizes 1..3: NdTensor::permuted / permuted_mut with every order in {{0..=N}}^N, split_at_mut(axis 0..=N, mid 0..=n+1), get_array/set_array with every base index over 0..=size+1 per axis x dim x M in {{1,2}}", s(&SIZES), s(&STRIDES)),
        "constructor_calls": evals,
        "accepted": accepted,
        "accepted_valid_and_fully_accessed": accessed,
        "mutable_iterator_histories": hist.load(Ordering::Relaxed),
        "mutable_iterator_units": units.len(),
    });
    ctx.finish(
        "exploration",
        cov,
        vec![
            "out-of-bounds and aliasing are decided by address arithmetic against the allocation, not by a UB detector".into(),
            "accepted-but-invalid tensors are flagged from exact arithmetic and never dereferenced".into(),
        ],
    )
}
