//! C07: tensor iterators yield exactly the logical elements in order.
//!
//! Explicit-state exploration of consumption histories (see iterx.rs) for
//! every layout of an enumerated family and every iterator kind.

use std::collections::{BTreeMap, HashSet};
use std::sync::Mutex;

use vp_core::{Ctx, Json, Samples, json};

use crate::iterx::{self, Act, Bounds, Drain, Fail, KStats, Kind};
use crate::kinds::*;
use crate::layouts::{self, Lay};

#[derive(Clone, Debug, PartialEq)]
pub enum KindSpec {
    Iter,
    IterMut,
    Lanes(usize),
    LanesMut(usize),
    LaneItems(usize, usize),
    LaneMutItems(usize, usize),
    InnerDyn(usize),
    InnerDynMut(usize),
    Inner1,
    Inner2,
    Inner1Mut,
    Inner2Mut,
    AxisIter(usize),
    AxisIterMut(usize),
    AxisChunks(usize, usize),
    AxisChunksMut(usize, usize),
}

impl KindSpec {
    pub fn to_json(&self) -> Json {
        json!(format!("{self:?}"))
    }
    pub fn from_json(v: &Json) -> KindSpec {
        let s = v.as_str().unwrap_or("");
        let (name, args) = match s.find('(') {
            Some(i) => (&s[..i], &s[i + 1..s.len() - 1]),
            None => (s, ""),
        };
        let a: Vec<usize> = args.split(',').filter_map(|x| x.trim().parse().ok()).collect();
        match name {
            "Iter" => KindSpec::Iter,
            "IterMut" => KindSpec::IterMut,
            "Lanes" => KindSpec::Lanes(a[0]),
            "LanesMut" => KindSpec::LanesMut(a[0]),
            "LaneItems" => KindSpec::LaneItems(a[0], a[1]),
            "LaneMutItems" => KindSpec::LaneMutItems(a[0], a[1]),
            "InnerDyn" => KindSpec::InnerDyn(a[0]),
            "InnerDynMut" => KindSpec::InnerDynMut(a[0]),
            "Inner1" => KindSpec::Inner1,
            "Inner2" => KindSpec::Inner2,
            "Inner1Mut" => KindSpec::Inner1Mut,
            "Inner2Mut" => KindSpec::Inner2Mut,
            "AxisIter" => KindSpec::AxisIter(a[0]),
            "AxisIterMut" => KindSpec::AxisIterMut(a[0]),
            "AxisChunks" => KindSpec::AxisChunks(a[0], a[1]),
            "AxisChunksMut" => KindSpec::AxisChunksMut(a[0], a[1]),
            _ => vp_core::machinery_error(&format!("bad kind spec {s}")),
        }
    }
}

/// Call `$body` with `$k` bound to the concrete `Kind` value.
macro_rules! with_kind {
    ($spec:expr, $k:ident => $body:expr) => {
        match $spec {
            KindSpec::Iter => { let $k = KIter; $body }
            KindSpec::IterMut => { let $k = KIterMut; $body }
            KindSpec::Lanes(d) => { let $k = KLanes(*d); $body }
            KindSpec::LanesMut(d) => { let $k = KLanesMut(*d); $body }
            KindSpec::LaneItems(d, i) => { let $k = KLaneItems(*d, *i); $body }
            KindSpec::LaneMutItems(d, i) => { let $k = KLaneMutItems(*d, *i); $body }
            KindSpec::InnerDyn(n) => { let $k = KInnerDyn(*n); $body }
            KindSpec::InnerDynMut(n) => { let $k = KInnerDynMut(*n); $body }
            KindSpec::Inner1 => { let $k = KInnerStatic::<1>; $body }
            KindSpec::Inner2 => { let $k = KInnerStatic::<2>; $body }
            KindSpec::Inner1Mut => { let $k = KInnerStaticMut::<1>; $body }
            KindSpec::Inner2Mut => { let $k = KInnerStaticMut::<2>; $body }
            KindSpec::AxisIter(d) => { let $k = KAxisIter(*d); $body }
            KindSpec::AxisIterMut(d) => { let $k = KAxisIterMut(*d); $body }
            KindSpec::AxisChunks(d, c) => { let $k = KAxisChunks(*d, *c); $body }
            KindSpec::AxisChunksMut(d, c) => { let $k = KAxisChunksMut(*d, *c); $body }
        }
    };
}
pub(crate) use with_kind;

/// Iterator kinds applicable to a layout (mutable kinds only for non-overlapping layouts).
pub fn kinds_for(lay: &Lay, mutable_only: bool) -> Vec<KindSpec> {
    let r = lay.ndim();
    let mut v = Vec::new();
    let overl = lay.overlaps() || lay.strides.contains(&0);
    if !mutable_only {
        v.push(KindSpec::Iter);
    }
    if !overl {
        v.push(KindSpec::IterMut);
    }
    for d in 0..r {
        if !mutable_only {
            v.push(KindSpec::Lanes(d));
            v.push(KindSpec::AxisIter(d));
        }
        if !overl {
            v.push(KindSpec::LanesMut(d));
            v.push(KindSpec::AxisIterMut(d));
        }
        for c in 1..=3usize {
            if c > lay.shape[d].max(1) {
                continue;
            }
            if !mutable_only {
                v.push(KindSpec::AxisChunks(d, c));
            }
            if !overl {
                v.push(KindSpec::AxisChunksMut(d, c));
            }
        }
        // the Lane / LaneMut iterators themselves: first and last lane
        let nlanes: usize = lay.shape.iter().enumerate().filter(|(i, _)| *i != d).map(|(_, s)| *s).product();
        if nlanes > 0 && lay.shape[d] > 0 {
            let mut which = vec![0, nlanes - 1];
            which.dedup();
            for k in which {
                if !mutable_only {
                    v.push(KindSpec::LaneItems(d, k));
                }
                if !overl {
                    v.push(KindSpec::LaneMutItems(d, k));
                }
            }
        }
    }
    for n in 0..=r {
        if !mutable_only {
            v.push(KindSpec::InnerDyn(n));
        }
        if !overl {
            v.push(KindSpec::InnerDynMut(n));
        }
    }
    if r >= 1 {
        if !mutable_only {
            v.push(KindSpec::Inner1);
        }
        if !overl {
            v.push(KindSpec::Inner1Mut);
        }
    }
    if r >= 2 {
        if !mutable_only {
            v.push(KindSpec::Inner2);
        }
        if !overl {
            v.push(KindSpec::Inner2Mut);
        }
    }
    v
}

pub fn signature(kind_name: &str, f: &Fail, lay: &Lay) -> String {
    let lin: Vec<&str> = f.lineage.iter().map(|s| s.as_str()).collect();
    format!("{}.{}: {} after {{{}}} [{} layout]", kind_name, f.at, f.what, lin.join(","), lay.class)
}

pub fn case_json(lay: &Lay, spec: &KindSpec, hist: &[Act], drain: Drain) -> Json {
    json!({
        "layout": lay.to_json(),
        "kind": spec.to_json(),
        "history": hist.iter().map(|a| a.to_json()).collect::<Vec<_>>(),
        "drain": format!("{drain:?}"),
    })
}

pub fn drain_from(s: &str) -> Drain {
    match s {
        "Back" => Drain::Back,
        "Alternate" => Drain::Alternate,
        "Fold" => Drain::Fold,
        _ => Drain::Front,
    }
}

pub struct Unit {
    pub lay: Lay,
    pub spec: KindSpec,
}

pub struct UnitResult {
    pub stats: KStats,
    pub kind_name: String,
    pub fails: Vec<(Vec<Act>, Drain, String, String)>,
    pub skipped: bool,
}

pub fn run_unit(u: &Unit, b: &Bounds) -> UnitResult {
    with_kind!(&u.spec, k => {
        let mut stats = KStats::default();
        let mut fails = Vec::new();
        let name = k.name();
        match k.expected(&u.lay) {
            None => UnitResult { stats, kind_name: name, fails, skipped: true },
            Some(exp) => {
                let mut rep = |h: &[Act], d: Drain, f: &Fail| {
                    fails.push((h.to_vec(), d, signature(&name, f, &u.lay), f.detail.clone()));
                };
                iterx::explore(&k, &u.lay, &exp, b, &mut stats, &mut rep);
                UnitResult { stats, kind_name: name, fails, skipped: false }
            }
        }
    })
}

pub fn bounds_for(ctx: &Ctx, len: usize) -> Bounds {
    // The history alphabet grows with the number of items; keep the product
    // bounded by lowering the depth for long item sequences.
    if ctx.tier.is_thorough() {
        let depth = if len <= 4 { 5 } else if len <= 9 { 4 } else { 3 };
        Bounds { depth, max_splits: if len <= 6 { 2 } else { 1 }, all_split_points: len <= 6 }
    } else {
        let depth = if len <= 4 { 4 } else if len <= 9 { 3 } else { 2 };
        Bounds { depth, max_splits: 1, all_split_points: len <= 4 }
    }
}

pub fn layout_family(ctx: &Ctx) -> Vec<Lay> {
    let mut lays = Vec::new();
    let sizes: &[usize] = &[0, 1, 2, 3];
    for shape in layouts::shapes(3, sizes) {
        // thorough adds step-3 slices for rank <= 2
        let mults: &[usize] = if ctx.tier.is_thorough() && shape.len() <= 2 { &[0, 1, 2, 3] } else { &[0, 1, 2] };
        lays.extend(layouts::family(&shape, mults));
    }
    if ctx.tier.is_thorough() {
        for shape in layouts::shapes(4, &[1, 2]).into_iter().filter(|s| s.len() == 4) {
            lays.extend(layouts::family(&shape, &[1, 2]));
        }
    }
    lays
}

fn replay(ctx: Ctx) -> ! {
    let case = vp_core::read_replay_case(ctx.replay.as_ref().unwrap());
    let lay = Lay::from_json(&case["layout"]);
    let spec = KindSpec::from_json(&case["kind"]);
    let hist: Vec<Act> = case["history"].as_array().unwrap().iter().map(Act::from_json).collect();
    let drain = drain_from(case["drain"].as_str().unwrap_or("Front"));
    with_kind!(&spec, k => {
        let exp = k.expected(&lay).unwrap_or_else(|| vp_core::machinery_error("kind not applicable to layout"));
        // determinism: run twice, must agree
        let r1 = iterx::run(&k, &lay, &exp, &hist, drain);
        let r2 = iterx::run(&k, &lay, &exp, &hist, drain);
        match (&r1, &r2) {
            (Err(f1), Err(f2)) if f1.detail == f2.detail => {
                println!("replay: {} -> {}: {}", signature(&k.name(), f1, &lay), f1.what, f1.detail);
                ctx.violation(signature(&k.name(), f1, &lay), case.clone(), f1.detail.clone());
            }
            (Ok(_), Ok(_)) => println!("replay: history passes"),
            _ => vp_core::machinery_error("replay not deterministic"),
        }
    });
    ctx.finish("model_checking", json!({"states":1,"transitions":1,"traces_validated_against_impl":1,"samples":[case]}), vec![])
}

pub fn run(ctx: Ctx) -> ! {
    if ctx.replay.is_some() {
        replay(ctx);
    }
    let lays = layout_family(&ctx);
    let mut units = Vec::new();
    for lay in &lays {
        for spec in kinds_for(lay, false) {
            units.push(Unit { lay: lay.clone(), spec });
        }
    }
    let samples = Samples::new(6);
    let per_kind: Mutex<BTreeMap<String, (u64, u64, u64)>> = Mutex::new(BTreeMap::new());
    let all_states: Mutex<HashSet<(usize, Vec<(usize, usize)>)>> = Mutex::new(HashSet::new());
    let totals = Mutex::new((0u64, 0u64, 0u64, 0usize, 0u64, 0u64)); // hist, traces, items, maxdepth, skipped, nontrivial units
    let ctxr = &ctx;
    vp_core::par::for_each(units.len(), |i| {
        let u = &units[i];
        let exp_len = with_kind!(&u.spec, k => k.expected(&u.lay).map(|e| e.len()).unwrap_or(0));
        let b = bounds_for(ctxr, exp_len);
        let r = run_unit(u, &b);
        for (h, d, sig, detail) in &r.fails {
            ctxr.violation(sig.clone(), case_json(&u.lay, &u.spec, h, *d), detail.clone());
        }
        {
            let mut t = totals.lock().unwrap();
            t.0 += r.stats.histories;
            t.1 += r.stats.traces;
            t.2 += r.stats.items_checked;
            t.3 = t.3.max(r.stats.max_depth);
            if r.skipped {
                t.4 += 1;
            } else if exp_len >= 2 {
                t.5 += 1;
            }
        }
        {
            let mut pk = per_kind.lock().unwrap();
            let e = pk.entry(r.kind_name.clone()).or_insert((0, 0, 0));
            e.0 += 1;
            e.1 += r.stats.histories;
            e.2 += r.fails.len() as u64;
        }
        {
            let mut st = all_states.lock().unwrap();
            for s in r.stats.ref_states {
                st.insert((exp_len, s));
            }
        }
        if i % 997 == 0 && !r.skipped {
            samples.push(|| json!({"layout": u.lay.to_json(), "kind": u.spec.to_json(), "histories": r.stats.histories, "depth": b.depth}));
        }
    });
    let t = totals.into_inner().unwrap();
    let states = all_states.into_inner().unwrap().len() as u64;
    if t.0 < 1000 || states < 10 {
        ctx.machinery("C07 exploration is vacuous (too few histories/states)");
    }
    let pk: BTreeMap<String, Json> = per_kind
        .into_inner()
        .unwrap()
        .into_iter()
        .map(|(k, v)| (k, json!({"units": v.0, "histories": v.1, "failing_histories": v.2})))
        .collect();
    let cov = json!({
        "states": states,
        "transitions": t.0,
        "traces_validated_against_impl": t.1,
        "samples": samples.take(),
        "exhaustive": true,
        "layouts": lays.len(),
        "layout_iterator_units": units.len(),
        "units_with_2plus_items": t.5,
        "units_skipped_not_applicable": t.4,
        "max_depth": t.3,
        "items_compared": t.2,
        "per_kind": pk,
        "bounds": if ctx.tier.is_thorough() {
            "rank<=3 sizes{0,1,2,3} stride multipliers{0,1,2} (+3 for rank<=2) all axis orders + rank4 sizes{1,2} multipliers{1,2}; depth 5/4/3 by item count (<=4/<=9/more), <=2 splits and all split points when <=6 items, else <=1 split at {0,1,n/2,n-1,n}"
        } else {
            "rank<=3 sizes{0,1,2,3} stride multipliers{0,1,2} all axis orders; depth 4/3/2 by item count (<=4/<=9/more), <=1 split, split points {0,1,n/2,n-1,n} (all when <=4 items)"
        },
        "explanation": "states = distinct (item count, multiset of reference windows) reached; transitions = histories executed on the real iterator; every history is additionally completed by 4 drain modes (front/back/alternating/fold) = traces",
    });
    ctx.finish(
        "model_checking",
        cov,
        vec![
            "item identity is taken from element addresses via get(index); Layout::offset/get are trusted here and checked by C09".into(),
            "no state de-duplication: every history up to the bound is executed, because implementation state is not observable".into(),
        ],
    )
}
