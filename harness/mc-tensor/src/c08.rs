//! C08: the overlap check never admits aliasing layouts (soundness), and
//! always admits layouts derived from a contiguous one (completeness).
//!
//! Soundness box: every (shape, strides) of rank <= R over a size alphabet and
//! a stride alphabet that includes wrap-around candidates. Oracle: brute-force
//! injectivity of index -> offset in u128.

use std::collections::HashSet;
use std::sync::atomic::{AtomicU64, Ordering};

use rten_tensor::layout::{MutLayout, OverlapPolicy};
use rten_tensor::prelude::*;
use rten_tensor::{DynLayout, NdLayout, Tensor, TensorViewMut};
use vp_core::odometer::Odometer;
use vp_core::{Ctx, Json, Samples, json};

use crate::layouts::indices;

const BIG: [usize; 5] = [1 << 31, 1 << 32, 1 << 63, usize::MAX - 1, usize::MAX];

fn stride_alphabet(small_max: usize) -> Vec<usize> {
    let mut v: Vec<usize> = (0..=small_max).collect();
    v.extend_from_slice(&BIG);
    v
}

/// true if two distinct valid indices map to one offset (exact, u128)
pub fn aliases(shape: &[usize], strides: &[usize]) -> bool {
    let mut seen = HashSet::new();
    for idx in indices(shape) {
        let off: u128 = idx.iter().zip(strides).map(|(i, s)| *i as u128 * *s as u128).sum();
        if !seen.insert(off) {
            return true;
        }
    }
    false
}

pub fn max_offset_u128(shape: &[usize], strides: &[usize]) -> Option<u128> {
    if shape.iter().any(|&s| s == 0) {
        return None;
    }
    Some(shape.iter().zip(strides).map(|(s, st)| (*s as u128 - 1) * *st as u128).sum())
}

fn accepted_dyn(shape: &[usize], strides: &[usize]) -> bool {
    DynLayout::from_shape_and_strides(shape, strides, OverlapPolicy::DisallowOverlap).is_ok()
}

fn accepted_nd(shape: &[usize], strides: &[usize]) -> bool {
    fn go<const N: usize>(shape: &[usize], strides: &[usize]) -> bool {
        let s: [usize; N] = shape.try_into().unwrap();
        let t: [usize; N] = strides.try_into().unwrap();
        NdLayout::<N>::from_shape_and_strides(s, t, OverlapPolicy::DisallowOverlap).is_ok()
    }
    match shape.len() {
        0 => go::<0>(shape, strides),
        1 => go::<1>(shape, strides),
        2 => go::<2>(shape, strides),
        3 => go::<3>(shape, strides),
        4 => go::<4>(shape, strides),
        _ => unreachable!(),
    }
}

/// mutable view over a real buffer of `storage` elements
fn accepted_view_mut(shape: &[usize], strides: &[usize], storage: usize) -> bool {
    let mut buf = vec![0i32; storage];
    TensorViewMut::from_data_with_strides(shape, &mut buf[..], strides).is_ok()
}

fn class_of(strides: &[usize]) -> &'static str {
    if strides.iter().any(|s| *s >= 1 << 31) { "huge-stride" } else { "small-stride" }
}

fn check_one(ctx: &Ctx, shape: &[usize], strides: &[usize], counts: &[AtomicU64; 4]) {
    let alias = aliases(shape, strides);
    let case = || json!({"shape": shape, "strides": strides.iter().map(|s| s.to_string()).collect::<Vec<_>>()});
    counts[0].fetch_add(1, Ordering::Relaxed);
    let acc_d = vp_core::catch(|| accepted_dyn(shape, strides));
    let acc_n = vp_core::catch(|| accepted_nd(shape, strides));
    for (who, acc) in [("DynLayout", &acc_d), ("NdLayout", &acc_n)] {
        match acc {
            Ok(true) => {
                counts[1].fetch_add(1, Ordering::Relaxed);
                if alias {
                    ctx.violation(
                        format!("{who}::from_shape_and_strides(DisallowOverlap) accepts aliasing layout [{}]", class_of(strides)),
                        case(),
                        format!("shape {shape:?} strides {strides:?}: two distinct indices map to one offset"),
                    );
                }
            }
            Ok(false) => {
                if !alias {
                    counts[2].fetch_add(1, Ordering::Relaxed); // conservative rejection: allowed
                }
            }
            Err(p) => ctx.observe(&format!("{who}::from_shape_and_strides panicked: {}", vp_core::truncate(p, 60))),
        }
    }
    // With a real buffer: acceptance must also imply that every offset fits.
    for storage in [1usize, 7, 64] {
        let acc = vp_core::catch(|| accepted_view_mut(shape, strides, storage));
        if let Ok(true) = acc {
            counts[3].fetch_add(1, Ordering::Relaxed);
            let fits = match max_offset_u128(shape, strides) {
                None => true,
                Some(m) => m < storage as u128,
            };
            if !fits {
                ctx.violation(
                    format!("from_data_with_strides accepts layout whose max offset exceeds storage [{}]", class_of(strides)),
                    json!({"shape": shape, "strides": strides.iter().map(|s| s.to_string()).collect::<Vec<_>>(), "storage": storage}),
                    format!("shape {shape:?} strides {strides:?} storage {storage}: exact max offset {:?}", max_offset_u128(shape, strides)),
                );
            }
            if alias {
                ctx.violation(
                    format!("from_data_with_strides accepts aliasing layout for mutable storage [{}]", class_of(strides)),
                    json!({"shape": shape, "strides": strides.iter().map(|s| s.to_string()).collect::<Vec<_>>(), "storage": storage}),
                    format!("shape {shape:?} strides {strides:?}"),
                );
            }
        }
    }
}

/// Capacity expansion: an owned tensor with a non-aliasing strided layout and spare
/// capacity may only report `has_capacity(axis, n)` / accept `append` when the grown
/// layout still maps distinct indices to distinct offsets inside the capacity.
fn check_expansion(ctx: &Ctx, shape: &[usize], strides: &[usize], n_checked: &AtomicU64) {
    if shape.iter().any(|&d| d == 0) || aliases(shape, strides) {
        return;
    }
    let Some(maxo) = max_offset_u128(shape, strides) else { return };
    let len = maxo as usize + 1;
    if len > 64 {
        return;
    }
    const CAP: usize = 96;
    let mut data: Vec<i32> = Vec::with_capacity(CAP);
    data.extend(0..len as i32);
    let Ok(Ok(mut t)) = vp_core::catch(|| Tensor::<i32>::from_data_with_strides(shape, data, strides)) else { return };
    for axis in 0..shape.len() {
        for grow in 1..=2usize {
            let new_size = shape[axis] + grow;
            let mut ns = shape.to_vec();
            ns[axis] = new_size;
            let fits = max_offset_u128(&ns, strides).map(|m| m < CAP as u128).unwrap_or(true);
            let sound = fits && !aliases(&ns, strides);
            n_checked.fetch_add(1, Ordering::Relaxed);
            let case = || json!({"expansion": true, "shape": shape, "strides": strides.iter().map(|s| s.to_string()).collect::<Vec<_>>(), "axis": axis, "new_size": new_size});
            match vp_core::catch(|| t.has_capacity(axis, new_size)) {
                Ok(true) if !sound => {
                    ctx.violation(
                        format!("has_capacity accepts an expansion whose layout {} [axis size {}]", if fits { "aliases" } else { "exceeds the capacity" }, if shape[axis] > 1 { "> 1" } else { "1" }),
                        case(),
                        format!("shape {shape:?} strides {strides:?} capacity {CAP}: growing axis {axis} to {new_size}"),
                    );
                }
                _ => {}
            }
            if grow == 1 {
                // append one slice along `axis`; on success the tensor must still be alias-free
                let mut os = shape.to_vec();
                os[axis] = 1;
                let other = Tensor::<i32>::from_data(&os, vec![7i32; os.iter().product()]);
                let before = t.clone();
                if let Ok(Ok(())) = vp_core::catch(std::panic::AssertUnwindSafe(|| t.append(axis, &other))) {
                    if !sound {
                        ctx.violation(
                            format!("append succeeds although the grown layout {} [axis size {}]", if fits { "aliases" } else { "exceeds the capacity" }, if shape[axis] > 1 { "> 1" } else { "1" }),
                            case(),
                            format!("shape {shape:?} strides {strides:?}: append along axis {axis}"),
                        );
                    }
                }
                t = before;
                // `clone` may shrink the capacity: rebuild with the spare capacity
                let mut data: Vec<i32> = Vec::with_capacity(CAP);
                data.extend(0..len as i32);
                match vp_core::catch(|| Tensor::<i32>::from_data_with_strides(shape, data, strides)) {
                    Ok(Ok(x)) => t = x,
                    _ => return,
                }
            }
        }
    }
}

/// Layouts derived from a contiguous layout by <= 2 of {permute, stepped slice,
/// index (remove axis), split}: all must be accepted.
fn derived_layouts(max_rank: usize, max_size: usize) -> Vec<(Vec<usize>, Vec<usize>, String)> {
    let mut out = Vec::new();
    let sizes: Vec<usize> = (0..=max_size).collect();
    let step1 = |shape: &[usize], strides: &[usize]| -> Vec<(Vec<usize>, Vec<usize>, String)> {
        let r = shape.len();
        let mut v = Vec::new();
        for p in vp_core::odometer::permutations(r) {
            v.push((p.iter().map(|&i| shape[i]).collect(), p.iter().map(|&i| strides[i]).collect(), format!("permute{p:?}")));
        }
        for ax in 0..r {
            for start in 0..=shape[ax].min(2) {
                for step in 1..=3usize {
                    let n = (shape[ax] - start).div_ceil(step);
                    let mut s = shape.to_vec();
                    let mut t = strides.to_vec();
                    s[ax] = n;
                    t[ax] = strides[ax] * step;
                    v.push((s, t, format!("slice(ax{ax},{start}..;{step})")));
                }
            }
            if shape[ax] > 0 {
                let mut s = shape.to_vec();
                let mut t = strides.to_vec();
                s.remove(ax);
                t.remove(ax);
                v.push((s, t, format!("index(ax{ax})")));
            }
            for mid in 0..=shape[ax] {
                let mut s = shape.to_vec();
                s[ax] = mid;
                v.push((s.clone(), strides.to_vec(), format!("split-left(ax{ax},{mid})")));
                s[ax] = shape[ax] - mid;
                v.push((s, strides.to_vec(), format!("split-right(ax{ax},{mid})")));
            }
        }
        v
    };
    for r in 0..=max_rank {
        for c in Odometer::new(&vec![sizes.len(); r]) {
            let shape: Vec<usize> = c.iter().map(|&i| sizes[i]).collect();
            let mut strides = vec![0usize; r];
            let mut acc = 1;
            for d in (0..r).rev() {
                strides[d] = acc;
                acc *= shape[d];
            }
            out.push((shape.clone(), strides.clone(), "contiguous".to_string()));
            for (s1, t1, n1) in step1(&shape, &strides) {
                for (s2, t2, n2) in step1(&s1, &t1) {
                    out.push((s2, t2, format!("{n1} then {n2}")));
                }
                out.push((s1, t1, n1));
            }
        }
    }
    out
}

fn parse_case(case: &Json) -> (Vec<usize>, Vec<usize>) {
    let shape = case["shape"].as_array().unwrap().iter().map(|v| v.as_u64().unwrap() as usize).collect();
    let strides = case["strides"].as_array().unwrap().iter().map(|v| v.as_str().unwrap().parse::<usize>().unwrap()).collect();
    (shape, strides)
}

pub fn run(ctx: Ctx) -> ! {
    let counts: [AtomicU64; 4] = Default::default();
    if let Some(p) = &ctx.replay {
        let case = vp_core::read_replay_case(p);
        let (shape, strides) = parse_case(&case);
        if case.get("expansion").is_some() {
            check_expansion(&ctx, &shape, &strides, &counts[0]);
        } else if case.get("derived").is_some() {
            if !accepted_dyn(&shape, &strides) {
                ctx.violation("derived layout rejected as overlapping", case.clone(), "replay");
            }
        } else {
            check_one(&ctx, &shape, &strides, &counts);
        }
        ctx.finish("exploration", json!({"evaluations":1,"distinct_nontrivial":2,"rule":"replay","samples":[case]}), vec![]);
    }
    let (max_rank, max_size, small_strides) = ctx.tier.pick((3, 4, 13), (4, 3, 9));
    let strides_a = stride_alphabet(small_strides);
    let samples = Samples::new(5);
    // Shard by shape.
    let mut shapes = Vec::new();
    for r in 0..=max_rank {
        for c in Odometer::new(&vec![max_size + 1; r]) {
            shapes.push(c);
        }
    }
    // thorough: rank<=3 additionally with the quick alphabets (sizes 0..=4, strides 0..=13)
    let mut jobs: Vec<(Vec<usize>, Vec<usize>)> = shapes.iter().map(|s| (s.clone(), strides_a.clone())).collect();
    if ctx.tier.is_thorough() {
        let big = stride_alphabet(13);
        for r in 0..=3 {
            for c in Odometer::new(&vec![5; r]) {
                if c.iter().any(|&s| s == 4) {
                    jobs.push((c, big.clone()));
                }
            }
        }
    }
    let ctxr = &ctx;
    vp_core::par::for_each(jobs.len(), |i| {
        let (shape, alpha) = &jobs[i];
        for sc in Odometer::new(&vec![alpha.len(); shape.len()]) {
            let strides: Vec<usize> = sc.iter().map(|&j| alpha[j]).collect();
            check_one(ctxr, shape, &strides, &counts);
        }
        if i % 37 == 5 {
            samples.push(|| json!({"shape": shape, "strides_alphabet": alpha.iter().map(|s| s.to_string()).collect::<Vec<_>>()}));
        }
    });
    // Capacity expansion of owned strided tensors (rank <= 3, sizes 1..=3, strides 1..=9).
    let n_exp = AtomicU64::new(0);
    {
        let mut ejobs: Vec<Vec<usize>> = Vec::new();
        for r in 1..=3usize {
            for c in Odometer::new(&vec![3; r]) {
                ejobs.push(c.iter().map(|&i| i + 1).collect());
            }
        }
        let n_exp_ref = &n_exp;
        vp_core::par::for_each(ejobs.len(), |i| {
            let shape = &ejobs[i];
            for sc in Odometer::new(&vec![9; shape.len()]) {
                let strides: Vec<usize> = sc.iter().map(|&j| j + 1).collect();
                check_expansion(ctxr, shape, &strides, n_exp_ref);
            }
        });
    }
    // Completeness.
    let derived = derived_layouts(ctx.tier.pick(3, 4), ctx.tier.pick(3, 3));
    let mut seen = HashSet::new();
    let mut n_derived = 0u64;
    for (shape, strides, how) in &derived {
        if !seen.insert((shape.clone(), strides.clone())) {
            continue;
        }
        n_derived += 1;
        if aliases(shape, strides) {
            ctx.machinery(&format!("harness bug: derived layout aliases: {shape:?} {strides:?} via {how}"));
        }
        for (who, ok) in [("DynLayout", accepted_dyn(shape, strides)), ("NdLayout", accepted_nd(shape, strides))] {
            if !ok {
                ctx.violation(
                    format!("{who}: layout derived from contiguous by slicing/permuting is rejected as overlapping"),
                    json!({"shape": shape, "strides": strides.iter().map(|s| s.to_string()).collect::<Vec<_>>(), "derived": how}),
                    format!("shape {shape:?} strides {strides:?} obtained by {how}"),
                );
            }
        }
    }
    let evals = counts[0].load(Ordering::Relaxed);
    let accepted = counts[1].load(Ordering::Relaxed);
    if accepted < 100 || evals < 1000 {
        ctx.machinery("C08 vacuous: too few accepted layouts");
    }
    let cov = json!({
        "evaluations": evals + n_derived,
        "distinct_nontrivial": accepted / 2 + n_derived,
        "rule": "soundness: every (shape,strides) of the box through DynLayout/NdLayout::from_shape_and_strides(DisallowOverlap) and TensorViewMut::from_data_with_strides (storage 1,7,64); non-trivial = accepted layouts (counted once per layout) + distinct derived layouts for completeness",
        "samples": samples.take(),
        "exhaustive": true,
        "box": format!("rank<={max_rank}, sizes 0..={max_size}, strides 0..={small_strides} + {{2^31,2^32,2^63,MAX-1,MAX}}{}", if ctx.tier.is_thorough() {" plus rank<=3 sizes with a 4 and strides 0..=13+big"} else {""}),
        "layouts_checked": evals,
        "accepted_by_layout_ctor(dyn+nd)": accepted,
        "conservatively_rejected_nonaliasing": counts[2].load(Ordering::Relaxed),
        "accepted_with_real_buffer": counts[3].load(Ordering::Relaxed),
        "derived_layouts_checked_for_completeness": n_derived,
        "capacity_expansions_checked(has_capacity+append on owned strided tensors with spare capacity)": n_exp.load(Ordering::Relaxed),
    });
    ctx.finish("exploration", cov, vec!["aliasing decided by brute force over all indices with u128 offsets".into()])
}
