//! C09: layout transformations match a reference array model.
//!
//! Bounded-exhaustive chain exploration. The oracle is `NArr`, a row-major
//! nested array with naive index arithmetic and a hand-written implementation
//! of every operation (NumPy-like slicing as documented in slice_range.rs).
//!
//! Boxes (all enumerated completely, see `run` for the exact sizes):
//!  * `view`  : chains of view->view / view->copy actions from every start
//!              tensor (rank<=3, sizes {0,1,2,3}; contiguous, strided view of a
//!              bigger buffer, owned tensor with spare capacity). Level 1 uses the
//!              full alphabet F, deeper levels the reduced alphabet R (R is a
//!              subset of F; chains are all sequences over R up to the depth).
//!              Distinct view states (pointer, storage length, shape, strides)
//!              are expanded once per start.
//!  * `owned` : histories of in-place actions on owned tensors (permute,
//!              move_axis, insert/remove axis, clip_dim, append, reshape,
//!              into_shape, make_contiguous) re-executed from scratch.
//!  * `range` : `SliceRange::{steps, resolve, resolve_clamped}` directly.
//!  * `big`   : a few larger / higher-rank start tensors that reach the blocked,
//!              bulk-lane and >4-dim paths of copy.rs (one level of actions).
//!
//! Oracle direction (DESIGN 2.3): subject Ok => reference Ok and equal shape and
//! elements. Subject Err/panic where the reference succeeds is counted per action
//! and reported as an observation.

use std::collections::{BTreeMap, HashMap};
use std::mem::MaybeUninit;

use rten_tensor::prelude::*;
use rten_tensor::{SliceItem, SliceRange, Tensor, TensorView};
use vp_core::{Ctx, Json, Samples, json};

use crate::layouts::indices;

// ---------------------------------------------------------------------------
// Reference model
// ---------------------------------------------------------------------------

#[derive(Clone, Debug, PartialEq, Eq, Hash)]
pub struct NArr {
    pub shape: Vec<usize>,
    pub data: Vec<i32>,
}

type R<T> = Result<T, &'static str>;

fn prod(s: &[usize]) -> usize {
    s.iter().product()
}

/// advance a row-major index; false when wrapped around
fn incr(idx: &mut [usize], shape: &[usize]) -> bool {
    let mut d = shape.len();
    while d > 0 {
        d -= 1;
        idx[d] += 1;
        if idx[d] < shape[d] {
            return true;
        }
        idx[d] = 0;
    }
    false
}

/// per-axis selection used by slicing-like reference operations
#[derive(Clone, Debug)]
enum Sel {
    /// pick one index, axis disappears
    Drop(usize),
    /// keep these source indices in this order
    Keep(Vec<usize>),
}

impl NArr {
    /// distinct values base+1, base+2, ...
    pub fn iota(shape: &[usize], base: i32) -> NArr {
        let n = prod(shape);
        NArr { shape: shape.to_vec(), data: (0..n as i32).map(|i| base + 1 + i).collect() }
    }
    fn rank(&self) -> usize {
        self.shape.len()
    }
    fn flat(&self, idx: &[usize]) -> usize {
        let mut o = 0;
        for (i, s) in idx.iter().zip(&self.shape) {
            debug_assert!(i < s);
            o = o * s + i;
        }
        o
    }
    /// new array of `shape` whose element at `idx` is self[f(idx)]
    fn build(&self, shape: Vec<usize>, f: impl Fn(&[usize]) -> Vec<usize>) -> NArr {
        let n = prod(&shape);
        let mut data = Vec::with_capacity(n);
        if n > 0 {
            let mut idx = vec![0usize; shape.len()];
            loop {
                data.push(self.data[self.flat(&f(&idx))]);
                if !incr(&mut idx, &shape) {
                    break;
                }
            }
        }
        NArr { shape, data }
    }
    fn take(&self, sels: &[Sel]) -> NArr {
        assert_eq!(sels.len(), self.rank());
        let shape: Vec<usize> = sels.iter().filter_map(|s| if let Sel::Keep(v) = s { Some(v.len()) } else { None }).collect();
        let n = prod(&shape);
        let mut data = Vec::with_capacity(n);
        if n > 0 {
            // positions along every source axis (Drop = single position)
            let lists: Vec<&[usize]> = sels
                .iter()
                .map(|s| match s {
                    Sel::Drop(i) => std::slice::from_ref(i),
                    Sel::Keep(v) => v.as_slice(),
                })
                .collect();
            let lens: Vec<usize> = lists.iter().map(|l| l.len()).collect();
            let mut cur = vec![0usize; lists.len()];
            loop {
                let mut o = 0;
                for d in 0..lists.len() {
                    o = o * self.shape[d] + lists[d][cur[d]];
                }
                data.push(self.data[o]);
                if !incr(&mut cur, &lens) {
                    break;
                }
            }
        }
        NArr { shape, data }
    }

    // --- slicing ---------------------------------------------------------

    /// `slice` / `try_slice`: strict. Indices must lie in [-n, n-1], range
    /// endpoints (after adding n to negative values) in [0, n], steps positive.
    fn slice_strict(&self, items: &[Item]) -> R<NArr> {
        self.slice_with(items, false)
    }
    /// `slice_copy`: NumPy semantics. Range endpoints are clamped, negative
    /// steps walk backwards. Indices stay strict.
    fn slice_numpy(&self, items: &[Item]) -> R<NArr> {
        self.slice_with(items, true)
    }
    fn slice_with(&self, items: &[Item], numpy: bool) -> R<NArr> {
        if items.len() > self.rank() {
            return Err("more slice items than dims");
        }
        let mut sels = Vec::with_capacity(self.rank());
        for d in 0..self.rank() {
            let n = self.shape[d] as isize;
            let sel = match items.get(d) {
                None => Sel::Keep((0..n as usize).collect()),
                Some(Item::Idx(i)) => {
                    let p = if *i < 0 { *i + n } else { *i };
                    if p < 0 || p >= n {
                        return Err("index out of range");
                    }
                    Sel::Drop(p as usize)
                }
                Some(Item::Rng(s, e, st)) => {
                    if numpy {
                        Sel::Keep(numpy_range(n, *s, *e, *st))
                    } else {
                        Sel::Keep(strict_range(n, *s, *e, *st)?)
                    }
                }
            };
            sels.push(sel);
        }
        Ok(self.take(&sels))
    }
    fn slice_axis(&self, axis: usize, a: usize, b: usize) -> R<NArr> {
        if axis >= self.rank() {
            return Err("axis out of range");
        }
        if a > b || b > self.shape[axis] {
            return Err("range out of bounds");
        }
        let sels: Vec<Sel> =
            (0..self.rank()).map(|d| if d == axis { Sel::Keep((a..b).collect()) } else { Sel::Keep((0..self.shape[d]).collect()) }).collect();
        Ok(self.take(&sels))
    }
    fn index_axis(&self, axis: usize, i: usize) -> R<NArr> {
        if axis >= self.rank() {
            return Err("axis out of range");
        }
        if i >= self.shape[axis] {
            return Err("index out of range");
        }
        let sels: Vec<Sel> = (0..self.rank()).map(|d| if d == axis { Sel::Drop(i) } else { Sel::Keep((0..self.shape[d]).collect()) }).collect();
        Ok(self.take(&sels))
    }
    fn split(&self, axis: usize, mid: usize, right: bool) -> R<NArr> {
        if axis >= self.rank() {
            return Err("axis out of range");
        }
        if mid > self.shape[axis] {
            return Err("mid out of range");
        }
        if right { self.slice_axis(axis, mid, self.shape[axis]) } else { self.slice_axis(axis, 0, mid) }
    }

    // --- axis reordering --------------------------------------------------

    fn permuted(&self, p: &[usize]) -> R<NArr> {
        let r = self.rank();
        if p.len() != r || !(0..r).all(|d| p.iter().filter(|&&x| x == d).count() == 1) {
            return Err("not a permutation");
        }
        let shape: Vec<usize> = p.iter().map(|&d| self.shape[d]).collect();
        Ok(self.build(shape, |idx| {
            let mut src = vec![0; r];
            for (k, &d) in p.iter().enumerate() {
                src[d] = idx[k];
            }
            src
        }))
    }
    fn transposed(&self) -> NArr {
        let p: Vec<usize> = (0..self.rank()).rev().collect();
        self.permuted(&p).unwrap()
    }
    fn move_axis(&self, from: usize, to: usize) -> R<NArr> {
        let r = self.rank();
        if from >= r || to >= r {
            return Err("axis out of range");
        }
        let mut p: Vec<usize> = (0..r).collect();
        let a = p.remove(from);
        p.insert(to, a);
        self.permuted(&p)
    }

    // --- shape changes ----------------------------------------------------

    fn broadcast(&self, target: &[usize]) -> R<NArr> {
        let r = self.rank();
        if target.len() < r {
            return Err("target rank too small");
        }
        let pad = target.len() - r;
        for d in 0..r {
            if self.shape[d] != target[pad + d] && self.shape[d] != 1 {
                return Err("dims not broadcastable");
            }
        }
        Ok(self.build(target.to_vec(), |idx| (0..r).map(|d| if self.shape[d] == 1 { 0 } else { idx[pad + d] }).collect()))
    }
    fn reshape(&self, shape: &[usize]) -> R<NArr> {
        if prod(shape) != self.data.len() {
            return Err("element count mismatch");
        }
        Ok(NArr { shape: shape.to_vec(), data: self.data.clone() })
    }
    fn squeezed(&self) -> NArr {
        NArr { shape: self.shape.iter().copied().filter(|&s| s != 1).collect(), data: self.data.clone() }
    }
    fn insert_axis(&self, i: usize) -> R<NArr> {
        if i > self.rank() {
            return Err("axis out of range");
        }
        let mut shape = self.shape.clone();
        shape.insert(i, 1);
        Ok(NArr { shape, data: self.data.clone() })
    }
    fn remove_axis(&self, i: usize) -> R<NArr> {
        if i >= self.rank() {
            return Err("axis out of range");
        }
        if self.shape[i] != 1 {
            return Err("axis size is not 1");
        }
        let mut shape = self.shape.clone();
        shape.remove(i);
        Ok(NArr { shape, data: self.data.clone() })
    }
    /// `merge_axes` keeps the iteration order and may only merge *consecutive*
    /// axes. The amount of merging depends on strides, so the reference accepts
    /// any grouping of consecutive axes: `got` must be such a grouping.
    fn is_grouping(&self, got: &[usize]) -> bool {
        // dynamic programme over (position in self.shape, position in got)
        fn rec(src: &[usize], got: &[usize]) -> bool {
            match (src.is_empty(), got.is_empty()) {
                (true, true) => return true,
                (_, true) => return false,
                _ => {}
            }
            // a group of k>=1 consecutive source axes forms got[0]
            let mut p = 1usize;
            for k in 0..src.len() {
                p *= src[k];
                if p == got[0] && rec(&src[k + 1..], &got[1..]) {
                    return true;
                }
            }
            false
        }
        rec(&self.shape, got)
    }
    fn concat(&self, axis: usize, other: &NArr) -> R<NArr> {
        let r = self.rank();
        if other.rank() != r {
            return Err("rank mismatch");
        }
        if axis >= r {
            return Err("axis out of range");
        }
        if !(0..r).all(|d| d == axis || self.shape[d] == other.shape[d]) {
            return Err("shape mismatch");
        }
        let mut shape = self.shape.clone();
        shape[axis] += other.shape[axis];
        let n = prod(&shape);
        let mut data = Vec::with_capacity(n);
        if n > 0 {
            let mut idx = vec![0usize; r];
            loop {
                if idx[axis] < self.shape[axis] {
                    data.push(self.data[self.flat(&idx)]);
                } else {
                    let mut j = idx.clone();
                    j[axis] -= self.shape[axis];
                    data.push(other.data[other.flat(&j)]);
                }
                if !incr(&mut idx, &shape) {
                    break;
                }
            }
        }
        Ok(NArr { shape, data })
    }
}

/// validity of an item list under the strict rules, without building the result
fn strict_valid(shape: &[usize], items: &[Item]) -> bool {
    if items.len() > shape.len() {
        return false;
    }
    items.iter().zip(shape).all(|(it, &n)| {
        let n = n as isize;
        match it {
            Item::Idx(i) => (0..n).contains(&norm(*i, n)),
            Item::Rng(s, e, st) => *st > 0 && (0..=n).contains(&norm(*s, n)) && (0..=n).contains(&e.map(|e| norm(e, n)).unwrap_or(n)),
        }
    })
}

fn broadcast_valid(shape: &[usize], target: &[usize]) -> bool {
    target.len() >= shape.len() && shape.iter().rev().zip(target.iter().rev()).all(|(&s, &t)| s == t || s == 1)
}

fn norm(x: isize, n: isize) -> isize {
    if x < 0 { x + n } else { x }
}

/// positions selected by a range under the strict rules of `slice`
fn strict_range(n: isize, start: isize, end: Option<isize>, step: isize) -> R<Vec<usize>> {
    if step <= 0 {
        return Err("slice needs a positive step");
    }
    let s = norm(start, n);
    let e = end.map(|e| norm(e, n)).unwrap_or(n);
    if s < 0 || s > n || e < 0 || e > n {
        return Err("range out of bounds");
    }
    let mut v = Vec::new();
    let mut i = s;
    while i < e {
        v.push(i as usize);
        i += step;
    }
    Ok(v)
}

/// positions selected by a range under NumPy rules (what `a[start:end:step]` yields)
pub fn numpy_range(n: isize, start: isize, end: Option<isize>, step: isize) -> Vec<usize> {
    assert!(step != 0);
    let mut v = Vec::new();
    if step > 0 {
        let s = norm(start, n).clamp(0, n);
        let e = end.map(|e| norm(e, n).clamp(0, n)).unwrap_or(n);
        let mut i = s;
        while i < e {
            v.push(i as usize);
            i += step;
        }
    } else {
        let s = norm(start, n).clamp(-1, n - 1);
        let e = end.map(|e| norm(e, n).clamp(-1, n - 1)).unwrap_or(-1);
        let mut i = s;
        while i > e {
            v.push(i as usize);
            i += step;
        }
    }
    v
}

// ---------------------------------------------------------------------------
// Actions
// ---------------------------------------------------------------------------

#[derive(Clone, Debug, PartialEq, Eq, Hash)]
pub enum Item {
    Idx(isize),
    Rng(isize, Option<isize>, isize),
}

impl Item {
    fn full() -> Item {
        Item::Rng(0, None, 1)
    }
    fn to_rten(&self) -> SliceItem {
        match self {
            Item::Idx(i) => SliceItem::Index(*i),
            Item::Rng(s, e, st) => SliceItem::Range(SliceRange::new(*s, *e, *st)),
        }
    }
}

const NONE_END: i64 = 1 << 40;

fn enc_items(items: &[Item]) -> Vec<i64> {
    let mut v = Vec::new();
    for it in items {
        match it {
            Item::Idx(i) => v.extend([0, *i as i64, 0, 0]),
            Item::Rng(s, e, st) => v.extend([1, *s as i64, e.map(|e| e as i64).unwrap_or(NONE_END), *st as i64]),
        }
    }
    v
}

fn dec_items(a: &[i64]) -> Vec<Item> {
    a.chunks(4)
        .map(|c| if c[0] == 0 { Item::Idx(c[1] as isize) } else { Item::Rng(c[1] as isize, if c[2] == NONE_END { None } else { Some(c[2] as isize) }, c[3] as isize) })
        .collect()
}

fn us(a: &[i64]) -> Vec<usize> {
    a.iter().map(|&x| x as usize).collect()
}
fn is(a: &[usize]) -> Vec<i64> {
    a.iter().map(|&x| x as i64).collect()
}

/// view-level actions (result: a view or a fresh tensor that is viewed)
#[derive(Clone, Debug, PartialEq)]
pub enum Act {
    Slice(Vec<Item>),
    TrySlice(Vec<Item>),
    SliceCopy(Vec<Item>),
    SliceAxis(usize, usize, usize),
    IndexAxis(usize, usize),
    Permuted(Vec<usize>),
    Transposed,
    MoveAxis(usize, usize),
    Broadcast(Vec<usize>),
    TryBroadcast(Vec<usize>),
    Reshaped(Vec<usize>),
    ToShape(Vec<usize>),
    Squeezed,
    InsertAxis(usize),
    RemoveAxis(usize),
    MergeAxes,
    SplitLeft(usize, usize),
    SplitRight(usize, usize),
    ToContiguous,
    ToTensor,
    Map,
}

// indices into the counter table
const A_NAMES: [&str; 21] = [
    "slice", "try_slice", "slice_copy", "slice_axis", "index_axis", "permuted", "transposed", "move_axis", "broadcast", "try_broadcast",
    "reshaped", "to_shape", "squeezed", "insert_axis", "remove_axis", "merge_axes", "split_at.left", "split_at.right", "to_contiguous",
    "to_tensor", "map",
];

impl Act {
    fn id(&self) -> usize {
        match self {
            Act::Slice(_) => 0,
            Act::TrySlice(_) => 1,
            Act::SliceCopy(_) => 2,
            Act::SliceAxis(..) => 3,
            Act::IndexAxis(..) => 4,
            Act::Permuted(_) => 5,
            Act::Transposed => 6,
            Act::MoveAxis(..) => 7,
            Act::Broadcast(_) => 8,
            Act::TryBroadcast(_) => 9,
            Act::Reshaped(_) => 10,
            Act::ToShape(_) => 11,
            Act::Squeezed => 12,
            Act::InsertAxis(_) => 13,
            Act::RemoveAxis(_) => 14,
            Act::MergeAxes => 15,
            Act::SplitLeft(..) => 16,
            Act::SplitRight(..) => 17,
            Act::ToContiguous => 18,
            Act::ToTensor => 19,
            Act::Map => 20,
        }
    }
    fn name(&self) -> &'static str {
        A_NAMES[self.id()]
    }
    fn args(&self) -> Vec<i64> {
        match self {
            Act::Slice(i) | Act::TrySlice(i) | Act::SliceCopy(i) => enc_items(i),
            Act::SliceAxis(a, b, c) => is(&[*a, *b, *c]),
            Act::IndexAxis(a, b) | Act::MoveAxis(a, b) | Act::SplitLeft(a, b) | Act::SplitRight(a, b) => is(&[*a, *b]),
            Act::Permuted(p) | Act::Broadcast(p) | Act::TryBroadcast(p) | Act::Reshaped(p) | Act::ToShape(p) => is(p),
            Act::InsertAxis(a) | Act::RemoveAxis(a) => is(&[*a]),
            Act::Transposed | Act::Squeezed | Act::MergeAxes | Act::ToContiguous | Act::ToTensor | Act::Map => vec![],
        }
    }
    pub fn to_json(&self) -> Json {
        json!({"op": self.name(), "a": self.args(), "text": format!("{self:?}")})
    }
    pub fn from_json(v: &Json) -> Act {
        let a: Vec<i64> = v["a"].as_array().map(|x| x.iter().map(|y| y.as_i64().unwrap()).collect()).unwrap_or_default();
        match v["op"].as_str().unwrap_or("") {
            "slice" => Act::Slice(dec_items(&a)),
            "try_slice" => Act::TrySlice(dec_items(&a)),
            "slice_copy" => Act::SliceCopy(dec_items(&a)),
            "slice_axis" => Act::SliceAxis(a[0] as usize, a[1] as usize, a[2] as usize),
            "index_axis" => Act::IndexAxis(a[0] as usize, a[1] as usize),
            "permuted" => Act::Permuted(us(&a)),
            "transposed" => Act::Transposed,
            "move_axis" => Act::MoveAxis(a[0] as usize, a[1] as usize),
            "broadcast" => Act::Broadcast(us(&a)),
            "try_broadcast" => Act::TryBroadcast(us(&a)),
            "reshaped" => Act::Reshaped(us(&a)),
            "to_shape" => Act::ToShape(us(&a)),
            "squeezed" => Act::Squeezed,
            "insert_axis" => Act::InsertAxis(a[0] as usize),
            "remove_axis" => Act::RemoveAxis(a[0] as usize),
            "merge_axes" => Act::MergeAxes,
            "split_at.left" => Act::SplitLeft(a[0] as usize, a[1] as usize),
            "split_at.right" => Act::SplitRight(a[0] as usize, a[1] as usize),
            "to_contiguous" => Act::ToContiguous,
            "to_tensor" => Act::ToTensor,
            "map" => Act::Map,
            o => vp_core::machinery_error(&format!("C09 replay: unknown op {o}")),
        }
    }

    /// reference result; `Err` = the operation is invalid on the model.
    /// `MergeAxes` is handled by the caller (result shape is not unique).
    fn reference(&self, r: &NArr) -> R<NArr> {
        match self {
            Act::Slice(i) | Act::TrySlice(i) => r.slice_strict(i),
            Act::SliceCopy(i) => r.slice_numpy(i),
            Act::SliceAxis(ax, a, b) => r.slice_axis(*ax, *a, *b),
            Act::IndexAxis(ax, i) => r.index_axis(*ax, *i),
            Act::Permuted(p) => r.permuted(p),
            Act::Transposed => Ok(r.transposed()),
            Act::MoveAxis(f, t) => r.move_axis(*f, *t),
            Act::Broadcast(t) | Act::TryBroadcast(t) => r.broadcast(t),
            Act::Reshaped(s) | Act::ToShape(s) => r.reshape(s),
            Act::Squeezed => Ok(r.squeezed()),
            Act::InsertAxis(i) => r.insert_axis(*i),
            Act::RemoveAxis(i) => r.remove_axis(*i),
            Act::MergeAxes => Ok(r.clone()),
            Act::SplitLeft(ax, m) => r.split(*ax, *m, false),
            Act::SplitRight(ax, m) => r.split(*ax, *m, true),
            Act::ToContiguous | Act::ToTensor => Ok(r.clone()),
            Act::Map => Ok(NArr { shape: r.shape.clone(), data: r.data.iter().map(|x| map_fn(x)).collect() }),
        }
    }

    /// discriminating input feature for the signature. `kind`: 0 = accepted
    /// invalid operation, 1 = wrong shape, 2 = wrong elements.
    fn feature(&self, r: &NArr, kind: u8) -> String {
        match self {
            Act::Slice(items) | Act::TrySlice(items) | Act::SliceCopy(items) => {
                let mut f = Vec::new();
                if items.len() < r.shape.len() && kind != 0 {
                    f.push("fewer items than dims");
                }
                if items.len() > r.shape.len() {
                    f.push("more items than dims");
                }
                let (mut neg_step, mut big_step, mut oob_range, mut oob_idx, mut neg_idx) = (false, false, false, false, false);
                for (d, it) in items.iter().enumerate() {
                    let n = r.shape.get(d).copied().unwrap_or(0) as isize;
                    match it {
                        Item::Idx(i) => {
                            let p = norm(*i, n);
                            let oob = p < 0 || p >= n;
                            oob_idx |= oob;
                            neg_idx |= *i < 0 && !oob;
                        }
                        Item::Rng(s, e, st) => {
                            neg_step |= *st < 0;
                            big_step |= st.abs() > 1;
                            let s = norm(*s, n);
                            let e = e.map(|e| norm(e, n)).unwrap_or(n);
                            oob_range |= s < 0 || s > n || e < 0 || e > n;
                        }
                    }
                }
                if let Act::SliceCopy(_) = self {
                    // slice_copy copies a view when the list is valid for `slice`,
                    // otherwise it takes its own path: that is the discriminating class
                    if !strict_valid(&r.shape, items) {
                        f.push("list not valid for slice()");
                    }
                } else {
                    for (b, n) in [(neg_step, "negative step"), (big_step && !neg_step, "step>1"), (oob_range, "range out of bounds")] {
                        if b {
                            f.push(n);
                        }
                    }
                }
                if oob_idx && kind == 0 {
                    f.push("index out of bounds");
                }
                if neg_idx && kind == 2 {
                    f.push("negative index");
                }
                if kind == 2 && r.shape.len() > 4 {
                    f.push("rank>4");
                }
                if f.is_empty() { "plain ranges".into() } else { f.join(", ") }
            }
            Act::Broadcast(t) | Act::TryBroadcast(t) => {
                if t.len() < r.shape.len() { "target rank smaller".into() } else if t.contains(&0) { "target has 0".into() } else { "target".into() }
            }
            Act::Reshaped(s) | Act::ToShape(s) => {
                if prod(s) != r.data.len() { "element count differs".into() } else { "same element count".into() }
            }
            _ => String::new(),
        }
    }
}

fn map_fn(x: &i32) -> i32 {
    x.wrapping_mul(3).wrapping_sub(7)
}

// ---------------------------------------------------------------------------
// Exploration state, comparison, subject execution
// ---------------------------------------------------------------------------

#[derive(Default, Clone, Debug)]
struct Cnt {
    tried: u64,
    both_ok: u64,
    both_err: u64,
    subj_err_ref_ok: u64,
    violations: u64,
}

impl Cnt {
    fn add(&mut self, o: &Cnt) {
        self.tried += o.tried;
        self.both_ok += o.both_ok;
        self.both_err += o.both_err;
        self.subj_err_ref_ok += o.subj_err_ref_ok;
        self.violations += o.violations;
    }
    fn to_json(&self) -> Json {
        json!({"tried": self.tried, "ok_and_equal": self.both_ok, "both_reject": self.both_err, "subject_rejects_model_accepts": self.subj_err_ref_ok, "violations": self.violations})
    }
}

#[derive(Hash, PartialEq, Eq)]
enum Key {
    /// view into the start buffer: (element offset, storage length, shape ++ strides)
    InStart(usize, usize, Vec<usize>),
    /// view of a buffer created during the chain: (storage length, shape ++ strides, logical contents)
    Fresh(usize, Vec<usize>, Vec<i32>),
}

struct St {
    boxname: &'static str,
    start: Json,
    path: Vec<Act>,
    base: (usize, usize),
    cnt: BTreeMap<String, Cnt>,
    vcnt: Vec<Cnt>,
    fails: BTreeMap<String, (Json, String, u64)>,
    subject_errors: BTreeMap<String, u64>,
    visited: HashMap<Key, usize>,
    states: u64,
    nodes: u64,
    nodes_nontrivial: u64,
    evals: u64,
    max_depth: usize,
    /// set by `apply` before the continuation runs: the result lives in a buffer
    /// created by the action (a copy), not in the input's storage
    last_fresh: bool,
}

impl St {
    fn new(boxname: &'static str, start: Json) -> St {
        St {
            boxname,
            start,
            path: Vec::new(),
            base: (0, 0),
            cnt: BTreeMap::new(),
            vcnt: vec![Cnt::default(); A_NAMES.len()],
            fails: BTreeMap::new(),
            subject_errors: BTreeMap::new(),
            visited: HashMap::new(),
            states: 0,
            nodes: 0,
            nodes_nontrivial: 0,
            evals: 0,
            max_depth: 0,
            last_fresh: false,
        }
    }
    fn c(&mut self, name: &str) -> &mut Cnt {
        if !self.cnt.contains_key(name) {
            self.cnt.insert(name.to_string(), Cnt::default());
        }
        self.cnt.get_mut(name).unwrap()
    }
    fn case(&self, last: Json) -> Json {
        let mut p: Vec<Json> = self.path.iter().map(|a| a.to_json()).collect();
        p.push(last);
        if self.boxname == "owned" {
            // `start` holds the owned case (start + owned history); view actions go on top
            let mut c = self.start.clone();
            c["view_path"] = json!(p);
            return c;
        }
        json!({"box": self.boxname, "start": self.start, "path": p})
    }
    fn case_len(&self) -> usize {
        let owned = if self.boxname == "owned" { case_len_of(&self.start) } else { 0 };
        owned + self.path.len() + 1
    }
    fn fail(&mut self, sig: String, last: Json, detail: String) {
        // keep the shortest chain per signature
        let plen = self.case_len();
        if let Some(e) = self.fails.get_mut(&sig) {
            e.2 += 1;
            if case_len_of(&e.0) <= plen {
                return;
            }
        }
        let n = self.fails.get(&sig).map(|e| e.2).unwrap_or(1);
        let case = self.case(last);
        self.fails.insert(sig, (case, detail, n));
    }
    fn subject_error(&mut self, name: &str, msg: &str) {
        if self.subject_errors.len() < 400 {
            let m: String = msg.chars().filter(|c| !c.is_ascii_digit()).take(48).collect();
            *self.subject_errors.entry(format!("{name}: {m}")).or_insert(0) += 1;
        }
    }
}

/// number of actions in a case (owned history + view path)
fn case_len_of(case: &Json) -> usize {
    case["path"].as_array().map(|a| a.len()).unwrap_or(0) + case["view_path"].as_array().map(|a| a.len()).unwrap_or(0)
}

fn layout_class(v: &TensorView<'_, i32>) -> &'static str {
    if v.is_empty() {
        "empty"
    } else if v.shape().iter().zip(v.strides()).any(|(&s, &st)| s > 1 && st == 0) {
        "broadcast"
    } else if v.is_contiguous() {
        "contiguous"
    } else {
        "non-contiguous"
    }
}

/// shape, every element through `get(index)`, and `iter()`
fn compare(v: &TensorView<'_, i32>, r: &NArr) -> Option<(&'static str, String)> {
    if v.shape() != r.shape.as_slice() {
        return Some(("wrong shape", format!("shape {:?}, model {:?}", v.shape(), r.shape)));
    }
    if v.len() != r.data.len() || v.ndim() != r.shape.len() {
        return Some(("wrong len/ndim", format!("len {} ndim {}, model shape {:?}", v.len(), v.ndim(), r.shape)));
    }
    let n = r.data.len();
    if n > 0 {
        let mut idx = vec![0usize; r.shape.len()];
        for k in 0..n {
            match v.get(idx.as_slice()) {
                Some(x) if *x == r.data[k] => {}
                other => {
                    return Some(("wrong elements", format!("get({idx:?}) = {other:?}, model {} (shape {:?}, strides {:?})", r.data[k], v.shape(), v.strides())));
                }
            }
            incr(&mut idx, &r.shape);
        }
    }
    let mut it = v.iter();
    if it.len() != n {
        return Some(("wrong elements", format!("iter().len() = {}, model {n}", it.len())));
    }
    for k in 0..n {
        match it.next() {
            Some(x) if *x == r.data[k] => {}
            other => return Some(("wrong elements", format!("iter() item {k} = {other:?}, model {} (shape {:?}, strides {:?})", r.data[k], v.shape(), v.strides()))),
        }
    }
    if it.next().is_some() {
        return Some(("wrong elements", "iter() yields extra items".into()));
    }
    None
}

/// `compare` with panics while reading the subject's result turned into a mismatch
fn compare_caught(v: &TensorView<'_, i32>, r: &NArr) -> Option<(&'static str, String)> {
    match vp_core::catch(|| compare(v, r)) {
        Ok(x) => x,
        Err(p) => Some(("wrong elements", format!("panic while reading the result: {p}"))),
    }
}

fn describe(v: &TensorView<'_, i32>) -> String {
    vp_core::catch(|| format!("shape {:?} elements {:?}", v.shape(), v.to_vec())).unwrap_or_else(|p| format!("shape {:?}, elements unreadable (panic: {p})", v.shape()))
}

enum Out<'a> {
    View(TensorView<'a, i32>),
    Owned(Tensor<i32>),
    Cow(rten_tensor::CowTensor<'a, i32>),
}

impl Out<'_> {
    fn view(&self) -> TensorView<'_, i32> {
        match self {
            Out::View(v) => v.view(),
            Out::Owned(t) => t.view(),
            Out::Cow(c) => c.view(),
        }
    }
}

fn rten_items(items: &[Item]) -> Vec<SliceItem> {
    items.iter().map(|i| i.to_rten()).collect()
}

fn subject<'a>(v: &TensorView<'a, i32>, act: &Act) -> Result<Out<'a>, String> {
    let res = vp_core::catch(|| -> Result<Out<'a>, String> {
        Ok(match act {
            Act::Slice(items) => Out::View(v.slice(rten_items(items).as_slice())),
            Act::TrySlice(items) => Out::View(v.try_slice(rten_items(items).as_slice()).map_err(|e| format!("{e:?}"))?),
            Act::SliceCopy(items) => Out::Owned(v.slice_copy(rten_items(items).as_slice())),
            Act::SliceAxis(ax, a, b) => Out::View(v.slice_axis(*ax, *a..*b)),
            Act::IndexAxis(ax, i) => Out::View(v.index_axis(*ax, *i)),
            Act::Permuted(p) => Out::View(v.permuted(p.as_slice())),
            Act::Transposed => Out::View(v.transposed()),
            Act::MoveAxis(f, t) => {
                let mut w = v.clone();
                w.move_axis(*f, *t);
                Out::View(w)
            }
            Act::Broadcast(t) => Out::View(v.broadcast(t.as_slice())),
            Act::TryBroadcast(t) => Out::View(v.try_broadcast(t.as_slice()).map_err(|e| format!("{e:?}"))?),
            Act::Reshaped(s) => Out::Cow(v.reshaped(s.as_slice())),
            Act::ToShape(s) => Out::Owned(v.to_shape(s.as_slice())),
            Act::Squeezed => Out::View(v.squeezed()),
            Act::InsertAxis(i) => {
                let mut w = v.clone();
                w.insert_axis(*i);
                Out::View(w)
            }
            Act::RemoveAxis(i) => {
                let mut w = v.clone();
                w.remove_axis(*i);
                Out::View(w)
            }
            Act::MergeAxes => {
                let mut w = v.clone();
                w.merge_axes();
                Out::View(w)
            }
            Act::SplitLeft(ax, m) => Out::View(v.split_at(*ax, *m).0),
            Act::SplitRight(ax, m) => Out::View(v.split_at(*ax, *m).1),
            Act::ToContiguous => Out::Cow(v.to_contiguous().into_inner()),
            Act::ToTensor => Out::Owned(v.to_tensor()),
            Act::Map => Out::Owned(v.map(map_fn)),
        })
    });
    match res {
        Ok(r) => r,
        Err(p) => Err(format!("panic: {p}")),
    }
}

/// Run one action on the subject and on the model, compare, and hand the
/// resulting node to `k` when both succeed and agree.
fn apply(v: &TensorView<'_, i32>, r: &NArr, act: &Act, st: &mut St, k: &mut dyn FnMut(&TensorView<'_, i32>, &NArr, &mut St)) {
    st.evals += 1;
    let id = act.id();
    st.vcnt[id].tried += 1;
    let refres = act.reference(r);
    let sub = subject(v, act);
    match (sub, refres) {
        (Err(msg), Ok(_)) => {
            st.vcnt[id].subj_err_ref_ok += 1;
            st.subject_error(act.name(), &msg);
        }
        (Err(_), Err(_)) => st.vcnt[id].both_err += 1,
        (Ok(out), Err(why)) => {
            st.vcnt[id].violations += 1;
            let ov = out.view();
            let feat = act.feature(r, 0);
            st.fail(
                format!("{}: succeeds although the model rejects the operation ({why}) [{feat}]", act.name()),
                act.to_json(),
                format!("input shape {:?}; {:?} returned {}", r.shape, act, describe(&ov)),
            );
        }
        (Ok(out), Ok(mut exp)) => {
            let ov = out.view();
            if let Act::MergeAxes = act {
                if r.is_grouping(ov.shape()) {
                    exp.shape = ov.shape().to_vec();
                } else {
                    st.vcnt[id].violations += 1;
                    st.fail(
                        "merge_axes: result shape is not a merge of consecutive axes".into(),
                        act.to_json(),
                        format!("input shape {:?} strides {:?} -> shape {:?}", r.shape, v.strides(), ov.shape()),
                    );
                    return;
                }
            }
            if let Some((what, detail)) = compare_caught(&ov, &exp) {
                st.vcnt[id].violations += 1;
                let feat = act.feature(r, if what == "wrong elements" { 2 } else { 1 });
                let own_path = matches!(act, Act::SliceCopy(_)) && feat.contains("not valid for slice()");
                let cls = if what == "wrong elements" && !own_path { format!("; input {}", layout_class(v)) } else { String::new() };
                st.fail(
                    format!("{}: {what} [{feat}{cls}]", act.name()),
                    act.to_json(),
                    format!("input shape {:?} strides {:?}; {:?}: {detail}; model shape {:?} elements {:?}", r.shape, v.strides(), act, exp.shape, exp.data),
                );
                return;
            }
            // copies must be contiguous row-major where documented
            if matches!(act, Act::ToContiguous | Act::ToTensor | Act::Map | Act::SliceCopy(_) | Act::ToShape(_)) && !ov.is_contiguous() {
                st.vcnt[id].violations += 1;
                st.fail(format!("{}: result is not contiguous", act.name()), act.to_json(), format!("shape {:?} strides {:?}", ov.shape(), ov.strides()));
                return;
            }
            st.vcnt[id].both_ok += 1;
            st.last_fresh = match &out {
                Out::View(_) => false,
                Out::Owned(_) => true,
                Out::Cow(_) => ov.data_ptr() != v.data_ptr() && !ov.is_empty(),
            };
            k(&ov, &exp, st);
        }
    }
}

/// one leaf check: `f` returns Err(detail) when the subject disagrees with the model
fn leaf(st: &mut St, name: &'static str, v: &TensorView<'_, i32>, f: impl FnOnce() -> Result<(), String>) {
    st.evals += 1;
    st.c(name).tried += 1;
    match vp_core::catch(f) {
        Ok(Ok(())) => st.c(name).both_ok += 1,
        Ok(Err(detail)) => {
            st.c(name).violations += 1;
            let cls = layout_class(v);
            st.fail(
                format!("{name}: result differs from the model [input {cls}]"),
                json!({"op": format!("leaf:{name}")}),
                format!("shape {:?} strides {:?}: {detail}", v.shape(), v.strides()),
            );
        }
        Err(p) => {
            st.c(name).subj_err_ref_ok += 1;
            st.subject_error(name, &format!("panic: {p}"));
        }
    }
}

fn expect_eq(what: &str, got: &[i32], want: &[i32]) -> Result<(), String> {
    if got == want { Ok(()) } else { Err(format!("{what} = {got:?}, model {want:?}")) }
}

/// All result-less / copying operations on one node.
fn node_check(v: &TensorView<'_, i32>, r: &NArr, st: &mut St) {
    st.nodes += 1;
    if r.data.len() >= 2 {
        st.nodes_nontrivial += 1;
    }
    let n = r.data.len();
    leaf(st, "to_vec", v, || expect_eq("to_vec()", &v.to_vec(), &r.data));
    leaf(st, "to_slice", v, || expect_eq("to_slice()", &v.to_slice(), &r.data));
    leaf(st, "iter.rev", v, || {
        let got: Vec<i32> = v.iter().rev().copied().collect();
        let want: Vec<i32> = r.data.iter().rev().copied().collect();
        expect_eq("iter().rev()", &got, &want)
    });
    leaf(st, "data", v, || match v.data() {
        Some(d) => expect_eq("data()", d, &r.data),
        None => Ok(()),
    });
    leaf(st, "copy_into_slice", v, || {
        let mut buf: Vec<MaybeUninit<i32>> = vec![MaybeUninit::new(-99); n];
        let got = v.copy_into_slice(&mut buf);
        expect_eq("copy_into_slice()", got, &r.data)
    });
    // a destination of the wrong length is documented to panic
    st.evals += 1;
    st.c("copy_into_slice(wrong len)").tried += 1;
    let wrong = vp_core::catch(|| {
        let mut buf: Vec<MaybeUninit<i32>> = vec![MaybeUninit::new(-99); n + 1];
        v.copy_into_slice(&mut buf).len()
    });
    match wrong {
        Ok(l) => {
            st.c("copy_into_slice(wrong len)").violations += 1;
            st.fail(
                "copy_into_slice: accepts a destination of the wrong length".into(),
                json!({"op": "leaf:copy_into_slice(wrong len)"}),
                format!("shape {:?}: dest len {} accepted, returned {l} elements", v.shape(), n + 1),
            );
        }
        Err(_) => st.c("copy_into_slice(wrong len)").both_err += 1,
    }
    leaf(st, "copy_from(contiguous dest)", v, || {
        let mut d = Tensor::<i32>::full(&r.shape, -5);
        d.copy_from(v);
        if d.shape() != r.shape.as_slice() {
            return Err("dest shape changed".into());
        }
        expect_eq("dest after copy_from", &d.to_vec(), &r.data)
    });
    leaf(st, "copy_from(transposed dest)", v, || {
        let rev: Vec<usize> = r.shape.iter().rev().copied().collect();
        let mut d = Tensor::<i32>::full(&rev, -5);
        d.transpose();
        d.copy_from(v);
        let got: Vec<i32> = indices(&r.shape).iter().map(|i| *d.get(i.as_slice()).unwrap()).collect();
        expect_eq("dest after copy_from", &got, &r.data)
    });
    // out-of-range and wrong-rank indices must be rejected by get
    leaf(st, "get(out of range)", v, || {
        let rank = r.shape.len();
        for d in 0..rank {
            let mut idx = vec![0usize; rank];
            idx[d] = r.shape[d];
            if let Some(x) = v.get(idx.as_slice()) {
                return Err(format!("get({idx:?}) = Some({x}) for shape {:?}", r.shape));
            }
        }
        let long = vec![0usize; rank + 1];
        if let Some(x) = v.get(long.as_slice()) {
            return Err(format!("get({long:?}) = Some({x}) for shape {:?}", r.shape));
        }
        if rank > 0 && n > 0 {
            let short = vec![0usize; rank - 1];
            if let Some(x) = v.get(short.as_slice()) {
                return Err(format!("get({short:?}) = Some({x}) for shape {:?}", r.shape));
            }
        }
        Ok(())
    });
}

fn key_of(v: &TensorView<'_, i32>, r: &NArr, st: &St) -> Key {
    let mut ss = v.shape().to_vec();
    ss.extend_from_slice(v.strides());
    let p = v.data_ptr() as usize;
    let slen = rten_tensor::Storage::len(&v.storage());
    if st.base.1 > 0 && p >= st.base.0 && p < st.base.0 + st.base.1 * 4 {
        Key::InStart((p - st.base.0) / 4, slen, ss)
    } else {
        Key::Fresh(slen, ss, r.data.clone())
    }
}

// ---------------------------------------------------------------------------
// Alphabets
// ---------------------------------------------------------------------------

/// per-axis slice item alphabets
#[derive(Clone, Copy, PartialEq, Debug)]
enum AK {
    /// full range, Index(i) for i in -n-1..=n, every a..b with a in -n-1..=n+1,
    /// b in {None} + -n-1..=n+1, step in {1,2,3,-1,-2,-3}
    Full,
    /// 13 representative items incl. invalid index, out-of-bounds range, negative steps
    Mid,
    /// 6 items
    Small,
    /// 4 items: full, Index(0), 1.., reversed
    Tiny,
}

fn item_alpha(n: usize, k: AK) -> Vec<Item> {
    let n = n as isize;
    match k {
        AK::Full => {
            let mut v = Vec::new();
            for i in -n - 1..=n {
                v.push(Item::Idx(i));
            }
            for st in [1isize, 2, 3, -1, -2, -3] {
                for a in -n - 1..=n + 1 {
                    v.push(Item::Rng(a, None, st));
                    for b in -n - 1..=n + 1 {
                        v.push(Item::Rng(a, Some(b), st));
                    }
                }
            }
            v
        }
        AK::Mid => vec![
            Item::full(),
            Item::Idx(0),
            Item::Idx(-1),
            Item::Idx(n),
            Item::Rng(1, None, 1),
            Item::Rng(0, Some(-1), 1),
            Item::Rng(0, None, 2),
            Item::Rng(1, None, 2),
            Item::Rng(0, None, 3),
            Item::Rng(-2, None, 1),
            Item::Rng(0, Some(n + 1), 1),
            Item::Rng(-1, None, -1),
            Item::Rng(-1, None, -2),
        ],
        AK::Small => vec![Item::full(), Item::Idx(0), Item::Idx(-1), Item::Rng(1, None, 1), Item::Rng(0, None, 2), Item::Rng(-1, None, -1)],
        AK::Tiny => vec![Item::full(), Item::Idx(0), Item::Rng(1, None, 1), Item::Rng(-1, None, -1)],
    }
}

/// every item list of length `len` with the per-axis alphabets of `profile`
fn for_each_items(shape: &[usize], profile: &[AK], len: usize, f: &mut dyn FnMut(&[Item])) {
    let alphas: Vec<Vec<Item>> = (0..len).map(|d| item_alpha(shape.get(d).copied().unwrap_or(0), profile.get(d).copied().unwrap_or(AK::Small))).collect();
    let radices: Vec<usize> = alphas.iter().map(|a| a.len()).collect();
    let mut items: Vec<Item> = Vec::with_capacity(len);
    for c in vp_core::odometer::Odometer::new(&radices) {
        items.clear();
        for d in 0..len {
            items.push(alphas[d][c[d]].clone());
        }
        f(&items);
    }
}

/// all shapes of rank 0..=max_rank over sizes 0..=3
fn small_shapes(max_rank: usize) -> Vec<Vec<usize>> {
    crate::layouts::shapes(max_rank, &[0, 1, 2, 3])
}

/// ordered factorisations of `len` into at most `max_rank` factors; for len 0
/// the shapes over {0,1,2,3} that contain a zero
fn factorisations(len: usize, max_rank: usize) -> Vec<Vec<usize>> {
    if len == 0 {
        return small_shapes(max_rank).into_iter().filter(|s| s.contains(&0)).collect();
    }
    fn rec(rem: usize, left: usize, cur: &mut Vec<usize>, out: &mut Vec<Vec<usize>>) {
        if left == 0 {
            if rem == 1 {
                out.push(cur.clone());
            }
            return;
        }
        for f in 1..=rem {
            if rem % f == 0 {
                cur.push(f);
                rec(rem / f, left - 1, cur, out);
                cur.pop();
            }
        }
    }
    let mut out = Vec::new();
    for m in 0..=max_rank {
        rec(len, m, &mut Vec::new(), &mut out);
    }
    out
}

/// The action alphabet for a node with model `r`.
/// `wide`: level-1 alphabet F (broadcast / reshape targets up to rank 4);
/// otherwise the reduced alphabet R. Slice item lists use `ak` per axis.
fn alphabet(r: &NArr, wide: bool, ak: AK) -> Vec<Act> {
    let rank = r.shape.len();
    let mut v: Vec<Act> = vec![Act::Transposed, Act::Squeezed, Act::MergeAxes, Act::ToContiguous, Act::ToTensor, Act::Map];
    // slices
    let ak = if rank >= 4 && ak != AK::Tiny { AK::Small } else { ak };
    for len in 0..=rank + 1 {
        let profile = vec![if len > rank { AK::Small } else { ak }; len];
        let mut lists: Vec<Vec<Item>> = Vec::new();
        if len > rank {
            lists.push(vec![Item::full(); len]);
        } else {
            for_each_items(&r.shape, &profile, len, &mut |it| lists.push(it.to_vec()));
        }
        for items in lists {
            let ok = strict_valid(&r.shape, &items);
            // the panicking variant is the same code path as try_slice + expect;
            // level 1: every valid list and invalid lists of length <= 1; deeper levels: lists of length <= 1
            if (ok && wide) || len <= 1 || len > rank {
                v.push(Act::Slice(items.clone()));
            }
            v.push(Act::SliceCopy(items.clone()));
            v.push(Act::TrySlice(items));
        }
    }
    for ax in 0..=rank {
        let n = r.shape.get(ax).copied().unwrap_or(1);
        for a in 0..=n {
            for b in a..=n {
                v.push(Act::SliceAxis(ax, a, b));
            }
        }
        v.push(Act::SliceAxis(ax, n, n + 1));
        v.push(Act::SliceAxis(ax, 1, 0));
        for i in 0..=n {
            v.push(Act::IndexAxis(ax, i));
        }
        for mid in 0..=n + 1 {
            v.push(Act::SplitLeft(ax, mid));
            v.push(Act::SplitRight(ax, mid));
        }
        v.push(Act::RemoveAxis(ax));
        for to in 0..=rank {
            v.push(Act::MoveAxis(ax, to));
        }
    }
    if rank <= 4 {
        for i in 0..=rank + 1 {
            v.push(Act::InsertAxis(i));
        }
    }
    for p in vp_core::odometer::permutations(rank) {
        v.push(Act::Permuted(p));
    }
    if rank >= 2 {
        v.push(Act::Permuted(vec![0; rank]));
    }
    v.push(Act::Permuted((0..rank + 1).collect()));
    if rank >= 1 {
        v.push(Act::Permuted((0..rank - 1).collect()));
    }
    // broadcast targets
    for t in small_shapes(if wide { 4 } else { 3 }) {
        if broadcast_valid(&r.shape, &t) || t.len() <= 1 {
            v.push(Act::Broadcast(t.clone()));
        }
        v.push(Act::TryBroadcast(t));
    }
    // reshape targets: every factorisation + small shapes as (mostly invalid) probes
    let mut targets = factorisations(r.data.len(), if wide { 4 } else { 3 });
    for s in small_shapes(2) {
        if !targets.contains(&s) {
            targets.push(s);
        }
    }
    for t in targets {
        v.push(Act::Reshaped(t.clone()));
        v.push(Act::ToShape(t));
    }
    v
}

// ---------------------------------------------------------------------------
// Chain exploration over views
// ---------------------------------------------------------------------------

struct Cfg {
    depth: usize,
    /// continue chains from results that are fresh copies (otherwise a copy ends the chain)
    recurse_from_copies: bool,
    /// slice item alphabet at level 1 of the chain exploration (rank <= 3)
    ak_level1: AK,
    /// slice item alphabet at deeper levels
    ak_deeper: AK,
}

fn visit(v: &TensorView<'_, i32>, r: &NArr, depth_left: usize, st: &mut St) -> bool {
    let key = key_of(v, r, st);
    match st.visited.get(&key) {
        Some(&d) if d >= depth_left => false,
        Some(_) => {
            st.visited.insert(key, depth_left);
            true
        }
        None => {
            st.visited.insert(key, depth_left);
            node_check(v, r, st);
            true
        }
    }
}

/// `v` has been compared with `r` and visited by the caller.
fn explore(v: &TensorView<'_, i32>, r: &NArr, depth_left: usize, level: usize, cfg: &Cfg, st: &mut St) {
    st.max_depth = st.max_depth.max(level - 1);
    if depth_left == 0 {
        return;
    }
    // depth-3 exploration: the last level uses the Tiny item alphabet on nodes of rank >= 3
    let ak = if level == 1 {
        cfg.ak_level1
    } else if cfg.depth >= 3 && depth_left == 1 && r.shape.len() >= 3 {
        AK::Tiny
    } else {
        cfg.ak_deeper
    };
    for act in alphabet(r, level == 1, ak) {
        apply(v, r, &act, st, &mut |nv, nr, st| {
            let d = if st.last_fresh && !cfg.recurse_from_copies { 0 } else { depth_left - 1 };
            if visit(nv, nr, d, st) && d > 0 {
                st.path.push(act.clone());
                explore(nv, nr, depth_left - 1, level + 1, cfg, st);
                st.path.pop();
            } else {
                st.max_depth = st.max_depth.max(level);
            }
        });
    }
}

/// level-1 full slice alphabet, streamed (no recursion; new states get the node checks)
fn full_slices(v: &TensorView<'_, i32>, r: &NArr, profile: &[AK], len: usize, with_copy: bool, st: &mut St) {
    for_each_items(&r.shape.clone(), profile, len, &mut |items| {
        let ok = strict_valid(&r.shape, items);
        let mut k = |nv: &TensorView<'_, i32>, nr: &NArr, st: &mut St| {
            visit(nv, nr, 0, st);
        };
        apply(v, r, &Act::TrySlice(items.to_vec()), st, &mut k);
        if ok {
            apply(v, r, &Act::Slice(items.to_vec()), st, &mut k);
        }
        if with_copy {
            apply(v, r, &Act::SliceCopy(items.to_vec()), st, &mut k);
        }
    });
}

// ---------------------------------------------------------------------------
// Start tensors
// ---------------------------------------------------------------------------

#[derive(Clone, Debug)]
struct StartSpec {
    shape: Vec<usize>,
    /// "contiguous" | "strided" | "spare" | "colmajor" | big-box names
    variant: String,
    axis: usize,
    k: usize,
}

impl StartSpec {
    fn to_json(&self) -> Json {
        json!({"shape": self.shape, "variant": self.variant, "axis": self.axis, "k": self.k})
    }
    fn from_json(v: &Json) -> StartSpec {
        StartSpec {
            shape: v["shape"].as_array().map(|a| a.iter().map(|x| x.as_u64().unwrap() as usize).collect()).unwrap_or_default(),
            variant: v["variant"].as_str().unwrap_or("contiguous").to_string(),
            axis: v["axis"].as_u64().unwrap_or(0) as usize,
            k: v["k"].as_u64().unwrap_or(0) as usize,
        }
    }
}

enum StartBuf {
    Owned(Tensor<i32>),
    Strided { buf: Vec<i32>, off: usize, strides: Vec<usize> },
}

struct StartT {
    buf: StartBuf,
    r: NArr,
}

/// element placement for an explicitly strided buffer: junk everywhere else
fn strided_buf(r: &NArr, strides: &[usize], off: usize, pad: usize) -> Vec<i32> {
    let max_off: usize = r.shape.iter().zip(strides).map(|(&s, &st)| s.saturating_sub(1) * st).sum();
    let mut buf: Vec<i32> = (0..off + max_off + 1 + pad).map(|i| -1000 - i as i32).collect();
    for (k, idx) in indices(&r.shape).iter().enumerate() {
        let o: usize = off + idx.iter().zip(strides).map(|(i, s)| i * s).sum::<usize>();
        buf[o] = r.data[k];
    }
    buf
}

/// column-major strides (axis 0 fastest) multiplied by `mult`, with per-axis gap
fn colmajor_strides(shape: &[usize], mult: usize, gap: bool) -> Vec<usize> {
    let mut s = Vec::with_capacity(shape.len());
    let mut acc = 1usize;
    for &n in shape {
        s.push(acc * mult);
        acc *= if gap { 2 * n + 1 } else { n.max(1) };
    }
    s
}

impl StartT {
    fn build(spec: &StartSpec) -> Option<StartT> {
        let r = NArr::iota(&spec.shape, 0);
        let buf = match spec.variant.as_str() {
            "contiguous" => StartBuf::Owned(Tensor::from_data(spec.shape.as_slice(), r.data.clone())),
            // stepped (step 2, offset 1 on every axis) + transposed view of a bigger buffer
            "strided" => {
                let strides = colmajor_strides(&spec.shape, 2, true);
                let off: usize = colmajor_strides(&spec.shape, 1, true).iter().sum();
                StartBuf::Strided { buf: strided_buf(&r, &strides, off, 3), off, strides }
            }
            // owned, non-contiguous: column-major storage
            "colmajor" => {
                let strides = colmajor_strides(&spec.shape, 1, false);
                let mut buf = strided_buf(&r, &strides, 0, 0);
                if r.data.is_empty() {
                    buf.clear();
                }
                StartBuf::Owned(Tensor::from_data_with_strides(spec.shape.as_slice(), buf, strides.as_slice()).ok()?)
            }
            // owned with spare capacity: with_capacity(full, axis) then append the first k slices
            "spare" => {
                if spec.axis >= spec.shape.len() {
                    return None;
                }
                // spec.shape is the FULL shape; the tensor holds the first k entries along axis
                let mut t = Tensor::<i32>::with_capacity(spec.shape.as_slice(), spec.axis);
                let part = r.slice_axis(spec.axis, 0, spec.k).ok()?;
                let other = Tensor::from_data(part.shape.as_slice(), part.data.clone());
                t.append(spec.axis, &other).ok()?;
                return Some(StartT { buf: StartBuf::Owned(t), r: part });
            }
            _ => return big_start(spec),
        };
        Some(StartT { buf, r })
    }
    fn with_view<T>(&self, f: impl FnOnce(&TensorView<'_, i32>, (usize, usize)) -> T) -> T {
        match &self.buf {
            StartBuf::Owned(t) => {
                let v = t.view();
                let base = (v.data_ptr() as usize, rten_tensor::Storage::len(&v.storage()));
                f(&v, base)
            }
            StartBuf::Strided { buf, off, strides } => {
                let v = TensorView::from_slice_with_strides(self.r.shape.as_slice(), &buf[*off..], strides.as_slice())
                    .unwrap_or_else(|e| vp_core::machinery_error(&format!("C09: cannot build strided start {:?} {strides:?}: {e:?}", self.r.shape)));
                f(&v, (buf.as_ptr() as usize, buf.len()))
            }
        }
    }
}

/// larger / higher-rank starts that reach the special paths of copy.rs
fn big_specs() -> Vec<StartSpec> {
    let s = |shape: &[usize], variant: &str| StartSpec { shape: shape.to_vec(), variant: variant.into(), axis: 0, k: 0 };
    vec![
        s(&[3, 9], "big:inner-lane-9-of-12"),
        s(&[2, 2, 17], "big:inner-lane-17-of-20"),
        s(&[32, 5], "big:transposed-32x5"),
        s(&[37, 6], "big:transposed-37x6"),
        s(&[2, 33, 9], "big:transposed-inner-33x9"),
        s(&[6, 5], "big:strides-2-32"),
        s(&[2, 2, 6, 5], "big:4d-strides-2-32"),
        s(&[2, 2, 2, 2, 2], "big:rank5-reversed"),
        s(&[2, 1, 2, 2, 2, 2], "big:rank6-reversed"),
        s(&[2, 3, 2, 2, 3], "big:rank5-contiguous"),
        s(&[70, 2], "big:transposed-70x2"),
    ]
}

fn big_start(spec: &StartSpec) -> Option<StartT> {
    let r = NArr::iota(&spec.shape, 0);
    let rank = spec.shape.len();
    let rowmajor = |dims: &[usize]| -> Vec<usize> {
        let mut s = vec![0; dims.len()];
        let mut acc = 1;
        for d in (0..dims.len()).rev() {
            s[d] = acc;
            acc *= dims[d];
        }
        s
    };
    let (strides, off): (Vec<usize>, usize) = match spec.variant.as_str() {
        // inner lane contiguous, rows wider than the view
        "big:inner-lane-9-of-12" => (vec![12, 1], 2),
        "big:inner-lane-17-of-20" => (vec![40, 20, 1], 3),
        "big:transposed-32x5" => (vec![1, 32], 0),
        "big:transposed-37x6" => (vec![1, 48], 0),
        "big:transposed-70x2" => (vec![1, 80], 1),
        "big:transposed-inner-33x9" => (vec![9 * 48, 1, 48], 0),
        "big:strides-2-32" => (vec![2, 32], 0),
        "big:4d-strides-2-32" => (vec![400, 200, 2, 32], 1),
        "big:rank5-reversed" | "big:rank6-reversed" => (colmajor_strides(&spec.shape, 1, false), 0),
        "big:rank5-contiguous" => (rowmajor(&spec.shape), 0),
        _ => return None,
    };
    assert_eq!(strides.len(), rank);
    Some(StartT { buf: StartBuf::Strided { buf: strided_buf(&r, &strides, off, 2), off, strides }, r })
}

// ---------------------------------------------------------------------------
// Owned tensors: histories of in-place actions
// ---------------------------------------------------------------------------

#[derive(Clone, Debug, PartialEq)]
enum OAct {
    Permute(Vec<usize>),
    Transpose,
    MoveAxis(usize, usize),
    InsertAxis(usize),
    RemoveAxis(usize),
    MergeAxes,
    ClipDim(usize, usize, usize),
    /// append(axis, other) with `other` of the given shape; strided = column-major view
    Append(usize, Vec<usize>, bool),
    Reshape(Vec<usize>),
    IntoShape(Vec<usize>),
    MakeContiguous,
}

const O_NAMES: [&str; 11] = [
    "permute", "transpose", "move_axis(in place)", "insert_axis(in place)", "remove_axis(in place)", "merge_axes(in place)", "clip_dim", "append",
    "reshape", "into_shape", "make_contiguous",
];

impl OAct {
    fn id(&self) -> usize {
        match self {
            OAct::Permute(_) => 0,
            OAct::Transpose => 1,
            OAct::MoveAxis(..) => 2,
            OAct::InsertAxis(_) => 3,
            OAct::RemoveAxis(_) => 4,
            OAct::MergeAxes => 5,
            OAct::ClipDim(..) => 6,
            OAct::Append(..) => 7,
            OAct::Reshape(_) => 8,
            OAct::IntoShape(_) => 9,
            OAct::MakeContiguous => 10,
        }
    }
    fn name(&self) -> &'static str {
        O_NAMES[self.id()]
    }
    fn to_json(&self) -> Json {
        let a: Vec<i64> = match self {
            OAct::Permute(p) | OAct::Reshape(p) | OAct::IntoShape(p) => is(p),
            OAct::MoveAxis(a, b) => is(&[*a, *b]),
            OAct::InsertAxis(a) | OAct::RemoveAxis(a) => is(&[*a]),
            OAct::ClipDim(a, b, c) => is(&[*a, *b, *c]),
            OAct::Append(ax, shape, strided) => {
                let mut v = vec![*ax as i64, *strided as i64];
                v.extend(is(shape));
                v
            }
            OAct::Transpose | OAct::MergeAxes | OAct::MakeContiguous => vec![],
        };
        json!({"op": self.name(), "a": a, "text": format!("{self:?}")})
    }
    fn from_json(v: &Json) -> OAct {
        let a: Vec<i64> = v["a"].as_array().map(|x| x.iter().map(|y| y.as_i64().unwrap()).collect()).unwrap_or_default();
        let id = O_NAMES.iter().position(|n| Some(*n) == v["op"].as_str()).unwrap_or_else(|| vp_core::machinery_error("C09 replay: unknown owned op"));
        match id {
            0 => OAct::Permute(us(&a)),
            1 => OAct::Transpose,
            2 => OAct::MoveAxis(a[0] as usize, a[1] as usize),
            3 => OAct::InsertAxis(a[0] as usize),
            4 => OAct::RemoveAxis(a[0] as usize),
            5 => OAct::MergeAxes,
            6 => OAct::ClipDim(a[0] as usize, a[1] as usize, a[2] as usize),
            7 => OAct::Append(a[0] as usize, us(&a[2..]), a[1] != 0),
            8 => OAct::Reshape(us(&a)),
            9 => OAct::IntoShape(us(&a)),
            _ => OAct::MakeContiguous,
        }
    }
    fn other(&self, step: usize) -> Option<NArr> {
        if let OAct::Append(_, shape, _) = self { Some(NArr::iota(shape, 1000 * (step as i32 + 1))) } else { None }
    }
    fn reference(&self, r: &NArr, step: usize) -> R<NArr> {
        match self {
            OAct::Permute(p) => r.permuted(p),
            OAct::Transpose => Ok(r.transposed()),
            OAct::MoveAxis(f, t) => r.move_axis(*f, *t),
            OAct::InsertAxis(i) => r.insert_axis(*i),
            OAct::RemoveAxis(i) => r.remove_axis(*i),
            OAct::MergeAxes | OAct::MakeContiguous => Ok(r.clone()),
            OAct::ClipDim(d, a, b) => r.slice_axis(*d, *a, *b),
            OAct::Append(ax, _, _) => r.concat(*ax, &self.other(step).unwrap()),
            OAct::Reshape(s) | OAct::IntoShape(s) => r.reshape(s),
        }
    }
    /// Run on the subject. Ok(note) on success; note carries append side conditions.
    fn run(&self, t: &mut Tensor<i32>, step: usize) -> Result<Option<String>, String> {
        let res = vp_core::catch(|| -> Result<Option<String>, String> {
            match self {
                OAct::Permute(p) => t.permute(p.as_slice()),
                OAct::Transpose => t.transpose(),
                OAct::MoveAxis(f, to) => t.move_axis(*f, *to),
                OAct::InsertAxis(i) => t.insert_axis(*i),
                OAct::RemoveAxis(i) => t.remove_axis(*i),
                OAct::MergeAxes => t.merge_axes(),
                OAct::ClipDim(d, a, b) => t.clip_dim(*d, *a..*b),
                OAct::Append(ax, shape, strided) => {
                    let o = self.other(step).unwrap();
                    let ptr = t.data_ptr() as usize;
                    let before = (t.shape().to_vec(), t.to_vec());
                    let hc = if *ax < t.ndim() && shape.len() == t.ndim() { Some(t.has_capacity(*ax, t.size(*ax) + shape[*ax])) } else { None };
                    let res = if *strided {
                        let strides = colmajor_strides(shape, 1, false);
                        let buf = strided_buf(&o, &strides, 0, 1);
                        let ov = TensorView::from_slice_with_strides(shape.as_slice(), &buf, strides.as_slice()).map_err(|e| format!("harness: {e:?}"))?;
                        t.append(*ax, &ov)
                    } else {
                        let ot = Tensor::from_data(shape.as_slice(), o.data.clone());
                        t.append(*ax, &ot)
                    };
                    return match res {
                        Ok(()) => {
                            let mut note = String::new();
                            if t.data_ptr() as usize != ptr && !before.1.is_empty() {
                                note.push_str("REALLOC ");
                            }
                            if hc == Some(false) {
                                note.push_str("HASCAP-FALSE ");
                            }
                            Ok(if note.is_empty() { None } else { Some(note) })
                        }
                        Err(e) => {
                            if (t.shape().to_vec(), t.to_vec()) != before {
                                return Ok(Some(format!("CHANGED-ON-ERR {e:?}")));
                            }
                            if hc == Some(true) && format!("{e:?}").contains("Capacity") {
                                return Err(format!("HASCAP-TRUE {e:?}"));
                            }
                            Err(format!("{e:?}"))
                        }
                    };
                }
                OAct::Reshape(s) => t.reshape(s.as_slice()),
                OAct::IntoShape(s) => {
                    let old = std::mem::replace(t, Tensor::from_data([0usize].as_slice(), Vec::new()));
                    *t = old.into_shape(s.as_slice());
                }
                OAct::MakeContiguous => t.make_contiguous(),
            }
            Ok(None)
        });
        match res {
            Ok(r) => r,
            Err(p) => Err(format!("panic: {p}")),
        }
    }
}

/// Reduced owned alphabet (used below level 1 when the history depth is 3):
/// permute (all), transpose, make_contiguous, clip_dim (all valid + 2 invalid per
/// axis), append of 0/1/2 entries (contiguous; 1 entry also column-major) on every
/// axis + 1 incompatible, reshape to every factorisation of rank <= 2.
fn owned_alphabet_reduced(r: &NArr) -> Vec<OAct> {
    let rank = r.shape.len();
    let mut v = vec![OAct::Transpose, OAct::MakeContiguous];
    for p in vp_core::odometer::permutations(rank) {
        if p.iter().enumerate().any(|(i, &d)| i != d) {
            v.push(OAct::Permute(p));
        }
    }
    for ax in 0..rank {
        let n = r.shape[ax];
        for a in 0..=n {
            for b in a..=n {
                if (a, b) != (0, n) {
                    v.push(OAct::ClipDim(ax, a, b));
                }
            }
        }
        v.push(OAct::ClipDim(ax, n, n + 1));
        for k in 0..=2usize {
            let mut s = r.shape.clone();
            s[ax] = k;
            v.push(OAct::Append(ax, s.clone(), false));
            if k == 1 {
                v.push(OAct::Append(ax, s, true));
            }
        }
        if rank >= 2 {
            let mut s = r.shape.clone();
            s[ax] = 1;
            s[(ax + 1) % rank] += 1;
            v.push(OAct::Append(ax, s, false));
        }
    }
    v.push(OAct::ClipDim(rank, 0, 0));
    v.push(OAct::Append(rank, r.shape.clone(), false));
    for t in factorisations(r.data.len(), 2) {
        if t != r.shape {
            v.push(OAct::Reshape(t));
        }
    }
    v
}

fn owned_alphabet(r: &NArr) -> Vec<OAct> {
    let rank = r.shape.len();
    let mut v = vec![OAct::Transpose, OAct::MergeAxes, OAct::MakeContiguous];
    for p in vp_core::odometer::permutations(rank) {
        v.push(OAct::Permute(p));
    }
    if rank >= 2 {
        v.push(OAct::Permute(vec![0; rank]));
    }
    for ax in 0..=rank {
        let n = r.shape.get(ax).copied().unwrap_or(1);
        for to in 0..=rank {
            v.push(OAct::MoveAxis(ax, to));
        }
        v.push(OAct::RemoveAxis(ax));
        for a in 0..=n {
            for b in a..=n {
                v.push(OAct::ClipDim(ax, a, b));
            }
        }
        v.push(OAct::ClipDim(ax, n, n + 1));
        v.push(OAct::ClipDim(ax, 1, 0));
        // append: compatible others of size 0,1,2 along the axis; incompatible ones
        for k in 0..=2usize {
            let mut s = r.shape.clone();
            if ax < rank {
                s[ax] = k;
            } else if k > 0 {
                continue;
            }
            for strided in [false, true] {
                v.push(OAct::Append(ax, s.clone(), strided));
            }
        }
        if ax < rank {
            // another dim differs
            if rank >= 2 {
                let mut s = r.shape.clone();
                s[ax] = 1;
                s[(ax + 1) % rank] += 1;
                v.push(OAct::Append(ax, s, false));
            }
            // rank differs
            let mut s = r.shape.clone();
            s[ax] = 1;
            s.push(1);
            v.push(OAct::Append(ax, s, false));
            let mut s = r.shape.clone();
            s.remove(ax);
            v.push(OAct::Append(ax, s, false));
        }
    }
    if rank <= 3 {
        for i in 0..=rank + 1 {
            v.push(OAct::InsertAxis(i));
        }
    }
    let mut targets = factorisations(r.data.len(), 3);
    for s in small_shapes(1) {
        if !targets.contains(&s) {
            targets.push(s);
        }
    }
    for t in targets {
        v.push(OAct::Reshape(t.clone()));
        v.push(OAct::IntoShape(t));
    }
    v
}

struct OSt {
    spec: StartSpec,
    hist: Vec<OAct>,
    ocnt: Vec<Cnt>,
    observations: BTreeMap<String, u64>,
}

fn owned_case(ost: &OSt, last: &OAct) -> Json {
    let mut p: Vec<Json> = ost.hist.iter().map(|a| a.to_json()).collect();
    p.push(last.to_json());
    json!({"box": "owned", "start": ost.spec.to_json(), "path": p})
}

/// rebuild the owned tensor reached by `hist` (every prefix was validated before)
fn owned_rebuild(spec: &StartSpec, hist: &[OAct]) -> Option<Tensor<i32>> {
    let st = StartT::build(spec)?;
    let StartBuf::Owned(mut t) = st.buf else { return None };
    for (i, a) in hist.iter().enumerate() {
        a.run(&mut t, i).ok()?;
    }
    Some(t)
}

/// one owned step on a fresh rebuild; returns the new model state when valid and equal
fn owned_step(ost: &mut OSt, r: &NArr, act: &OAct, st: &mut St) -> Option<(Tensor<i32>, NArr)> {
    let step = ost.hist.len();
    let Some(mut t) = owned_rebuild(&ost.spec, &ost.hist) else {
        vp_core::machinery_error(&format!("C09: cannot rebuild owned history {:?} {:?}", ost.spec, ost.hist));
    };
    st.evals += 1;
    let id = act.id();
    ost.ocnt[id].tried += 1;
    let in_strides = t.strides().to_vec();
    let refres = act.reference(r, step);
    let sub = act.run(&mut t, step);
    match (sub, refres) {
        (Err(msg), Ok(_)) => {
            ost.ocnt[id].subj_err_ref_ok += 1;
            if msg.starts_with("HASCAP-TRUE") {
                *ost.observations.entry("has_capacity() was true but append reported insufficient capacity".into()).or_insert(0) += 1;
            }
            st.subject_error(act.name(), &msg);
            None
        }
        (Err(_), Err(_)) => {
            ost.ocnt[id].both_err += 1;
            None
        }
        (Ok(note), Err(why)) => {
            // an append that returned Err and left the tensor alone shows up as Err above;
            // CHANGED-ON-ERR means Err was returned but the tensor changed
            ost.ocnt[id].violations += 1;
            let what = if note.as_deref().unwrap_or("").starts_with("CHANGED-ON-ERR") { "returns Err but changes the tensor" } else { "succeeds although the model rejects the operation" };
            let case = owned_case(ost, act);
            let sig = format!("{}: {what} ({why})", act.name());
            let detail = format!("model shape {:?}; {:?} -> {} {note:?}", r.shape, act, describe(&t.view()));
            owned_fail(st, sig, case, detail);
            None
        }
        (Ok(note), Ok(mut exp)) => {
            let mut bad: Option<(String, String)> = None;
            if let Some(n) = &note {
                if n.starts_with("CHANGED-ON-ERR") {
                    bad = Some(("returns Err but changes the tensor".into(), n.clone()));
                } else if n.contains("REALLOC") {
                    bad = Some(("re-allocates the storage although documented not to".into(), n.clone()));
                } else if n.contains("HASCAP-FALSE") {
                    *ost.observations.entry("append succeeded although has_capacity() was false".into()).or_insert(0) += 1;
                }
            }
            let tv = t.view();
            if let OAct::MergeAxes = act {
                if r.is_grouping(tv.shape()) {
                    exp.shape = tv.shape().to_vec();
                } else {
                    bad = Some(("result shape is not a merge of consecutive axes".into(), format!("shape {:?} -> {:?}", r.shape, tv.shape())));
                }
            }
            if bad.is_none() {
                if let Some((what, detail)) = compare_caught(&tv, &exp) {
                    let cls = if in_strides.is_empty() || rten_tensor_contig(&r.shape, &in_strides) { "contiguous" } else { "non-contiguous" };
                    bad = Some((format!("{what} [input {cls}]"), format!("{detail}; model shape {:?} elements {:?}", exp.shape, exp.data)));
                }
            }
            if bad.is_none() && matches!(act, OAct::MakeContiguous | OAct::IntoShape(_) | OAct::Reshape(_)) && !tv.is_contiguous() {
                bad = Some(("result is not contiguous".into(), format!("shape {:?} strides {:?}", tv.shape(), tv.strides())));
            }
            if let Some((what, detail)) = bad {
                ost.ocnt[id].violations += 1;
                let case = owned_case(ost, act);
                let sig = format!("{}: {what}", act.name());
                let detail = format!("input shape {:?} strides {in_strides:?}; {act:?}: {detail}", r.shape);
                owned_fail(st, sig, case, detail);
                return None;
            }
            ost.ocnt[id].both_ok += 1;
            drop(tv);
            Some((t, exp))
        }
    }
}

fn owned_fail(st: &mut St, sig: String, case: Json, detail: String) {
    let mut n = 1;
    if let Some(e) = st.fails.get_mut(&sig) {
        e.2 += 1;
        if case_len_of(&e.0) <= case_len_of(&case) {
            return;
        }
        n = e.2;
    }
    st.fails.insert(sig, (case, detail, n));
}

/// naive row-major contiguity (size-1 axes ignored), used only for signature classes
fn rten_tensor_contig(shape: &[usize], strides: &[usize]) -> bool {
    let mut acc = 1;
    for d in (0..shape.len()).rev() {
        if shape[d] != 1 && strides[d] != acc {
            return false;
        }
        acc *= shape[d];
    }
    true
}

fn owned_dfs(ost: &mut OSt, r: &NArr, depth_left: usize, view_level: bool, reduced_below: bool, st: &mut St) {
    st.max_depth = st.max_depth.max(ost.hist.len());
    if depth_left == 0 {
        return;
    }
    let alpha = if reduced_below && !ost.hist.is_empty() { owned_alphabet_reduced(r) } else { owned_alphabet(r) };
    for act in alpha {
        if let Some((t, nr)) = owned_step(ost, r, &act, st) {
            st.max_depth = st.max_depth.max(ost.hist.len() + 1);
            // leaf checks on the owned tensor's view; `path` for leaf failures is the owned history
            let tv = t.view();
            st.base = (tv.data_ptr() as usize, rten_tensor::Storage::len(&tv.storage()));
            st.states += st.visited.len() as u64;
            st.visited.clear();
            st.start = owned_case(ost, &act);
            node_check(&tv, &nr, st);
            if view_level && ost.hist.is_empty() {
                // one level of the reduced view alphabet on top of the owned state
                let cfg = Cfg { depth: 1, recurse_from_copies: false, ak_level1: AK::Small, ak_deeper: AK::Small };
                for va in alphabet(&nr, false, cfg.ak_level1) {
                    apply(&tv, &nr, &va, st, &mut |nv, nr2, st| {
                        visit(nv, nr2, 0, st);
                    });
                }
            }
            if depth_left > 1 {
                ost.hist.push(act.clone());
                owned_dfs(ost, &nr, depth_left - 1, view_level, reduced_below, st);
                ost.hist.pop();
            }
        }
    }
}

// ---------------------------------------------------------------------------
// SliceRange directly
// ---------------------------------------------------------------------------

fn range_box(st: &mut St, max_n: usize) {
    for n in 0..=max_n {
        let ni = n as isize;
        for step in [1isize, 2, 3, -1, -2, -3] {
            for start in -ni - 2..=ni + 2 {
                let ends: Vec<Option<isize>> = std::iter::once(None).chain((-ni - 2..=ni + 2).map(Some)).collect();
                for end in ends {
                    let want = numpy_range(ni, start, end, step);
                    let case = json!({"op": "leaf:SliceRange", "n": n, "start": start, "end": end, "step": step});
                    st.evals += 1;
                    st.c("SliceRange::steps").tried += 1;
                    let sr = SliceRange::new(start, end, step);
                    match vp_core::catch(|| sr.steps(n)) {
                        Ok(k) if k == want.len() => st.c("SliceRange::steps").both_ok += 1,
                        Ok(k) => {
                            st.c("SliceRange::steps").violations += 1;
                            st.fail(
                                format!("SliceRange::steps: differs from the number of selected indices [{}]", if step < 0 { "negative step" } else { "positive step" }),
                                case.clone(),
                                format!("SliceRange({start}, {end:?}, {step}).steps({n}) = {k}, a[{start}:{end:?}:{step}] selects {want:?}"),
                            );
                        }
                        Err(p) => {
                            st.c("SliceRange::steps").subj_err_ref_ok += 1;
                            st.subject_error("SliceRange::steps", &p);
                        }
                    }
                    // resolve_clamped: positive steps count from the start, negative from the end
                    st.evals += 1;
                    st.c("SliceRange::resolve_clamped").tried += 1;
                    match vp_core::catch(|| sr.resolve_clamped(n)) {
                        Ok(rg) => {
                            let first = want.first().copied();
                            let good = if step > 0 {
                                // all selected indices lie in rg, rg.start is the first one, and rg covers exactly ceil(len/step) picks
                                want.iter().all(|i| rg.contains(i)) && (want.is_empty() == rg.is_empty()) && first.map(|f| f == rg.start).unwrap_or(true) && rg.len().div_ceil(step as usize) == want.len()
                            } else {
                                let back: Vec<usize> = want.iter().map(|i| n - 1 - i).collect();
                                back.iter().all(|i| rg.contains(i)) && (want.is_empty() == rg.is_empty()) && back.first().map(|f| *f == rg.start).unwrap_or(true) && rg.len().div_ceil((-step) as usize) == want.len()
                            };
                            if good && rg.end <= n {
                                st.c("SliceRange::resolve_clamped").both_ok += 1;
                            } else {
                                st.c("SliceRange::resolve_clamped").violations += 1;
                                st.fail(
                                    format!("SliceRange::resolve_clamped: range inconsistent with the selected indices [{}]", if step < 0 { "negative step" } else { "positive step" }),
                                    case.clone(),
                                    format!("SliceRange({start}, {end:?}, {step}).resolve_clamped({n}) = {rg:?}, a[{start}:{end:?}:{step}] selects {want:?}"),
                                );
                            }
                        }
                        Err(p) => {
                            st.c("SliceRange::resolve_clamped").subj_err_ref_ok += 1;
                            st.subject_error("SliceRange::resolve_clamped", &p);
                        }
                    }
                    // resolve: Some only when in bounds, and then equal to resolve_clamped
                    st.evals += 1;
                    st.c("SliceRange::resolve").tried += 1;
                    let strict_ok = {
                        let (s, e) = if step > 0 { (norm(start, ni), end.map(|e| norm(e, ni)).unwrap_or(ni)) } else { (norm(start, ni), end.map(|e| norm(e, ni)).unwrap_or(-1)) };
                        if step > 0 { (0..=ni).contains(&s) && (0..=ni).contains(&e) } else { (-1..ni).contains(&s) && (-1..ni).contains(&e) }
                    };
                    match vp_core::catch(|| (sr.resolve(n), sr.resolve_clamped(n))) {
                        Ok((Some(a), b)) => {
                            if !strict_ok {
                                st.c("SliceRange::resolve").violations += 1;
                                st.fail(
                                    format!("SliceRange::resolve: resolves an out-of-bounds range [{}]", if step < 0 { "negative step" } else { "positive step" }),
                                    case.clone(),
                                    format!("SliceRange({start}, {end:?}, {step}).resolve({n}) = Some({a:?})"),
                                );
                            } else if a != b {
                                st.c("SliceRange::resolve").violations += 1;
                                st.fail("SliceRange::resolve: differs from resolve_clamped for an in-bounds range".into(), case.clone(), format!("SliceRange({start}, {end:?}, {step}) n={n}: {a:?} vs {b:?}"));
                            } else {
                                st.c("SliceRange::resolve").both_ok += 1;
                            }
                        }
                        Ok((None, _)) => {
                            if strict_ok {
                                st.c("SliceRange::resolve").subj_err_ref_ok += 1;
                            } else {
                                st.c("SliceRange::resolve").both_err += 1;
                            }
                        }
                        Err(p) => {
                            st.c("SliceRange::resolve").subj_err_ref_ok += 1;
                            st.subject_error("SliceRange::resolve", &p);
                        }
                    }
                }
            }
        }
    }
}

// ---------------------------------------------------------------------------
// Jobs, driver, replay
// ---------------------------------------------------------------------------

#[derive(Clone, Debug)]
enum Job {
    /// chain exploration from one start (level 1: wide alphabet, deeper: reduced)
    Chains(StartSpec),
    /// streamed level-1 slice lists of one length with a per-axis alphabet profile
    Full(StartSpec, Vec<AK>, usize, bool),
    Owned(StartSpec),
    Range,
    Big(StartSpec),
}

struct Params {
    /// chain depth for the "spare" start variant (the other variants use view_depth)
    spare_depth: usize,
    view_depth: usize,
    recurse_from_copies: bool,
    ak_level1: AK,
    ak_deeper: AK,
    /// number of axes that get the Full item alphabet in rank-3 item lists of length 3
    rank3_full_axes: usize,
    owned_depth: usize,
    owned_view_level: bool,
    range_max_n: usize,
}

fn params(ctx: &Ctx) -> Params {
    if ctx.tier.is_thorough() {
        Params { spare_depth: 2, view_depth: 3, recurse_from_copies: false, ak_level1: AK::Mid, ak_deeper: AK::Small, rank3_full_axes: 2, owned_depth: 3, owned_view_level: true, range_max_n: 6 }
    } else {
        Params { spare_depth: 1, view_depth: 2, recurse_from_copies: false, ak_level1: AK::Mid, ak_deeper: AK::Small, rank3_full_axes: 1, owned_depth: 2, owned_view_level: false, range_max_n: 4 }
    }
}

fn view_starts() -> Vec<StartSpec> {
    let mut v = Vec::new();
    for shape in small_shapes(3) {
        v.push(StartSpec { shape: shape.clone(), variant: "contiguous".into(), axis: 0, k: 0 });
        v.push(StartSpec { shape: shape.clone(), variant: "strided".into(), axis: 0, k: 0 });
        if let Some(&last) = shape.last() {
            // owned tensor with one spare slot along the innermost axis
            let mut full = shape.clone();
            *full.last_mut().unwrap() += 1;
            v.push(StartSpec { shape: full, variant: "spare".into(), axis: shape.len() - 1, k: last });
        }
    }
    v
}

fn owned_starts() -> Vec<StartSpec> {
    let mut v = Vec::new();
    for shape in small_shapes(3) {
        v.push(StartSpec { shape: shape.clone(), variant: "contiguous".into(), axis: 0, k: 0 });
        if shape.len() >= 2 {
            v.push(StartSpec { shape: shape.clone(), variant: "colmajor".into(), axis: 0, k: 0 });
        }
        for ax in 0..shape.len() {
            let n = shape[ax];
            let mut ks = vec![0, n.saturating_sub(1)];
            ks.dedup();
            for k in ks {
                v.push(StartSpec { shape: shape.clone(), variant: "spare".into(), axis: ax, k });
            }
        }
    }
    v
}

/// per-axis profiles for the streamed level-1 slice lists
fn full_profiles(rank: usize, len: usize, rank3_full_axes: usize) -> Vec<(Vec<AK>, bool)> {
    if len < 3 {
        return vec![(vec![AK::Full; len], true)];
    }
    debug_assert!(rank == 3 && len == 3);
    let one: Vec<(Vec<AK>, bool)> = (0..3).map(|a| ((0..3).map(|d| if d == a { AK::Full } else { AK::Mid }).collect(), true)).collect();
    if rank3_full_axes < 2 {
        return one;
    }
    let mut two: Vec<(Vec<AK>, bool)> = (0..3).map(|a| ((0..3).map(|d| if d == a { AK::Mid } else { AK::Full }).collect(), false)).collect();
    two.extend(one);
    two
}

fn make_jobs(p: &Params) -> Vec<Job> {
    let mut jobs = vec![Job::Range];
    for s in big_specs() {
        jobs.push(Job::Big(s));
    }
    // biggest first so that the long jobs do not end up at the tail
    let mut vs = view_starts();
    vs.sort_by_key(|s| std::cmp::Reverse(prod(&s.shape)));
    for s in &vs {
        let rank = s.shape.len();
        for len in (1..=rank).rev() {
            for (profile, with_copy) in full_profiles(rank, len, p.rank3_full_axes) {
                jobs.push(Job::Full(s.clone(), profile, len, with_copy));
            }
        }
    }
    for s in &vs {
        jobs.push(Job::Chains(s.clone()));
    }
    let mut os = owned_starts();
    os.sort_by_key(|s| std::cmp::Reverse(prod(&s.shape)));
    for s in os {
        jobs.push(Job::Owned(s));
    }
    jobs
}

fn thread_cpu_s() -> f64 {
    let mut ts = libc::timespec { tv_sec: 0, tv_nsec: 0 };
    unsafe { libc::clock_gettime(libc::CLOCK_THREAD_CPUTIME_ID, &mut ts) };
    ts.tv_sec as f64 + ts.tv_nsec as f64 * 1e-9
}

struct JobOut {
    cpu_s: f64,
    st: St,
    ocnt: Vec<Cnt>,
    observations: BTreeMap<String, u64>,
    skipped: bool,
    sample: Option<Json>,
}

fn run_job(job: &Job, p: &Params) -> JobOut {
    let t0 = thread_cpu_s();
    let mut out = run_job_inner(job, p);
    out.st.states += out.st.visited.len() as u64;
    out.st.visited = HashMap::new();
    out.cpu_s = thread_cpu_s() - t0;
    out
}

fn run_job_inner(job: &Job, p: &Params) -> JobOut {
    let mut out = JobOut { cpu_s: 0.0, st: St::new("view", Json::Null), ocnt: vec![Cnt::default(); O_NAMES.len()], observations: BTreeMap::new(), skipped: false, sample: None };
    match job {
        Job::Range => {
            out.st = St::new("range", json!({"max_n": p.range_max_n}));
            range_box(&mut out.st, p.range_max_n);
        }
        Job::Chains(spec) | Job::Full(spec, ..) | Job::Big(spec) => {
            let boxname = if matches!(job, Job::Big(_)) { "big" } else { "view" };
            out.st = St::new(boxname, spec.to_json());
            let Some(start) = StartT::build(spec) else {
                out.skipped = true;
                return out;
            };
            let st = &mut out.st;
            start.with_view(|v, base| {
                st.base = base;
                // the start itself must match the model
                if let Some((what, detail)) = compare_caught(v, &start.r) {
                    st.fail(format!("start tensor: {what} [{}]", spec.variant), json!({"op": "leaf:start"}), detail);
                    return;
                }
                match job {
                    Job::Chains(_) => {
                        let depth = if spec.variant == "spare" { p.spare_depth } else { p.view_depth };
                        visit(v, &start.r, depth, st);
                        let cfg = Cfg { depth, recurse_from_copies: p.recurse_from_copies, ak_level1: p.ak_level1, ak_deeper: p.ak_deeper };
                        explore(v, &start.r, cfg.depth, 1, &cfg, st);
                    }
                    Job::Full(_, profile, len, with_copy) => full_slices(v, &start.r, profile, *len, *with_copy, st),
                    Job::Big(_) => {
                        visit(v, &start.r, 1, st);
                        let cfg = Cfg { depth: 1, recurse_from_copies: false, ak_level1: AK::Small, ak_deeper: AK::Small };
                        // reduced alphabet, one level
                        for act in alphabet(&start.r, false, cfg.ak_level1) {
                            apply(v, &start.r, &act, st, &mut |nv, nr, st| {
                                visit(nv, nr, 0, st);
                            });
                        }
                    }
                    _ => unreachable!(),
                }
            });
            out.sample = Some(json!({"job": format!("{job:?}").chars().take(160).collect::<String>(), "evaluations": out.st.evals, "distinct_states": out.st.visited.len() as u64 + out.st.states}));
        }
        Job::Owned(spec) => {
            out.st = St::new("owned", spec.to_json());
            let Some(start) = StartT::build(spec) else {
                out.skipped = true;
                return out;
            };
            let mut ost = OSt { spec: spec.clone(), hist: Vec::new(), ocnt: vec![Cnt::default(); O_NAMES.len()], observations: BTreeMap::new() };
            // root check
            let ok = start.with_view(|v, base| {
                out.st.base = base;
                match compare_caught(v, &start.r) {
                    Some((what, detail)) => {
                        out.st.fail(format!("start tensor: {what} [{}]", spec.variant), json!({"op": "leaf:start"}), detail);
                        false
                    }
                    None => {
                        node_check(v, &start.r, &mut out.st);
                        true
                    }
                }
            });
            if ok {
                owned_dfs(&mut ost, &start.r, p.owned_depth, p.owned_view_level, p.owned_depth >= 3, &mut out.st);
            }
            out.sample = Some(json!({"job": format!("{job:?}"), "evaluations": out.st.evals}));
            out.ocnt = ost.ocnt;
            out.observations = ost.observations;
        }
    }
    out
}

fn walk(v: &TensorView<'_, i32>, r: &NArr, path: &[Json], st: &mut St) {
    let leaf_op = path.first().and_then(|p| p["op"].as_str()).map(|o| o.starts_with("leaf:")).unwrap_or(true);
    if leaf_op {
        println!("replay: node shape {:?} strides {:?}: running the node checks", v.shape(), v.strides());
        node_check(v, r, st);
        return;
    }
    let act = Act::from_json(&path[0]);
    println!("replay: {:?} on shape {:?} strides {:?}", act, v.shape(), v.strides());
    let mut reached = false;
    apply(v, r, &act, st, &mut |nv, nr, st| {
        reached = true;
        st.path.push(act.clone());
        walk(nv, nr, &path[1..], st);
        st.path.pop();
    });
    if !reached {
        println!("replay: chain ends here (action failed, was rejected, or a violation was recorded)");
    }
}

fn replay(ctx: Ctx) -> ! {
    let case = vp_core::read_replay_case(ctx.replay.as_ref().unwrap());
    let boxname = case["box"].as_str().unwrap_or("view").to_string();
    let empty = Vec::new();
    let path = case["path"].as_array().unwrap_or(&empty).clone();
    let mut st;
    match boxname.as_str() {
        "range" => {
            st = St::new("range", case["start"].clone());
            let n = path.first().map(|p| p["n"].as_u64().unwrap_or(0)).unwrap_or(0) as usize;
            range_box(&mut st, n);
            // keep only failures of exactly this case
            let want = path.first().cloned().unwrap_or(Json::Null);
            st.fails.retain(|_, f| f.0["path"][0]["n"] == want["n"]);
        }
        "owned" => {
            let spec = StartSpec::from_json(&case["start"]);
            st = St::new("owned", spec.to_json());
            let Some(start) = StartT::build(&spec) else { vp_core::machinery_error("C09 replay: cannot build start") };
            let mut ost = OSt { spec: spec.clone(), hist: Vec::new(), ocnt: vec![Cnt::default(); O_NAMES.len()], observations: BTreeMap::new() };
            let mut r = start.r.clone();
            let mut last: Option<(Tensor<i32>, NArr)> = None;
            for pj in &path {
                let act = OAct::from_json(pj);
                println!("replay: {:?} on model shape {:?}", act, r.shape);
                match owned_step(&mut ost, &r, &act, &mut st) {
                    Some((t, nr)) => {
                        r = nr.clone();
                        last = Some((t, nr));
                        ost.hist.push(act);
                    }
                    None => {
                        last = None;
                        println!("replay: history ends here");
                        break;
                    }
                }
            }
            if let Some((t, nr)) = last {
                let tv = t.view();
                st.base = (tv.data_ptr() as usize, rten_tensor::Storage::len(&tv.storage()));
                let mut c = case.clone();
                c.as_object_mut().map(|o| o.remove("view_path"));
                st.start = c;
                let vp = case["view_path"].as_array().cloned().unwrap_or_default();
                walk(&tv, &nr, &vp, &mut st);
            }
        }
        _ => {
            let spec = StartSpec::from_json(&case["start"]);
            st = St::new(if boxname == "big" { "big" } else { "view" }, spec.to_json());
            let Some(start) = StartT::build(&spec) else { vp_core::machinery_error("C09 replay: cannot build start") };
            let stm = &mut st;
            start.with_view(|v, base| {
                stm.base = base;
                if let Some((what, detail)) = compare_caught(v, &start.r) {
                    stm.fail(format!("start tensor: {what} [{}]", spec.variant), json!({"op": "leaf:start"}), detail);
                    return;
                }
                walk(v, &start.r, &path, stm);
            });
        }
    }
    for (sig, (c, detail, _)) in &st.fails {
        println!("replay: VIOLATION {sig}: {detail}");
        ctx.violation(sig.clone(), c.clone(), detail.clone());
    }
    if st.fails.is_empty() {
        println!("replay: no violation on this case");
    }
    ctx.finish("model_checking", json!({"states": 1, "transitions": st.evals.max(1), "traces_validated_against_impl": 1, "evaluations": st.evals.max(1), "distinct_nontrivial": 2, "rule": "replay of one recorded chain", "samples": [case]}), vec![])
}

pub fn run(ctx: Ctx) -> ! {
    if ctx.replay.is_some() {
        replay(ctx);
    }
    let p = params(&ctx);
    let mut jobs = make_jobs(&p);
    // development aid: VERIF_C09_ONLY=chains|full|owned|big|range restricts the job kinds (never set by ./check)
    let only = std::env::var("VERIF_C09_ONLY").ok();
    if let Some(only) = &only {
        jobs.retain(|j| match j {
            Job::Chains(_) => only == "chains",
            Job::Full(..) => only == "full",
            Job::Owned(_) => only == "owned",
            Job::Big(_) => only == "big",
            Job::Range => only == "range",
        });
    }
    let outs = vp_core::par::map(jobs.len(), |i| run_job(&jobs[i], &p));

    // merge in job order (deterministic first case per signature)
    let mut vcnt = vec![Cnt::default(); A_NAMES.len()];
    let mut ocnt = vec![Cnt::default(); O_NAMES.len()];
    let mut leafcnt: BTreeMap<String, Cnt> = BTreeMap::new();
    let mut subject_errors: BTreeMap<String, u64> = BTreeMap::new();
    let mut observations: BTreeMap<String, u64> = BTreeMap::new();
    let (mut evals, mut nodes, mut nontrivial, mut states, mut skipped, mut max_depth) = (0u64, 0u64, 0u64, 0u64, 0u64, 0usize);
    let mut per_box: BTreeMap<String, (u64, u64, f64)> = BTreeMap::new();
    let mut viol_instances: BTreeMap<String, u64> = BTreeMap::new();
    let samples = Samples::new(8);
    // violations are reported simplest start first (jobs run biggest first for load balance)
    let mut order: Vec<usize> = (0..jobs.len()).collect();
    order.sort_by_key(|&i| match &jobs[i] {
        Job::Range => (0, 0, i),
        // non-empty starts first (smallest first), then empty ones
        Job::Chains(s) | Job::Full(s, ..) | Job::Owned(s) => {
            // the "spare" variant holds only the first k entries along its axis
            let mut sh = s.shape.clone();
            if s.variant == "spare" && s.axis < sh.len() {
                sh[s.axis] = s.k;
            }
            (if prod(&sh) == 0 { 500 + sh.len() } else { prod(&sh) }, sh.len(), i)
        }
        Job::Big(s) => (1000 + prod(&s.shape), s.shape.len(), i),
    });
    let mut cands: Vec<(usize, usize, &String, &Json, &String, u64)> = Vec::new();
    for (rank, &i) in order.iter().enumerate() {
        for (sig, (case, detail, n)) in &outs[i].st.fails {
            *viol_instances.entry(sig.clone()).or_insert(0) += n;
            cands.push((case_len_of(case), rank, sig, case, detail, *n));
        }
    }
    // shortest chain first, then simplest start
    cands.sort_by_key(|c| (c.0, c.1));
    for (_, _, sig, case, detail, n) in cands {
        for _ in 0..n.min(20) {
            ctx.violation(sig.clone(), case.clone(), detail.clone());
        }
    }
    for (i, o) in outs.iter().enumerate() {
        for (k, c) in o.st.vcnt.iter().enumerate() {
            vcnt[k].add(c);
        }
        for (k, c) in o.ocnt.iter().enumerate() {
            ocnt[k].add(c);
        }
        for (k, c) in &o.st.cnt {
            leafcnt.entry(k.clone()).or_default().add(c);
        }
        for (k, n) in &o.st.subject_errors {
            *subject_errors.entry(k.clone()).or_insert(0) += n;
        }
        for (k, n) in &o.observations {
            *observations.entry(k.clone()).or_insert(0) += n;
        }
        evals += o.st.evals;
        nodes += o.st.nodes;
        nontrivial += o.st.nodes_nontrivial;
        states += o.st.states;
        skipped += o.skipped as u64;
        max_depth = max_depth.max(o.st.max_depth);
        let kind = match &jobs[i] {
            Job::Chains(_) => "view.chains",
            Job::Full(..) => "view.level1_full_slices",
            Job::Owned(_) => "owned",
            Job::Range => "range",
            Job::Big(_) => "big",
        };
        let e = per_box.entry(kind.to_string()).or_insert((0, 0, 0.0));
        e.0 += 1;
        e.1 += o.st.evals;
        e.2 += o.cpu_s;
        if i % 97 == 3 || matches!(jobs[i], Job::Big(_)) && i % 4 == 0 {
            if let Some(s) = &o.sample {
                samples.push(|| s.clone());
            }
        }
    }
    for (k, n) in &observations {
        ctx.observe_n(k, *n);
    }
    // subject rejects / panics where the model accepts: observation per action
    for (k, c) in A_NAMES.iter().zip(&vcnt) {
        if c.subj_err_ref_ok > 0 {
            ctx.observe_n(&format!("{k}: subject errs/panics where the model accepts"), c.subj_err_ref_ok);
        }
    }
    for (k, c) in O_NAMES.iter().zip(&ocnt) {
        if c.subj_err_ref_ok > 0 {
            ctx.observe_n(&format!("{k}: subject errs/panics where the model accepts"), c.subj_err_ref_ok);
        }
    }
    // non-vacuity: every action must have succeeded-and-matched often
    for (k, c) in A_NAMES.iter().zip(&vcnt) {
        if c.both_ok < 200 && only.is_none() {
            ctx.machinery(&format!("C09 vacuous: view action {k} matched the model only {} times", c.both_ok));
        }
    }
    for (k, c) in O_NAMES.iter().zip(&ocnt) {
        if c.both_ok < 100 && only.is_none() {
            ctx.machinery(&format!("C09 vacuous: owned action {k} matched the model only {} times", c.both_ok));
        }
    }
    if nontrivial < 1000 {
        ctx.machinery("C09 vacuous: too few non-trivial nodes");
    }
    let per_action: BTreeMap<String, Json> = A_NAMES
        .iter()
        .zip(&vcnt)
        .map(|(k, c)| (k.to_string(), c.to_json()))
        .chain(O_NAMES.iter().zip(&ocnt).map(|(k, c)| (format!("owned.{k}"), c.to_json())))
        .chain(leafcnt.iter().map(|(k, c)| (format!("check.{k}"), c.to_json())))
        .collect();
    let mut top_errors: Vec<(&String, &u64)> = subject_errors.iter().collect();
    top_errors.sort_by_key(|(_, n)| std::cmp::Reverse(**n));
    let top_errors: BTreeMap<String, u64> = top_errors.into_iter().take(40).map(|(k, n)| (k.clone(), *n)).collect();
    let chain_ok: u64 = vcnt.iter().map(|c| c.both_ok).sum::<u64>() + ocnt.iter().map(|c| c.both_ok).sum::<u64>();
    let chain_tried: u64 = vcnt.iter().map(|c| c.tried).sum::<u64>() + ocnt.iter().map(|c| c.tried).sum::<u64>();
    println!(
        "C09: {} jobs, {evals} evaluations, {chain_ok}/{chain_tried} actions ok-and-equal, {nodes} nodes checked ({nontrivial} with >=2 elements), {states} distinct states, max depth {max_depth}, {} violation signatures",
        jobs.len(),
        viol_instances.len()
    );
    let cov = json!({
        "states": states,
        "transitions": chain_tried,
        "traces_validated_against_impl": nodes,
        "explanation": "states = distinct (pointer, storage length, shape, strides) view states / (shape, strides, contents) owned states reached; transitions = actions applied to the real tensor and to the model in lock-step; traces = chains executed on the real rten-tensor objects up to each checked node (there is no separate model run to conform: every explored chain is an implementation execution)",
        "evaluations": evals,
        "distinct_nontrivial": nontrivial,
        "rule": "every action of the stated alphabets is applied to the real tensor and to the NArr model; subject Ok => model Ok and equal shape, equal get(index) for every index, equal iter(); every distinct node additionally runs to_vec/to_slice/iter.rev/data/copy_into_slice/copy_from/get(out of range). non-trivial = checked nodes with >= 2 elements",
        "samples": samples.take(),
        "exhaustive": only.is_none(),
        "jobs": jobs.len(),
        "jobs_per_box(jobs,evaluations,cpu_s)": per_box.iter().map(|(k, v)| (k.to_string(), json!([v.0, v.1, (v.2 * 10.0).round() / 10.0]))).collect::<BTreeMap<String, Json>>(),
        "cpu_s_total": (per_box.values().map(|v| v.2).sum::<f64>() * 10.0).round() / 10.0,
        "starts_skipped(not constructible)": skipped,
        "nodes_checked": nodes,
        "distinct_states": states,
        "max_chain_depth": max_depth,
        "actions_ok_and_equal": chain_ok,
        "actions_tried": chain_tried,
        "per_action": per_action,
        "subject_error_messages(top)": top_errors,
        "violation_instances_by_signature": viol_instances,
        "box": {
            "starts": "every shape of rank<=3 over sizes {0,1,2,3} as: contiguous owned tensor; strided view (step 2, offset 1, axes reversed in memory) of a bigger buffer; owned tensor built with with_capacity+append with one spare slot on the innermost axis",
            "level1_slices": format!("try_slice (+slice when valid, +slice_copy) with every item list of length 1..=rank; per axis Full = {{Index(i): i in -n-1..=n}} + {{a..b;step: a in -n-1..=n+1, b in None|-n-1..=n+1, step in +-1..3}}; rank<=2 and lengths<=2: Full on every axis; rank 3 length 3: {} axes Full x others Mid(13 items) for every choice of axes (slice_copy on the 1-Full profiles)", p.rank3_full_axes),
            "chain_alphabet": "try_slice/slice_copy (+slice: level 1 every valid list, all levels lists of length<=1 and the too-long list) item lists of every length 0..=rank+1 over the per-axis alphabet (level 1: Mid 13 items, deeper: Small 6 items, rank>=4: Small; when the chain depth is 3 the last level uses Tiny = {full, Index(0), 1.., reversed} on nodes of rank>=3), slice_axis (all a<=b<=n + 2 invalid), index_axis (0..=n), split_at (every axis incl. rank, mid 0..=n+1, both halves), every permutation (+3 invalid), transposed, move_axis (0..=rank)^2, insert_axis 0..=rank+1, remove_axis 0..=rank, merge_axes, squeezed, broadcast/try_broadcast to every shape of rank<=3 (level 1: <=4) over {0,1,2,3}, reshaped/to_shape to every ordered factorisation of len with rank<=3 (level 1: <=4) + all shapes of rank<=2 over {0..3}, to_contiguous, to_tensor, map",
            "chain_depth": p.view_depth,
            "chain_depth_spare_variant": p.spare_depth,
            "chains_continue_from_copies": p.recurse_from_copies,
            "owned": format!("starts: contiguous, column-major owned, with_capacity(shape, axis)+append(first k) for every axis and k in {{0, n-1}}; histories of depth {} over permute (all + invalid), transpose, move_axis, insert_axis, remove_axis, merge_axes, clip_dim (all a<=b<=n + 2 invalid), append (every axis incl. rank; other of size 0,1,2 contiguous and column-major; 3 incompatible others), reshape/into_shape (every factorisation rank<=3 + rank<=1 shapes), make_contiguous{}{}", p.owned_depth, if p.owned_depth >= 3 { "; below level 1 the reduced owned alphabet: non-identity permutes, transpose, make_contiguous, clip_dim (all proper + 2 invalid), append 0/1/2 entries contiguous + 1 entry column-major + 1 incompatible per axis + axis==rank, reshape to factorisations of rank<=2" } else { "" }, if p.owned_view_level { "; one level of the Small view alphabet on every owned state reached by 1 action" } else { "" }),
            "range": format!("SliceRange::steps/resolve/resolve_clamped for n<= {}, start,end in -n-2..=n+2 (+None), step in +-1..3", p.range_max_n),
            "big": big_specs().iter().map(|s| format!("{} {:?}", s.variant, s.shape)).collect::<Vec<_>>(),
        },
    });
    ctx.finish(
        "model_checking",
        cov,
        vec![
            "view states are de-duplicated per start by (data pointer, storage length, shape, strides); views of buffers created inside a chain by (storage length, shape, strides, logical contents)".into(),
            "slice/try_slice reference: strict (out-of-bounds index or range endpoint, negative step => invalid); slice_copy reference: NumPy semantics (endpoints clamped, negative steps), indices strict".into(),
            "merge_axes: any grouping of consecutive axes that preserves the element order is accepted".into(),
            "start tensors are built with from_data / from_slice_with_strides / from_data_with_strides / with_capacity+append and compared with the model before use".into(),
        ],
    )
}
