//! History exploration of tensor iterators (shared by C07 and the iteration
//! part of C06).
//!
//! For one layout and one iterator kind, every history of at most `depth`
//! actions over {next, next_back, nth(0|1|2), fold, split_at(k)} is executed
//! on a fresh real iterator (re-execution from scratch: iterators are not
//! Clone in general), in lock-step with a reference that is just a window
//! [lo, hi) into the expected item sequence. After every history the pieces
//! are drained to completion in four different ways (front, back, alternating,
//! fold), so executions always run to the end.

use std::collections::{BTreeSet, HashSet};

use rten_base::iter::SplitIterator;

use crate::layouts::Lay;

/// Fingerprint of a yielded item: the sub-view's shape (empty for elements)
/// and the storage offsets of its elements in row-major order, derived from
/// *addresses* (never from values), so wrong, duplicated and skipped items are
/// all visible even for broadcast layouts.
#[derive(Clone, Debug, PartialEq, Eq, Hash)]
pub struct Fp {
    pub shape: Vec<usize>,
    pub offs: Vec<isize>,
}

pub trait Piece: Sized {
    type Item;
    const CAN_SPLIT: bool;
    fn p_next(&mut self) -> Option<Self::Item>;
    fn p_next_back(&mut self) -> Option<Self::Item>;
    fn p_nth(&mut self, n: usize) -> Option<Self::Item>;
    fn p_len(&self) -> usize;
    fn p_size_hint(&self) -> (usize, Option<usize>);
    fn p_fold(self, f: &mut dyn FnMut(Self::Item));
    fn p_split(self, k: usize) -> (Self, Self);
}

pub struct Sp<I>(pub I);
pub struct NoSp<I>(pub I);

impl<I: DoubleEndedIterator + ExactSizeIterator + SplitIterator> Piece for Sp<I> {
    type Item = I::Item;
    const CAN_SPLIT: bool = true;
    fn p_next(&mut self) -> Option<I::Item> {
        self.0.next()
    }
    fn p_next_back(&mut self) -> Option<I::Item> {
        self.0.next_back()
    }
    fn p_nth(&mut self, n: usize) -> Option<I::Item> {
        self.0.nth(n)
    }
    fn p_len(&self) -> usize {
        self.0.len()
    }
    fn p_size_hint(&self) -> (usize, Option<usize>) {
        self.0.size_hint()
    }
    fn p_fold(self, f: &mut dyn FnMut(I::Item)) {
        self.0.fold((), |(), x| f(x))
    }
    fn p_split(self, k: usize) -> (Self, Self) {
        let (l, r) = self.0.split_at(k);
        (Sp(l), Sp(r))
    }
}

impl<I: DoubleEndedIterator + ExactSizeIterator> Piece for NoSp<I> {
    type Item = I::Item;
    const CAN_SPLIT: bool = false;
    fn p_next(&mut self) -> Option<I::Item> {
        self.0.next()
    }
    fn p_next_back(&mut self) -> Option<I::Item> {
        self.0.next_back()
    }
    fn p_nth(&mut self, n: usize) -> Option<I::Item> {
        self.0.nth(n)
    }
    fn p_len(&self) -> usize {
        self.0.len()
    }
    fn p_size_hint(&self) -> (usize, Option<usize>) {
        self.0.size_hint()
    }
    fn p_fold(self, f: &mut dyn FnMut(I::Item)) {
        self.0.fold((), |(), x| f(x))
    }
    fn p_split(self, _k: usize) -> (Self, Self) {
        unreachable!()
    }
}

/// An iterator kind: how to make the real iterator over a storage buffer with
/// layout `lay`, how to fingerprint its items, and what the reference says the
/// item sequence is.
pub trait Kind: Sync {
    type P<'a>: Piece
    where
        Self: 'a;
    /// mutable iterators must never hand out one element twice
    const UNIQUE: bool;
    fn name(&self) -> String;
    /// None if this kind does not apply to the layout
    fn expected(&self, lay: &Lay) -> Option<Vec<Fp>>;
    fn make<'a>(&'a self, data: &'a mut [i32], lay: &Lay) -> Self::P<'a>;
    fn ident<'a>(&self, base: *const i32, item: <Self::P<'a> as Piece>::Item) -> Fp;
}

#[derive(Clone, Copy, Debug, PartialEq, Eq, Hash)]
pub enum Act {
    Next(u8),
    NextBack(u8),
    Nth(u8, u8),
    Fold(u8),
    Split(u8, u16),
}

impl Act {
    pub fn name(&self) -> String {
        match self {
            Act::Next(_) => "next".into(),
            Act::NextBack(_) => "next_back".into(),
            Act::Nth(_, n) => format!("nth({n})"),
            Act::Fold(_) => "fold".into(),
            Act::Split(..) => "split_at".into(),
        }
    }
    pub fn to_json(&self) -> vp_core::Json {
        use vp_core::json;
        match self {
            Act::Next(p) => json!(["next", p]),
            Act::NextBack(p) => json!(["next_back", p]),
            Act::Nth(p, n) => json!(["nth", p, n]),
            Act::Fold(p) => json!(["fold", p]),
            Act::Split(p, k) => json!(["split_at", p, k]),
        }
    }
    pub fn from_json(v: &vp_core::Json) -> Act {
        let p = v[1].as_u64().unwrap_or(0) as u8;
        let a = v[2].as_u64().unwrap_or(0);
        match v[0].as_str().unwrap_or("") {
            "next" => Act::Next(p),
            "next_back" => Act::NextBack(p),
            "nth" => Act::Nth(p, a as u8),
            "fold" => Act::Fold(p),
            _ => Act::Split(p, a as u16),
        }
    }
}

#[derive(Clone, Copy, Debug, PartialEq, Eq)]
pub enum Drain {
    Front,
    Back,
    Alternate,
    Fold,
}

pub const DRAINS: [Drain; 4] = [Drain::Front, Drain::Back, Drain::Alternate, Drain::Fold];

#[derive(Debug)]
pub struct Fail {
    /// "wrong-item", "wrong-len", "dup-mut", "oob", "panic", "not-none"
    pub what: &'static str,
    /// action (or drain step) at which it showed
    pub at: String,
    /// kinds of actions applied earlier to the failing piece's lineage
    pub lineage: BTreeSet<String>,
    pub detail: String,
}

struct Live<P> {
    it: Option<P>,
    lo: usize,
    hi: usize,
    lineage: BTreeSet<String>,
}

/// Reference state after a history: the [lo,hi) window of each piece.
pub type RefState = Vec<Option<(usize, usize)>>;

struct Checker<'e> {
    expected: &'e [Fp],
    unique: bool,
    storage: usize,
    seen: HashSet<isize>,
}

impl Checker<'_> {
    fn check_item(&mut self, got: Option<Fp>, want_idx: Option<usize>) -> Result<(), (&'static str, String)> {
        match (got, want_idx) {
            (None, None) => Ok(()),
            (Some(g), None) => Err(("not-none", format!("yielded {:?} although the reference is exhausted", g))),
            (None, Some(i)) => Err(("wrong-item", format!("yielded None, expected item #{i} {:?}", self.expected[i]))),
            (Some(g), Some(i)) => {
                self.check_safety(&g)?;
                if g != self.expected[i] {
                    return Err(("wrong-item", format!("yielded {:?}, expected item #{i} {:?}", g, self.expected[i])));
                }
                Ok(())
            }
        }
    }

    /// Memory-safety part of the check: the item's addresses lie inside the
    /// storage and (mutable iterators) were not handed out before.
    fn check_safety(&mut self, g: &Fp) -> Result<(), (&'static str, String)> {
        for &o in &g.offs {
            if o < 0 || o as usize >= self.storage {
                return Err(("oob", format!("item address offset {o} outside storage of {} elements", self.storage)));
            }
        }
        if self.unique {
            for &o in &g.offs {
                if !self.seen.insert(o) {
                    return Err(("dup-mut", format!("mutable iterator handed out element at offset {o} twice")));
                }
            }
        }
        Ok(())
    }
}

fn check_lens<P: Piece>(pieces: &[Live<P>]) -> Result<(), Fail> {
    for (pi, p) in pieces.iter().enumerate() {
        if let Some(it) = &p.it {
            let n = p.hi - p.lo;
            let l = it.p_len();
            let sh = it.p_size_hint();
            if l != n || sh != (n, Some(n)) {
                return Err(Fail {
                    what: "wrong-len",
                    at: "len".into(),
                    lineage: p.lineage.clone(),
                    detail: format!("piece {pi}: len()={l} size_hint={sh:?}, reference remaining {n}"),
                });
            }
        }
    }
    Ok(())
}

/// Execute `hist` then drain. Returns the reference state reached by `hist`
/// (before draining) or the first failure.
pub fn run<K: Kind>(
    kind: &K,
    lay: &Lay,
    expected: &[Fp],
    hist: &[Act],
    drain: Drain,
) -> Result<RefState, Fail> {
    let mut data: Vec<i32> = (0..lay.storage as i32).collect();
    let base = data.as_ptr();
    let storage = lay.storage;
    let res = vp_core::catch(|| run_inner(kind, lay, &mut data, base, storage, expected, hist, drain));
    match res {
        Ok(r) => r,
        Err(msg) => Err(Fail { what: "panic", at: "history".into(), lineage: BTreeSet::new(), detail: msg }),
    }
}

#[allow(clippy::too_many_arguments)]
fn run_inner<K: Kind>(
    kind: &K,
    lay: &Lay,
    data: &mut [i32],
    base: *const i32,
    storage: usize,
    expected: &[Fp],
    hist: &[Act],
    drain: Drain,
) -> Result<RefState, Fail> {
    let root = kind.make(data, lay);
    let mut ck = Checker { expected, unique: K::UNIQUE, storage, seen: HashSet::new() };
    let mut pieces: Vec<Live<K::P<'_>>> =
        vec![Live { it: Some(root), lo: 0, hi: expected.len(), lineage: BTreeSet::new() }];
    check_lens(&pieces)?;
    for act in hist {
        let fail = |p: &Live<K::P<'_>>, e: (&'static str, String)| Fail {
            what: e.0,
            at: act.name(),
            lineage: p.lineage.clone(),
            detail: e.1,
        };
        match *act {
            Act::Next(pi) => {
                let p = &mut pieces[pi as usize];
                let got = p.it.as_mut().unwrap().p_next().map(|x| kind.ident(base, x));
                let want = if p.lo < p.hi { Some(p.lo) } else { None };
                ck.check_item(got, want).map_err(|e| fail(p, e))?;
                if want.is_some() {
                    p.lo += 1;
                }
                p.lineage.insert("next".into());
            }
            Act::NextBack(pi) => {
                let p = &mut pieces[pi as usize];
                let got = p.it.as_mut().unwrap().p_next_back().map(|x| kind.ident(base, x));
                let want = if p.lo < p.hi { Some(p.hi - 1) } else { None };
                ck.check_item(got, want).map_err(|e| fail(p, e))?;
                if want.is_some() {
                    p.hi -= 1;
                }
                p.lineage.insert("next_back".into());
            }
            Act::Nth(pi, n) => {
                let p = &mut pieces[pi as usize];
                let n = n as usize;
                let got = p.it.as_mut().unwrap().p_nth(n).map(|x| kind.ident(base, x));
                let want = if p.lo + n < p.hi { Some(p.lo + n) } else { None };
                ck.check_item(got, want).map_err(|e| fail(p, e))?;
                p.lo = (p.lo + n + 1).min(p.hi);
                p.lineage.insert("nth".into());
            }
            Act::Fold(pi) => {
                let p = &mut pieces[pi as usize];
                let it = p.it.take().unwrap();
                let mut got = Vec::new();
                it.p_fold(&mut |x| got.push(kind.ident(base, x)));
                fold_check(&mut ck, &got, p.lo, p.hi).map_err(|e| fail(p, e))?;
                p.lo = p.hi;
            }
            Act::Split(pi, k) => {
                let k = k as usize;
                let p = &mut pieces[pi as usize];
                let it = p.it.take().unwrap();
                let (l, r) = it.p_split(k);
                let (lo, hi) = (p.lo, p.hi);
                let mut ll = p.lineage.clone();
                let mut rl = p.lineage.clone();
                ll.insert("split(left)".into());
                rl.insert("split(right)".into());
                p.it = Some(l);
                p.hi = lo + k;
                p.lineage = ll;
                pieces.push(Live { it: Some(r), lo: lo + k, hi, lineage: rl });
            }
        }
        check_lens(&pieces).map_err(|mut f| {
            f.at = format!("len after {}", act.name());
            f
        })?;
    }
    let state: RefState = pieces.iter().map(|p| p.it.as_ref().map(|_| (p.lo, p.hi))).collect();

    // Drain every remaining piece to completion.
    for p in pieces.iter_mut() {
        let Some(mut it) = p.it.take() else { continue };
        let mk = |what: &'static str, at: &str, detail: String, p: &Live<K::P<'_>>| Fail {
            what,
            at: at.to_string(),
            lineage: p.lineage.clone(),
            detail,
        };
        match drain {
            Drain::Fold => {
                let mut got = Vec::new();
                it.p_fold(&mut |x| got.push(kind.ident(base, x)));
                fold_check(&mut ck, &got, p.lo, p.hi).map_err(|e| mk(e.0, "fold", e.1, p))?;
                p.lo = p.hi;
            }
            Drain::Front | Drain::Back | Drain::Alternate => {
                let mut front = drain != Drain::Back;
                loop {
                    let (got, want, at) = if front {
                        let g = it.p_next().map(|x| kind.ident(base, x));
                        (g, if p.lo < p.hi { Some(p.lo) } else { None }, "next")
                    } else {
                        let g = it.p_next_back().map(|x| kind.ident(base, x));
                        (g, if p.lo < p.hi { Some(p.hi - 1) } else { None }, "next_back")
                    };
                    ck.check_item(got, want).map_err(|e| mk(e.0, at, e.1, p))?;
                    if want.is_none() {
                        break;
                    }
                    if front {
                        p.lo += 1;
                    } else {
                        p.hi -= 1;
                    }
                    p.lineage.insert(at.to_string());
                    let n = p.hi - p.lo;
                    if it.p_len() != n || it.p_size_hint() != (n, Some(n)) {
                        return Err(mk(
                            "wrong-len",
                            &format!("len after {at}"),
                            format!("len()={} size_hint={:?}, reference remaining {n}", it.p_len(), it.p_size_hint()),
                            p,
                        ));
                    }
                    if drain == Drain::Alternate {
                        front = !front;
                    }
                }
            }
        }
    }
    Ok(state)
}

fn fold_check(ck: &mut Checker, got: &[Fp], lo: usize, hi: usize) -> Result<(), (&'static str, String)> {
    // Memory safety first: a fold that runs past its window hands out elements
    // that belong to another piece, which is aliasing for mutable iterators.
    for g in got {
        ck.check_safety(g)?;
    }
    if got.len() != hi - lo {
        return Err(("wrong-item", format!("fold visited {} items, reference has {} remaining", got.len(), hi - lo)));
    }
    for (j, g) in got.iter().enumerate() {
        if *g != ck.expected[lo + j] {
            return Err(("wrong-item", format!("fold yielded {:?}, expected item #{} {:?}", g, lo + j, ck.expected[lo + j])));
        }
    }
    Ok(())
}

pub struct Bounds {
    pub depth: usize,
    pub max_splits: usize,
    /// all split points 0..=len (true) or {0,1,len/2,len-1,len}
    pub all_split_points: bool,
}

#[derive(Default, Clone, Debug)]
pub struct KStats {
    pub histories: u64,
    pub traces: u64,
    pub items_checked: u64,
    pub ref_states: HashSet<Vec<(usize, usize)>>,
    pub max_depth: usize,
}

fn enabled<K: Kind>(state: &RefState, hist: &[Act], b: &Bounds) -> Vec<Act> {
    let mut out = Vec::new();
    let splits = hist.iter().filter(|a| matches!(a, Act::Split(..))).count();
    let live = state.iter().filter(|s| s.is_some()).count();
    for (pi, s) in state.iter().enumerate() {
        let Some((lo, hi)) = *s else { continue };
        let n = hi - lo;
        let pi8 = pi as u8;
        if n > 0 {
            out.push(Act::Next(pi8));
            out.push(Act::NextBack(pi8));
            out.push(Act::Nth(pi8, 0));
            out.push(Act::Nth(pi8, 1));
            out.push(Act::Nth(pi8, 2));
        }
        if live > 1 && n > 0 {
            out.push(Act::Fold(pi8));
        }
        if <K::P<'_> as Piece>::CAN_SPLIT && splits < b.max_splits {
            let pts: Vec<usize> = if b.all_split_points {
                (0..=n).collect()
            } else {
                let mut v = vec![0, 1.min(n), n / 2, n.saturating_sub(1), n];
                v.sort();
                v.dedup();
                v
            };
            for k in pts {
                out.push(Act::Split(pi8, k as u16));
            }
        }
    }
    out
}

/// Depth-first enumeration of every history up to the bounds. `report` is
/// called once for each failing history (its extensions are not explored).
pub fn explore<K: Kind>(
    kind: &K,
    lay: &Lay,
    expected: &[Fp],
    b: &Bounds,
    stats: &mut KStats,
    report: &mut dyn FnMut(&[Act], Drain, &Fail),
) {
    let mut hist: Vec<Act> = Vec::new();
    dfs(kind, lay, expected, b, stats, report, &mut hist);
}

fn dfs<K: Kind>(
    kind: &K,
    lay: &Lay,
    expected: &[Fp],
    b: &Bounds,
    stats: &mut KStats,
    report: &mut dyn FnMut(&[Act], Drain, &Fail),
    hist: &mut Vec<Act>,
) {
    stats.histories += 1;
    stats.max_depth = stats.max_depth.max(hist.len());
    let mut state = None;
    for d in DRAINS {
        stats.traces += 1;
        match run(kind, lay, expected, hist, d) {
            Ok(s) => state = Some(s),
            Err(f) => {
                report(hist, d, &f);
                return;
            }
        }
    }
    stats.items_checked += expected.len() as u64 * DRAINS.len() as u64;
    let state = state.unwrap();
    let mut key: Vec<(usize, usize)> = state.iter().flatten().copied().collect();
    key.sort();
    stats.ref_states.insert(key);
    if hist.len() >= b.depth {
        return;
    }
    for a in enabled::<K>(&state, hist, b) {
        hist.push(a);
        dfs(kind, lay, expected, b, stats, report, hist);
        hist.pop();
    }
}
