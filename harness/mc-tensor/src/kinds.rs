//! The iterator kinds explored by C07 / C06: how each real rten iterator is
//! created over a layout, how its items are fingerprinted, and what the naive
//! reference says its item sequence is.

use std::rc::Rc;

use rten_tensor::prelude::*;
use rten_tensor::{TensorView, TensorViewMut};

use crate::iterx::{Fp, Kind, NoSp, Piece, Sp};
use crate::layouts::{Lay, indices};

fn off_of(base: *const i32, p: *const i32) -> isize {
    (p as isize - base as isize) / std::mem::size_of::<i32>() as isize
}

fn elem_fp(base: *const i32, p: *const i32) -> Fp {
    Fp { shape: vec![], offs: vec![off_of(base, p)] }
}

/// Fingerprint a sub-view through `get(index)` only.
fn view_fp<V: AsView<Elem = i32>>(base: *const i32, v: &V) -> Fp {
    let d = v.as_dyn();
    let shape: Vec<usize> = d.shape().to_vec();
    let offs = indices(&shape)
        .iter()
        .map(|idx| match d.get(idx.as_slice()) {
            Some(r) => off_of(base, r as *const i32),
            None => -1,
        })
        .collect();
    Fp { shape, offs }
}

fn ro_view<'a>(data: &'a [i32], lay: &Lay) -> TensorView<'a, i32> {
    TensorView::from_slice_with_strides(&lay.shape, data, &lay.strides).expect("layout rejected by from_slice_with_strides")
}

fn rw_view<'a>(data: &'a mut [i32], lay: &Lay) -> TensorViewMut<'a, i32> {
    TensorViewMut::from_data_with_strides(&lay.shape, data, &lay.strides).expect("layout rejected by from_data_with_strides")
}

/// Keeps a heap-allocated parent view alive for as long as an iterator that
/// borrows it (mutable iterators are only obtainable through `&mut view`).
pub struct Hold<P, V> {
    it: P,
    _keep: Rc<Box<V>>,
}

impl<P: Piece, V> Piece for Hold<P, V> {
    type Item = P::Item;
    const CAN_SPLIT: bool = P::CAN_SPLIT;
    fn p_next(&mut self) -> Option<P::Item> {
        self.it.p_next()
    }
    fn p_next_back(&mut self) -> Option<P::Item> {
        self.it.p_next_back()
    }
    fn p_nth(&mut self, n: usize) -> Option<P::Item> {
        self.it.p_nth(n)
    }
    fn p_len(&self) -> usize {
        self.it.p_len()
    }
    fn p_size_hint(&self) -> (usize, Option<usize>) {
        self.it.p_size_hint()
    }
    fn p_fold(self, f: &mut dyn FnMut(P::Item)) {
        let Hold { it, _keep } = self;
        it.p_fold(f);
        drop(_keep);
    }
    fn p_split(self, k: usize) -> (Self, Self) {
        let Hold { it, _keep } = self;
        let (l, r) = it.p_split(k);
        (Hold { it: l, _keep: _keep.clone() }, Hold { it: r, _keep })
    }
}

/// Create an iterator borrowing a boxed mutable view, extending the borrow to
/// the storage lifetime. Sound because the box is kept alive (and never
/// touched) by `Hold` until after the iterator is dropped.
fn hold_mut<'a, P, F>(view: TensorViewMut<'a, i32>, f: F) -> Hold<P, TensorViewMut<'a, i32>>
where
    F: FnOnce(&'a mut TensorViewMut<'a, i32>) -> P,
{
    let mut b = Box::new(view);
    let r: &'a mut TensorViewMut<'a, i32> = unsafe { &mut *(b.as_mut() as *mut TensorViewMut<'a, i32>) };
    let it = f(r);
    Hold { it, _keep: Rc::new(b) }
}

/// Mutable iteration is defined only for layouts without internal overlap;
/// rten additionally refuses (panics with a message) any layout with a zero
/// stride, even on a size-1 axis, so those are not part of the mutable box.
fn no_mut(lay: &Lay) -> bool {
    lay.overlaps() || lay.strides.contains(&0)
}

fn removed(shape: &[usize], d: usize) -> Vec<usize> {
    let mut s = shape.to_vec();
    s.remove(d);
    s
}

fn with_inserted(idx: &[usize], d: usize, v: usize) -> Vec<usize> {
    let mut i = idx.to_vec();
    i.insert(d, v);
    i
}

// ---------- expected sequences ----------

pub fn exp_elements(lay: &Lay) -> Vec<Fp> {
    indices(&lay.shape).iter().map(|i| Fp { shape: vec![], offs: vec![lay.offset(i) as isize] }).collect()
}

pub fn exp_lanes(lay: &Lay, d: usize) -> Option<Vec<Fp>> {
    if d >= lay.ndim() {
        return None;
    }
    // A tensor with a zero-sized lane dimension but non-empty other dims: the
    // property does not say whether that is "no lanes" or "N empty lanes".
    if lay.shape[d] == 0 && removed(&lay.shape, d).iter().product::<usize>() > 0 {
        return None;
    }
    let outer = removed(&lay.shape, d);
    Some(
        indices(&outer)
            .iter()
            .map(|o| Fp {
                shape: vec![lay.shape[d]],
                offs: (0..lay.shape[d]).map(|i| lay.offset(&with_inserted(o, d, i)) as isize).collect(),
            })
            .collect(),
    )
}

pub fn exp_inner(lay: &Lay, n: usize) -> Option<Vec<Fp>> {
    let r = lay.ndim();
    if n > r {
        return None;
    }
    let outer = &lay.shape[..r - n];
    let inner = &lay.shape[r - n..];
    Some(
        indices(outer)
            .iter()
            .map(|o| Fp {
                shape: inner.to_vec(),
                offs: indices(inner)
                    .iter()
                    .map(|i| {
                        let mut idx = o.clone();
                        idx.extend_from_slice(i);
                        lay.offset(&idx) as isize
                    })
                    .collect(),
            })
            .collect(),
    )
}

pub fn exp_axis_iter(lay: &Lay, d: usize) -> Option<Vec<Fp>> {
    if d >= lay.ndim() {
        return None;
    }
    let rest = removed(&lay.shape, d);
    Some(
        (0..lay.shape[d])
            .map(|i| Fp {
                shape: rest.clone(),
                offs: indices(&rest).iter().map(|o| lay.offset(&with_inserted(o, d, i)) as isize).collect(),
            })
            .collect(),
    )
}

pub fn exp_axis_chunks(lay: &Lay, d: usize, c: usize) -> Option<Vec<Fp>> {
    if d >= lay.ndim() || c == 0 {
        return None;
    }
    let mut out = Vec::new();
    let mut start = 0;
    while start < lay.shape[d] {
        let n = c.min(lay.shape[d] - start);
        let mut shape = lay.shape.clone();
        shape[d] = n;
        let offs = indices(&shape)
            .iter()
            .map(|i| {
                let mut idx = i.clone();
                idx[d] += start;
                lay.offset(&idx) as isize
            })
            .collect();
        out.push(Fp { shape, offs });
        start += c;
    }
    Some(out)
}

// ---------- kinds ----------

pub struct KIter;
impl Kind for KIter {
    type P<'a> = Sp<rten_tensor::iterators::Iter<'a, i32>>;
    const UNIQUE: bool = false;
    fn name(&self) -> String {
        "iter".into()
    }
    fn expected(&self, lay: &Lay) -> Option<Vec<Fp>> {
        Some(exp_elements(lay))
    }
    fn make<'a>(&'a self, data: &'a mut [i32], lay: &Lay) -> Self::P<'a> {
        Sp(ro_view(data, lay).iter())
    }
    fn ident<'a>(&self, base: *const i32, item: &'a i32) -> Fp {
        elem_fp(base, item)
    }
}

pub struct KIterMut;
impl Kind for KIterMut {
    type P<'a> = Hold<Sp<rten_tensor::iterators::IterMut<'a, i32>>, TensorViewMut<'a, i32>>;
    const UNIQUE: bool = true;
    fn name(&self) -> String {
        "iter_mut".into()
    }
    fn expected(&self, lay: &Lay) -> Option<Vec<Fp>> {
        (!no_mut(lay)).then(|| exp_elements(lay))
    }
    fn make<'a>(&'a self, data: &'a mut [i32], lay: &Lay) -> Self::P<'a> {
        hold_mut(rw_view(data, lay), |v| Sp(v.iter_mut()))
    }
    fn ident<'a>(&self, base: *const i32, item: &'a mut i32) -> Fp {
        elem_fp(base, item)
    }
}

pub struct KLanes(pub usize);
impl Kind for KLanes {
    type P<'a> = Sp<rten_tensor::iterators::Lanes<'a, i32>>;
    const UNIQUE: bool = false;
    fn name(&self) -> String {
        "lanes".into()
    }
    fn expected(&self, lay: &Lay) -> Option<Vec<Fp>> {
        exp_lanes(lay, self.0)
    }
    fn make<'a>(&'a self, data: &'a mut [i32], lay: &Lay) -> Self::P<'a> {
        Sp(ro_view(data, lay).lanes(self.0))
    }
    fn ident<'a>(&self, base: *const i32, item: rten_tensor::iterators::Lane<'a, i32>) -> Fp {
        let n = item.len();
        Fp {
            shape: vec![n],
            offs: (0..n).map(|i| item.get(i).map(|r| off_of(base, r)).unwrap_or(-1)).collect(),
        }
    }
}

pub struct KLanesMut(pub usize);
impl Kind for KLanesMut {
    type P<'a> = Hold<Sp<rten_tensor::iterators::LanesMut<'a, i32>>, TensorViewMut<'a, i32>>;
    const UNIQUE: bool = true;
    fn name(&self) -> String {
        "lanes_mut".into()
    }
    fn expected(&self, lay: &Lay) -> Option<Vec<Fp>> {
        if no_mut(lay) {
            return None;
        }
        exp_lanes(lay, self.0)
    }
    fn make<'a>(&'a self, data: &'a mut [i32], lay: &Lay) -> Self::P<'a> {
        let d = self.0;
        hold_mut(rw_view(data, lay), move |v| Sp(v.lanes_mut(d)))
    }
    fn ident<'a>(&self, base: *const i32, item: rten_tensor::iterators::LaneMut<'a, i32>) -> Fp {
        view_fp(base, &item.into_view())
    }
}

/// The elements of the k-th lane along dimension d (the `Lane` iterator itself).
pub struct KLaneItems(pub usize, pub usize);
impl Kind for KLaneItems {
    type P<'a> = NoSp<rten_tensor::iterators::Lane<'a, i32>>;
    const UNIQUE: bool = false;
    fn name(&self) -> String {
        "Lane".into()
    }
    fn expected(&self, lay: &Lay) -> Option<Vec<Fp>> {
        let lanes = exp_lanes(lay, self.0)?;
        let lane = lanes.get(self.1)?;
        Some(lane.offs.iter().map(|&o| Fp { shape: vec![], offs: vec![o] }).collect())
    }
    fn make<'a>(&'a self, data: &'a mut [i32], lay: &Lay) -> Self::P<'a> {
        NoSp(ro_view(data, lay).lanes(self.0).nth(self.1).expect("lane exists"))
    }
    fn ident<'a>(&self, base: *const i32, item: &'a i32) -> Fp {
        elem_fp(base, item)
    }
}

pub struct KLaneMutItems(pub usize, pub usize);
impl Kind for KLaneMutItems {
    type P<'a> = Hold<NoSp<rten_tensor::iterators::LaneMut<'a, i32>>, TensorViewMut<'a, i32>>;
    const UNIQUE: bool = true;
    fn name(&self) -> String {
        "LaneMut".into()
    }
    fn expected(&self, lay: &Lay) -> Option<Vec<Fp>> {
        if no_mut(lay) {
            return None;
        }
        KLaneItems(self.0, self.1).expected(lay)
    }
    fn make<'a>(&'a self, data: &'a mut [i32], lay: &Lay) -> Self::P<'a> {
        let (d, k) = (self.0, self.1);
        hold_mut(rw_view(data, lay), move |v| NoSp(v.lanes_mut(d).nth(k).expect("lane exists")))
    }
    fn ident<'a>(&self, base: *const i32, item: &'a mut i32) -> Fp {
        elem_fp(base, item)
    }
}

pub struct KInnerDyn(pub usize);
impl Kind for KInnerDyn {
    type P<'a> = Sp<rten_tensor::iterators::InnerIter<'a, i32, rten_tensor::DynLayout>>;
    const UNIQUE: bool = false;
    fn name(&self) -> String {
        "inner_iter_dyn".into()
    }
    fn expected(&self, lay: &Lay) -> Option<Vec<Fp>> {
        exp_inner(lay, self.0)
    }
    fn make<'a>(&'a self, data: &'a mut [i32], lay: &Lay) -> Self::P<'a> {
        Sp(ro_view(data, lay).inner_iter_dyn(self.0))
    }
    fn ident<'a>(&self, base: *const i32, item: TensorView<'a, i32>) -> Fp {
        view_fp(base, &item)
    }
}

pub struct KInnerDynMut(pub usize);
impl Kind for KInnerDynMut {
    type P<'a> =
        Hold<Sp<rten_tensor::iterators::InnerIterMut<'a, i32, rten_tensor::DynLayout>>, TensorViewMut<'a, i32>>;
    const UNIQUE: bool = true;
    fn name(&self) -> String {
        "inner_iter_dyn_mut".into()
    }
    fn expected(&self, lay: &Lay) -> Option<Vec<Fp>> {
        if no_mut(lay) {
            return None;
        }
        exp_inner(lay, self.0)
    }
    fn make<'a>(&'a self, data: &'a mut [i32], lay: &Lay) -> Self::P<'a> {
        let n = self.0;
        hold_mut(rw_view(data, lay), move |v| Sp(v.inner_iter_dyn_mut(n)))
    }
    fn ident<'a>(&self, base: *const i32, item: TensorViewMut<'a, i32>) -> Fp {
        view_fp(base, &item)
    }
}

pub struct KInnerStatic<const N: usize>;
impl<const N: usize> Kind for KInnerStatic<N> {
    type P<'a> = Sp<rten_tensor::iterators::InnerIter<'a, i32, rten_tensor::NdLayout<N>>>;
    const UNIQUE: bool = false;
    fn name(&self) -> String {
        format!("inner_iter::<{N}>")
    }
    fn expected(&self, lay: &Lay) -> Option<Vec<Fp>> {
        exp_inner(lay, N)
    }
    fn make<'a>(&'a self, data: &'a mut [i32], lay: &Lay) -> Self::P<'a> {
        Sp(ro_view(data, lay).inner_iter::<N>())
    }
    fn ident<'a>(&self, base: *const i32, item: rten_tensor::NdTensorView<'a, i32, N>) -> Fp {
        view_fp(base, &item)
    }
}

pub struct KInnerStaticMut<const N: usize>;
impl<const N: usize> Kind for KInnerStaticMut<N> {
    type P<'a> =
        Hold<Sp<rten_tensor::iterators::InnerIterMut<'a, i32, rten_tensor::NdLayout<N>>>, TensorViewMut<'a, i32>>;
    const UNIQUE: bool = true;
    fn name(&self) -> String {
        format!("inner_iter_mut::<{N}>")
    }
    fn expected(&self, lay: &Lay) -> Option<Vec<Fp>> {
        if no_mut(lay) {
            return None;
        }
        exp_inner(lay, N)
    }
    fn make<'a>(&'a self, data: &'a mut [i32], lay: &Lay) -> Self::P<'a> {
        hold_mut(rw_view(data, lay), move |v| Sp(v.inner_iter_mut::<N>()))
    }
    fn ident<'a>(&self, base: *const i32, item: rten_tensor::NdTensorViewMut<'a, i32, N>) -> Fp {
        view_fp(base, &item)
    }
}

pub struct KAxisIter(pub usize);
impl Kind for KAxisIter {
    type P<'a> = Sp<rten_tensor::iterators::AxisIter<'a, i32, rten_tensor::DynLayout>>;
    const UNIQUE: bool = false;
    fn name(&self) -> String {
        "axis_iter".into()
    }
    fn expected(&self, lay: &Lay) -> Option<Vec<Fp>> {
        exp_axis_iter(lay, self.0)
    }
    fn make<'a>(&'a self, data: &'a mut [i32], lay: &Lay) -> Self::P<'a> {
        Sp(ro_view(data, lay).axis_iter(self.0))
    }
    fn ident<'a>(&self, base: *const i32, item: TensorView<'a, i32>) -> Fp {
        view_fp(base, &item)
    }
}

pub struct KAxisIterMut(pub usize);
impl Kind for KAxisIterMut {
    type P<'a> =
        Hold<Sp<rten_tensor::iterators::AxisIterMut<'a, i32, rten_tensor::DynLayout>>, TensorViewMut<'a, i32>>;
    const UNIQUE: bool = true;
    fn name(&self) -> String {
        "axis_iter_mut".into()
    }
    fn expected(&self, lay: &Lay) -> Option<Vec<Fp>> {
        if no_mut(lay) {
            return None;
        }
        exp_axis_iter(lay, self.0)
    }
    fn make<'a>(&'a self, data: &'a mut [i32], lay: &Lay) -> Self::P<'a> {
        let d = self.0;
        hold_mut(rw_view(data, lay), move |v| Sp(v.axis_iter_mut(d)))
    }
    fn ident<'a>(&self, base: *const i32, item: TensorViewMut<'a, i32>) -> Fp {
        view_fp(base, &item)
    }
}

pub struct KAxisChunks(pub usize, pub usize);
impl Kind for KAxisChunks {
    type P<'a> = Sp<rten_tensor::iterators::AxisChunks<'a, i32, rten_tensor::DynLayout>>;
    const UNIQUE: bool = false;
    fn name(&self) -> String {
        "axis_chunks".into()
    }
    fn expected(&self, lay: &Lay) -> Option<Vec<Fp>> {
        exp_axis_chunks(lay, self.0, self.1)
    }
    fn make<'a>(&'a self, data: &'a mut [i32], lay: &Lay) -> Self::P<'a> {
        Sp(ro_view(data, lay).axis_chunks(self.0, self.1))
    }
    fn ident<'a>(&self, base: *const i32, item: TensorView<'a, i32>) -> Fp {
        view_fp(base, &item)
    }
}

pub struct KAxisChunksMut(pub usize, pub usize);
impl Kind for KAxisChunksMut {
    type P<'a> =
        Hold<Sp<rten_tensor::iterators::AxisChunksMut<'a, i32, rten_tensor::DynLayout>>, TensorViewMut<'a, i32>>;
    const UNIQUE: bool = true;
    fn name(&self) -> String {
        "axis_chunks_mut".into()
    }
    fn expected(&self, lay: &Lay) -> Option<Vec<Fp>> {
        if no_mut(lay) {
            return None;
        }
        exp_axis_chunks(lay, self.0, self.1)
    }
    fn make<'a>(&'a self, data: &'a mut [i32], lay: &Lay) -> Self::P<'a> {
        let (d, c) = (self.0, self.1);
        hold_mut(rw_view(data, lay), move |v| Sp(v.axis_chunks_mut(d, c)))
    }
    fn ident<'a>(&self, base: *const i32, item: TensorViewMut<'a, i32>) -> Fp {
        view_fp(base, &item)
    }
}
