//! Enumerated layout families and the naive reference arithmetic.
//!
//! A layout is (shape, strides, storage length). All reference computations are
//! done here with plain index arithmetic in u128/usize, independent of rten.

use vp_core::{Json, json};

#[derive(Clone, Debug, PartialEq, Eq, Hash)]
pub struct Lay {
    pub shape: Vec<usize>,
    pub strides: Vec<usize>,
    /// storage length handed to rten (max offset + 1, or 0 for empty tensors)
    pub storage: usize,
    pub class: &'static str,
}

impl Lay {
    pub fn len(&self) -> usize {
        self.shape.iter().product()
    }
    pub fn ndim(&self) -> usize {
        self.shape.len()
    }
    pub fn offset(&self, idx: &[usize]) -> usize {
        idx.iter().zip(&self.strides).map(|(i, s)| i * s).sum()
    }
    pub fn to_json(&self) -> Json {
        json!({"shape": self.shape, "strides": self.strides, "storage": self.storage, "class": self.class})
    }
    pub fn from_json(v: &Json) -> Lay {
        let vec = |k: &str| -> Vec<usize> {
            v[k].as_array().map(|a| a.iter().map(|x| x.as_u64().unwrap() as usize).collect()).unwrap_or_default()
        };
        let class = match v["class"].as_str().unwrap_or("") {
            "contiguous" => "contiguous",
            "broadcast" => "broadcast",
            _ => "strided",
        };
        Lay { shape: vec("shape"), strides: vec("strides"), storage: v["storage"].as_u64().unwrap_or(0) as usize, class }
    }
    /// true if two distinct indices map to one offset
    pub fn overlaps(&self) -> bool {
        let mut seen = std::collections::HashSet::new();
        for idx in indices(&self.shape) {
            if !seen.insert(self.offset(&idx)) {
                return true;
            }
        }
        false
    }
}

/// All index vectors of `shape` in row-major order.
pub fn indices(shape: &[usize]) -> Vec<Vec<usize>> {
    let n: usize = shape.iter().product();
    let mut out = Vec::with_capacity(n);
    if n == 0 {
        return out;
    }
    let mut cur = vec![0usize; shape.len()];
    loop {
        out.push(cur.clone());
        let mut d = shape.len();
        loop {
            if d == 0 {
                return out;
            }
            d -= 1;
            cur[d] += 1;
            if cur[d] < shape[d] {
                break;
            }
            cur[d] = 0;
        }
    }
}

fn contiguous_strides(shape: &[usize]) -> Vec<usize> {
    let mut s = vec![0; shape.len()];
    let mut acc = 1usize;
    for d in (0..shape.len()).rev() {
        s[d] = acc;
        acc *= shape[d].max(1);
    }
    s
}

fn storage_for(shape: &[usize], strides: &[usize]) -> usize {
    if shape.iter().any(|&s| s == 0) {
        return 0;
    }
    shape.iter().zip(strides).map(|(s, st)| (s - 1) * st).sum::<usize>() + 1
}

/// Every layout of the family for one shape:
/// for every ordering of the axes (outermost→innermost in memory) and every
/// per-axis multiplier from `mults` (0 = broadcast/stride 0, 1 = dense,
/// k>1 = stepped slice with step k), de-duplicated.
pub fn family(shape: &[usize], mults: &[usize]) -> Vec<Lay> {
    let r = shape.len();
    let mut out: Vec<Lay> = Vec::new();
    let mut seen = std::collections::HashSet::new();
    let contig = contiguous_strides(shape);
    for order in vp_core::odometer::permutations(r) {
        for choice in vp_core::odometer::Odometer::new(&vec![mults.len(); r]) {
            let mut strides = vec![0usize; r];
            let mut acc = 1usize;
            // `order` lists axes from outermost to innermost in memory
            for &ax in order.iter().rev() {
                let m = mults[choice[ax]];
                if m == 0 {
                    strides[ax] = 0;
                } else {
                    strides[ax] = acc * m;
                    acc = acc * m * shape[ax].max(1);
                }
            }
            // canonical key: strides only matter on axes with size > 1
            let key: Vec<usize> =
                (0..r).map(|a| if shape[a] > 1 { strides[a] } else { usize::MAX - strides[a].min(3) }).collect();
            if !seen.insert(key) {
                continue;
            }
            let bc = (0..r).any(|a| shape[a] > 1 && strides[a] == 0);
            let class = if bc {
                "broadcast"
            } else if strides == contig {
                "contiguous"
            } else {
                "strided"
            };
            out.push(Lay { shape: shape.to_vec(), strides: strides.clone(), storage: storage_for(shape, &strides), class });
        }
    }
    // simplest first
    out.sort_by_key(|l| match l.class {
        "contiguous" => 0,
        "strided" => 1,
        _ => 2,
    });
    out
}

/// All shapes of rank 0..=max_rank over `sizes`.
pub fn shapes(max_rank: usize, sizes: &[usize]) -> Vec<Vec<usize>> {
    let mut out = Vec::new();
    for r in 0..=max_rank {
        for c in vp_core::odometer::Odometer::new(&vec![sizes.len(); r]) {
            out.push(c.iter().map(|&i| sizes[i]).collect());
        }
    }
    out
}
