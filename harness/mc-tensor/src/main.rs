//! mc-tensor: bounded-exhaustive checkers for rten-tensor (C06, C07, C08, C09).

mod c06;
mod c07;
mod c08;
mod c09;
mod iterx;
mod kinds;
mod layouts;

fn main() {
    let prop = std::env::args().nth(1).unwrap_or_default();
    match prop.as_str() {
        "C06" => c06::run(vp_core::Ctx::from_env("C06")),
        "C07" => c07::run(vp_core::Ctx::from_env("C07")),
        "C08" => c08::run(vp_core::Ctx::from_env("C08")),
        "C09" => c09::run(vp_core::Ctx::from_env("C09")),
        _ => vp_core::machinery_error(&format!("mc-tensor: unknown property '{prop}'")),
    }
}
