//! C27 - byte-level BPE round-trips and reports consistent offsets.
//!
//! Box: every string of <= N code points over a 15-symbol alphabet (ASCII,
//! control characters, a combining mark, a soft hyphen, two images of
//! `byte_to_char`, BMP and astral characters, the characters of the added
//! token) x every tokenizer configuration {vocab implicit/explicit} x {4 merge
//! tables} x {pre-tokenizers} x {added token present/absent}.
//! Oracle: `decode(encode(s)) == s`; offsets non-decreasing, on character
//! boundaries of `s`; `text_for_token_range(i..i+1)` over all tokens
//! concatenates to `s`.

use std::borrow::Cow;
use std::collections::HashMap;

use rten_text::models::{Bpe, BpeOptions};
use rten_text::pre_tokenizers::{self, PreTokenizer, Split, SplitDelimiterBehavior, SplitOptions};
use rten_text::tokenizer::{Tokenizer, TokenizerOptions};
use vp_core::{Ctx, Json, json};

use crate::refmodel;
use crate::util::{self, Shard};

pub const ALPHABET: [&str; 15] = [
    "a", "b", " ", "\n", "\0", "é", "\u{301}", "\u{AD}", "\u{120}", "\u{101}", "中", "😀", "<", "|", ">",
];

const TABLES: [&str; 4] = ["none", "ascii-pairs", "utf8-lead-continuation", "end-of-word-suffix"];
const PRETOKS: [&str; 8] = [
    "none",
    "gpt2",
    "split-isolate(\\s+|[<>])",
    "split-isolate-inverted(\\p{L}+)",
    "bert",
    "sequence[gpt2,split-isolate(\\s+|[<>])]",
    // lossy: the delimiters are dropped. Only the offset laws are judged for it.
    "split-remove(\\s+)",
    // a pattern that also matches the empty string (zero-length matches between the pieces)
    "split-isolate-inverted(\\p{L}*)",
];
const LOSSY_PRETOK: usize = 6;
const ADDED_TOKEN: &str = "<|>";
const ADDED_ID: u32 = 70000;
const SUFFIX: &str = "</w>";

#[derive(Clone, Copy, Debug)]
struct Cfg {
    explicit: bool,
    table: usize,
    pretok: usize,
    added: bool,
}

impl Cfg {
    fn suffix(&self) -> bool {
        self.table == 3
    }
}

fn explicit_byte_id(b: usize) -> u32 {
    300 + ((b * 7 + 3) % 256) as u32
}

/// Merge list in the printable byte alphabet.
fn merge_list(table: usize, chars: &[char; 256]) -> Vec<(String, String)> {
    let e = |b: &[u8]| refmodel::enc_bytes(chars, b);
    match table {
        0 => vec![],
        1 => vec![
            (e(b"a"), e(b"b")),
            (e(b" "), e(b"a")),
            (e(b"<"), e(b"|")),
            (e(b"<|"), e(b">")),
            (e(b"ab"), e(b"ab")),
            (e(b"\n"), e(b"\n")),
        ],
        // merges inside and across UTF-8 sequences: 'a'+lead byte of the next
        // char, lead+continuation, continuation+next ASCII char, ...
        2 => vec![
            (e(&[0x61]), e(&[0xC3])),
            (e(&[0xC3]), e(&[0xA9])),
            (e(&[0xE4]), e(&[0xB8])),
            (e(&[0xE4, 0xB8]), e(&[0xAD])),
            (e(&[0xF0]), e(&[0x9F])),
            (e(&[0x98]), e(&[0x80])),
            (e(&[0xA9]), e(&[0x62])),
            (e(&[0xCC]), e(&[0x81])),
            (e(&[0xC4]), e(&[0xA0])),
            (e(&[0xC2]), e(&[0xAD])),
        ],
        3 => vec![
            ("a".into(), "b".into()),
            ("a".into(), format!("b{SUFFIX}")),
            ("ab".into(), format!("a{SUFFIX}")),
        ],
        _ => unreachable!(),
    }
}

fn fill_vocab<S: std::hash::BuildHasher>(
    v: &mut HashMap<String, u32, S>,
    chars: &[char; 256],
    merges: &[(String, String)],
    suffix: bool,
) {
    for b in 0..256usize {
        v.insert(chars[b].to_string(), explicit_byte_id(b));
        if suffix {
            // Bpe::encode_piece computes the id of "<byte><suffix>" as
            // id(<byte>) + 256, so an explicit vocabulary has to follow that
            // layout to be a supported configuration.
            v.insert(format!("{}{SUFFIX}", chars[b]), explicit_byte_id(b) + 256);
        }
    }
    let mut next = 5000u32;
    for (a, b) in merges {
        let s = format!("{a}{b}");
        if !v.contains_key(&s) {
            v.insert(s, next);
            next += 3;
        }
    }
}

fn make_pretok(p: usize) -> Option<Box<dyn PreTokenizer>> {
    let isolate = || {
        Split::new(SplitOptions { pattern: r"\s+|[<>]", delimiter: SplitDelimiterBehavior::Isolate, invert: false })
            .expect("valid pattern")
    };
    match p {
        0 => None,
        1 => Some(Box::new(Split::gpt2())),
        2 => Some(Box::new(isolate())),
        3 => Some(Box::new(
            Split::new(SplitOptions { pattern: r"\p{L}+", delimiter: SplitDelimiterBehavior::Isolate, invert: true })
                .expect("valid pattern"),
        )),
        4 => Some(Box::new(pre_tokenizers::Bert::new())),
        5 => Some(Box::new(pre_tokenizers::Sequence::from_vec(vec![
            Box::new(Split::gpt2()),
            Box::new(isolate()),
        ]))),
        6 => Some(Box::new(
            Split::new(SplitOptions { pattern: r"\s+", delimiter: SplitDelimiterBehavior::Remove, invert: false }).expect("valid pattern"),
        )),
        7 => Some(Box::new(
            Split::new(SplitOptions { pattern: r"\p{L}*", delimiter: SplitDelimiterBehavior::Isolate, invert: true })
                .expect("valid pattern"),
        )),
        _ => unreachable!(),
    }
}

fn build(cfg: Cfg) -> Result<Tokenizer, String> {
    let (chars, _) = refmodel::gpt2_byte_table();
    let merges = merge_list(cfg.table, &chars);
    let pairs: Vec<(Cow<str>, Cow<str>)> =
        merges.iter().map(|(a, b)| (Cow::Borrowed(a.as_str()), Cow::Borrowed(b.as_str()))).collect();
    let mut opts = BpeOptions::default();
    opts.merges = &pairs;
    if cfg.suffix() {
        opts.end_of_word_suffix = Some(SUFFIX.to_string());
    }
    if cfg.explicit {
        opts.vocab = Some(Default::default());
        fill_vocab(opts.vocab.as_mut().unwrap(), &chars, &merges, cfg.suffix());
    }
    if cfg.added {
        opts.added_tokens.insert(ADDED_ID, ADDED_TOKEN.to_string());
    }
    let bpe = match vp_core::catch(|| Bpe::new(opts)) {
        Err(p) => return Err(format!("Bpe::new panicked: {p}")),
        Ok(Err(e)) => return Err(format!("Bpe::new error: {e}")),
        Ok(Ok(b)) => b,
    };
    let mut tok = Tokenizer::new(bpe, TokenizerOptions::default());
    if let Some(p) = make_pretok(cfg.pretok) {
        tok = tok.with_pre_tokenizer(p);
    }
    Ok(tok)
}

#[derive(Default)]
struct CaseOut {
    sigs: Vec<(String, String)>,
    obs: Vec<&'static str>,
    n_tokens: usize,
    n_pieces: usize,
    split_char: bool,
    merged: bool,
}

/// Byte offsets of the non-empty pieces the configured pre-tokenizer yields
/// for `s`, obtained by calling the public pre-tokenizer directly (not through
/// `Tokenizer::encode`). Used for non-vacuity accounting and for an
/// observation; never for a verdict.
fn piece_starts(pt: Option<&dyn PreTokenizer>, s: &str) -> Vec<usize> {
    match pt {
        None => {
            if s.is_empty() { vec![] } else { vec![0] }
        }
        Some(p) => match vp_core::catch(|| p.pre_tokenize(s)) {
            Ok(Ok(ps)) => ps.iter().filter(|x| !x.is_empty()).map(|x| x.as_ptr() as usize - s.as_ptr() as usize).collect(),
            _ => vec![],
        },
    }
}

fn check(tok: &Tokenizer, pt: Option<&dyn PreTokenizer>, cfg: Cfg, rev: &HashMap<char, u8>, s: &str) -> CaseOut {
    let mut out = CaseOut::default();
    let starts = piece_starts(pt, s);
    out.n_pieces = starts.len();
    // Offset/slice laws depend on the pre-tokenizer path, the round trip on the
    // model (merge table, vocabulary): tag the signatures accordingly so that
    // one root cause is not split over the whole configuration product.
    let tag = format!("[pre-tokenizer={}]", PRETOKS[cfg.pretok]);
    let rt_tag = format!("[merges={}, vocab={}]", TABLES[cfg.table], if cfg.explicit { "explicit" } else { "implicit" });
    let enc = match vp_core::catch(|| tok.encode(s, None)) {
        Err(p) => {
            out.sigs.push((format!("Tokenizer::encode panicked {tag}"), p));
            return out;
        }
        Ok(Err(e)) => {
            out.sigs.push((format!("Tokenizer::encode returned an error {tag}"), format!("{e:?}")));
            return out;
        }
        Ok(Ok(e)) => e,
    };
    let ids = enc.token_ids();
    let offs = enc.token_offsets();
    out.n_tokens = ids.len();

    // --- offset laws -----------------------------------------------------
    if offs.len() < ids.len() {
        out.sigs.push((
            format!("Encoded::token_offsets has fewer entries than tokens {tag}"),
            format!("{} offsets for {} tokens", offs.len(), ids.len()),
        ));
    }
    if offs.len() != ids.len() {
        out.obs.push("token_offsets().len() != token_ids().len() (trailing end offset present)");
    }
    if let Some(w) = offs.windows(2).find(|w| w[0] > w[1]) {
        out.sigs.push((format!("token offsets decrease {tag}"), format!("offsets {offs:?}: {} > {}", w[0], w[1])));
    }
    if let Some(&o) = offs.iter().find(|&&o| o > s.len()) {
        out.sigs.push((format!("token offset beyond the input {tag}"), format!("offsets {offs:?}: {o} > len {}", s.len())));
    } else if let Some(&o) = offs.iter().find(|&&o| !s.is_char_boundary(o)) {
        out.sigs.push((
            format!("token offset is not a character boundary of the input {tag}"),
            format!("offsets {offs:?}: {o} is inside a character of {s:?}"),
        ));
    }
    let mut cat = String::new();
    let mut slices: Vec<&str> = Vec::with_capacity(ids.len());
    let mut missing = None;
    for i in 0..ids.len() {
        match enc.text_for_token_range(i..i + 1) {
            Some(t) => {
                cat.push_str(t);
                slices.push(t);
            }
            None => {
                missing = Some(i);
                break;
            }
        }
    }
    if let Some(i) = missing {
        out.sigs.push((
            format!("text_for_token_range(i..i+1) is None for a valid token index {tag}"),
            format!("token {i} of {} with offsets {offs:?}", ids.len()),
        ));
    } else if cat != s && cfg.pretok != LOSSY_PRETOK {
        out.sigs.push((
            format!("token text slices do not concatenate to the input {tag}"),
            format!("slices {slices:?} concatenate to {cat:?}, input {s:?}, offsets {offs:?}"),
        ));
    }
    {
        // outside the statement: every token offset should be the start of the
        // piece the token came from
        let mut distinct: Vec<usize> = offs[..ids.len().min(offs.len())].to_vec();
        distinct.dedup();
        if distinct != starts {
            out.obs.push("outside the statement: the distinct token offsets are not the starts of the pre-tokenizer's pieces");
        }
    }

    if cfg.pretok == LOSSY_PRETOK {
        // dropped delimiters: no round trip; every token's offset must be the start of a piece
        // that the public pre-tokenizer yields for this input
        let distinct: Vec<usize> = offs[..ids.len().min(offs.len())].to_vec();
        if let Some(o) = distinct.iter().find(|o| !starts.contains(o)) {
            out.sigs.push((
                format!("token offset is not the start of a piece of the input {tag}"),
                format!("offsets {offs:?}, piece starts {starts:?}, input {s:?}: {o}"),
            ));
        }
        return out;
    }
    // --- round trip ------------------------------------------------------
    match vp_core::catch(|| tok.decode(ids)) {
        Err(p) => {
            if cfg.suffix() {
                out.obs.push("end-of-word-suffix configuration: decode panicked");
            } else {
                out.sigs.push((format!("Tokenizer::decode(encode(s)) panicked {rt_tag}"), p));
            }
        }
        Ok(Err(e)) => {
            if cfg.suffix() {
                out.obs.push("end-of-word-suffix configuration: decode returned an error");
            } else {
                out.sigs.push((
                    format!("Tokenizer::decode(encode(s)) returned an error {rt_tag}"),
                    format!("{e:?} for ids {ids:?} of {s:?}"),
                ));
            }
        }
        Ok(Ok(d)) => {
            if cfg.suffix() {
                // Not a round-trip configuration by construction (the suffix is
                // documented as implicitly appended to every piece). Expected
                // text: every piece followed by the suffix. Recorded only.
                let want: String = slices.iter().filter(|t| !t.is_empty()).map(|t| format!("{t}{SUFFIX}")).collect();
                if missing.is_none() && d != want {
                    out.obs.push("end-of-word-suffix configuration: decode != pieces each followed by the suffix");
                }
            } else if d != s {
                out.sigs.push((
                    format!("decode(encode(s)) != s {rt_tag}"),
                    format!("input {s:?}, ids {ids:?}, decoded {d:?}"),
                ));
            }
        }
    }

    // --- cross-check against the GPT-2 byte alphabet (observation only) -----
    let mut bytes: Vec<u8> = Vec::with_capacity(s.len());
    let mut ok = true;
    let mut pos = 0usize;
    for &id in ids {
        match tok.model().get_token_str(id) {
            Some(ts) => {
                let body = if cfg.suffix() { ts.strip_suffix(SUFFIX).unwrap_or(&ts) } else { &ts };
                let mut n = 0;
                for c in body.chars() {
                    match rev.get(&c) {
                        Some(&b) => bytes.push(b),
                        None => ok = false,
                    }
                    n += 1;
                }
                pos += n;
                if pos < s.len() && !s.is_char_boundary(pos) {
                    out.split_char = true;
                }
            }
            None => ok = false,
        }
    }
    if ids.len() < s.len() {
        out.merged = true;
    }
    if !ok || bytes != s.as_bytes() {
        out.obs.push("token strings mapped through the GPT-2 bytes_to_unicode table do not spell the input bytes");
    }
    if cfg.added && s.contains(ADDED_TOKEN) && ids.contains(&ADDED_ID) {
        out.obs.push("text of the added token was encoded as the added token id");
    }
    out
}

fn cfg_json(cfg: Cfg) -> Json {
    json!({
        "vocab": if cfg.explicit { "explicit" } else { "implicit" },
        "merges": TABLES[cfg.table],
        "pre_tokenizer": PRETOKS[cfg.pretok],
        "added_token": cfg.added,
    })
}

fn case_json(cfg: Cfg, s: &str) -> Json {
    json!({"input": util::show_str(s), "tokenizer": cfg_json(cfg)})
}

fn reverse_table() -> HashMap<char, u8> {
    let (chars, _) = refmodel::gpt2_byte_table();
    chars.iter().enumerate().map(|(b, &c)| (c, b as u8)).collect()
}

pub fn run(ctx: Ctx) -> ! {
    if let Some(p) = ctx.replay.clone() {
        replay(ctx, &p);
    }
    let max_cp = ctx.tier.pick(4, 5);
    let pretoks: Vec<usize> = if ctx.tier.is_thorough() { (0..PRETOKS.len()).collect() } else { vec![0, 1, 2, LOSSY_PRETOK, 7] };
    let mut cfgs = Vec::new();
    for pretok in pretoks {
        for table in 0..TABLES.len() {
            for explicit in [false, true] {
                for added in [false, true] {
                    cfgs.push(Cfg { explicit, table, pretok, added });
                }
            }
        }
    }
    let nfirst = ALPHABET.len() + 1;
    let nstrings = util::string_count(ALPHABET.len(), max_cp);
    let shards = vp_core::par::map(cfgs.len() * nfirst, |i| {
        let cfg = cfgs[i / nfirst];
        let first = match i % nfirst {
            0 => None,
            k => Some(k - 1),
        };
        let mut sh = Shard::default();
        let tok = match build(cfg) {
            Ok(t) => t,
            Err(e) => {
                sh.viol("Bpe::new rejects a well-formed configuration".into(), || case_json(cfg, ""), || e.clone());
                return sh;
            }
        };
        let rev = reverse_table();
        let pt_box = make_pretok(cfg.pretok);
        let pt = pt_box.as_deref();
        let (mut cases, mut nonempty, mut split, mut merged, mut multi_piece) = (0u64, 0u64, 0u64, 0u64, 0u64);
        util::for_each_string(&ALPHABET, first, max_cp, |s, _| {
            cases += 1;
            let out = check(&tok, pt, cfg, &rev, s);
            if out.n_tokens > 0 {
                nonempty += 1;
            }
            if out.split_char {
                split += 1;
            }
            if out.merged {
                merged += 1;
            }
            if out.n_pieces > 1 {
                multi_piece += 1;
            }
            if !out.sigs.is_empty() {
                let again = check(&tok, pt, cfg, &rev, s);
                util::must_reproduce(
                    &out.sigs.iter().map(|x| x.0.clone()).collect::<Vec<_>>(),
                    &again.sigs.iter().map(|x| x.0.clone()).collect::<Vec<_>>(),
                    s,
                );
            }
            for o in &out.obs {
                sh.observe(o);
            }
            if cases % 16 == 0 {
                sh.class(format!("bytes={} tokens={} pieces={}", s.len(), out.n_tokens, out.n_pieces));
            }
            if out.split_char && out.n_pieces > 1 {
                sh.sample(1, || {
                    match vp_core::catch(|| tok.encode(s, None)) {
                        Ok(Ok(e)) => json!({"case": case_json(cfg, s), "token_ids": e.token_ids(), "token_offsets": e.token_offsets(),
                           "tokens": tok.model().get_tokens(e.token_ids()).unwrap_or_default()}),
                        _ => json!({"case": case_json(cfg, s), "token_ids": "(encode failed or panicked)"}),
                    }
                });
            }
            for (sig, detail) in out.sigs {
                sh.viol(sig, || case_json(cfg, s), || detail);
            }
        });
        sh.add("cases", cases);
        sh.add("cases_with_tokens", nonempty);
        sh.add("cases_with_a_character_split_across_tokens", split);
        sh.add("cases_with_fewer_tokens_than_bytes", merged);
        sh.add("cases_with_more_than_one_piece", multi_piece);
        if !cfg.suffix() {
            sh.add("cases_round_trip_checked", cases);
        }
        sh
    });
    let m = util::merge(&ctx, shards, 10);
    let expect = cfgs.len() as u64 * nstrings;
    if m.get("cases") != expect {
        ctx.machinery(&format!("C27: enumerated {} cases, box has {}", m.get("cases"), expect));
    }
    // Vacuity guards use counters that are measured on the subject's output, so
    // they are only meaningful (and only applied) when the subject was not
    // already found violating - a violation must stay a verdict.
    if m.get("cases_with_more_than_one_piece") == 0 {
        ctx.machinery("C27: vacuous - no input was split into more than one piece");
    }
    for k in ["cases_with_a_character_split_across_tokens", "cases_with_fewer_tokens_than_bytes"] {
        if m.get(k) == 0 && ctx.violation_count() == 0 {
            ctx.machinery(&format!("C27: vacuous - counter {k} is zero"));
        }
    }
    println!(
        "C27 summary: {} cases = {} strings (<= {} code points over {} symbols) x {} tokenizer configurations; {} with tokens, {} split a character across tokens, {} merged, {} round-trip checked; {} violating",
        m.get("cases"), nstrings, max_cp, ALPHABET.len(), cfgs.len(), m.get("cases_with_tokens"),
        m.get("cases_with_a_character_split_across_tokens"), m.get("cases_with_fewer_tokens_than_bytes"),
        m.get("cases_round_trip_checked"), ctx.violation_count()
    );
    let cov = json!({
        "evaluations": m.get("cases"),
        "distinct_nontrivial": m.get("cases_with_tokens"),
        "rule": "every (tokenizer configuration, string) of the box exactly once (distinct by construction); non-trivial = the encoding has at least one token, so all offset/slice/round-trip laws were evaluated on real tokens",
        "exhaustive": true,
        "axes": {
            "alphabet_code_points": ALPHABET.iter().map(|s| s.chars().map(|c| format!("U+{:04X}", c as u32)).collect::<Vec<_>>().join("+")).collect::<Vec<_>>(),
            "max_code_points": max_cp,
            "strings": nstrings,
            "vocab": ["implicit", "explicit"],
            "merge_tables": TABLES,
            "pre_tokenizers": if ctx.tier.is_thorough() { PRETOKS.to_vec() } else { vec![PRETOKS[0], PRETOKS[1], PRETOKS[2], PRETOKS[LOSSY_PRETOK], PRETOKS[7]] },
            "added_token": [false, true],
            "tokenizer_configurations": cfgs.len(),
        },
        "counters": m.counters_json(),
        "distinct_outcome_classes": m.classes.len(),
        "outcome_classes_sampled": m.classes.iter().take(12).collect::<Vec<_>>(),
        "samples": m.samples,
        "subject": "rten_text::Tokenizer::{encode, decode}, Encoded::{token_offsets, text_for_token_range} over rten_text::models::Bpe",
    });
    ctx.finish(
        "exploration",
        cov,
        vec![
            "only loss-free pipelines: no normalizer; pre-tokenizers that keep every character (Split::gpt2 uses Remove but its pattern matches every character)".into(),
            "the end-of-word-suffix configuration is not a round-trip configuration by construction (the suffix is appended to every piece and decode keeps it); for it only the offset/slice laws are verdicts, the decode law 'pieces each followed by the suffix' is an observation".into(),
            "explicit vocabularies place '<byte><suffix>' at id(<byte>)+256 because Bpe::encode_piece hard-codes that layout".into(),
            "single-sequence input, EncodeOptions = None (chunking is C29)".into(),
        ],
    )
}

fn replay(ctx: Ctx, path: &std::path::Path) -> ! {
    let case = vp_core::read_replay_case(path);
    let s = case["input"]["text"].as_str().unwrap_or("").to_string();
    let t = &case["tokenizer"];
    let find = |list: &[&str], v: &Json| list.iter().position(|x| Some(*x) == v.as_str());
    let (Some(table), Some(pretok)) = (find(&TABLES, &t["merges"]), find(&PRETOKS, &t["pre_tokenizer"])) else {
        ctx.machinery("C27 replay: unknown merge table / pre-tokenizer name");
    };
    let cfg = Cfg { explicit: t["vocab"].as_str() == Some("explicit"), table, pretok, added: t["added_token"].as_bool().unwrap_or(false) };
    match build(cfg) {
        Err(e) => ctx.violation("Bpe::new rejects a well-formed configuration", case.clone(), e),
        Ok(tok) => {
            let pt_box = make_pretok(cfg.pretok);
            let out = check(&tok, pt_box.as_deref(), cfg, &reverse_table(), &s);
            println!("C27 replay: {} -> {} signature(s), observations {:?}", case, out.sigs.len(), out.obs);
            for (sig, detail) in out.sigs {
                ctx.violation(sig, case.clone(), detail);
            }
        }
    }
    ctx.finish(
        "exploration",
        json!({"evaluations": 1, "distinct_nontrivial": 0, "rule": "replay of one case", "samples": [case], "exhaustive": false}),
        vec![],
    )
}
