//! C28 - BPE merging matches the reference merge algorithm.
//!
//! Box: every merge table of <= K distinct pairs over a small base alphabet
//! (parts are base symbols or results of earlier merges) x every input string
//! of <= N base symbols x {implicit, explicit} vocabulary. Subject:
//! `Tokenizer::encode` over a real `Bpe` model (no pre-tokenizer, so the whole
//! input is one piece). Oracle: string-level textbook BPE in `refmodel`.

use std::borrow::Cow;

use rten_text::models::{Bpe, BpeOptions};
use rten_text::tokenizer::{Tokenizer, TokenizerOptions};
use vp_core::{Ctx, Json, json};

use crate::refmodel::{self, MergeTable};
use crate::util::{self, Shard};

const EXPLICIT_MERGE_ID_BASE: u32 = 5000;

fn explicit_byte_id(b: usize) -> u32 {
    // a permutation of 300..556 (7 is odd, so b -> 7b+3 mod 256 is a bijection)
    300 + ((b * 7 + 3) % 256) as u32
}

fn explicit_merge_id(sym: usize) -> u32 {
    // keyed on the *result symbol*, so equal strings get equal ids; DEscending in
    // the symbol index, i.e. merged-token ids are not monotone in merge rank (the
    // implicit vocabulary already covers ids that ascend with the rank)
    EXPLICIT_MERGE_ID_BASE + 3 * (255 - sym as u32)
}

struct Subject {
    tok: Tokenizer,
}

fn build(table: &MergeTable, explicit: bool) -> Result<Subject, String> {
    let (chars, _) = refmodel::gpt2_byte_table();
    let pairs: Vec<(Cow<str>, Cow<str>)> =
        table.pairs().into_iter().map(|(a, b)| (Cow::Owned(a), Cow::Owned(b))).collect();
    let mut opts = BpeOptions::default();
    opts.merges = &pairs;
    if explicit {
        opts.vocab = Some(Default::default());
        fill_vocab(opts.vocab.as_mut().unwrap(), &chars, table);
    }
    let r = vp_core::catch(|| Bpe::new(opts));
    match r {
        Err(p) => Err(format!("Bpe::new panicked: {p}")),
        Ok(Err(e)) => Err(format!("Bpe::new returned error: {e}")),
        Ok(Ok(bpe)) => Ok(Subject { tok: Tokenizer::new(bpe, TokenizerOptions::default()) }),
    }
}

/// Generic over the map's hasher so that the harness never has to name
/// rustc_hash (not in the workspace dependency table).
fn fill_vocab<S: std::hash::BuildHasher>(
    v: &mut std::collections::HashMap<String, u32, S>,
    chars: &[char; 256],
    table: &MergeTable,
) {
    for b in 0..256usize {
        v.insert(chars[b].to_string(), explicit_byte_id(b));
    }
    for s in table.nbase..table.syms.len() {
        v.insert(table.syms[s].clone(), explicit_merge_id(s));
    }
}

pub struct CaseOut {
    pub sigs: Vec<(String, String)>, // (signature, detail)
    pub ref_merges: usize,
    pub refs_agree: bool,
    pub out_len: usize,
    /// only meaningful when the two readings differ: which one rten matched
    pub matched_one_at_a_time: bool,
}

fn ids_match(
    table: &MergeTable,
    explicit: bool,
    subj: &Subject,
    ids: &[u32],
    expect: &[usize],
) -> bool {
    if ids.len() != expect.len() {
        return false;
    }
    for (&id, &sym) in ids.iter().zip(expect) {
        if explicit {
            let want = if sym < table.nbase {
                explicit_byte_id(table.syms[sym].as_bytes()[0] as usize)
            } else {
                explicit_merge_id(sym)
            };
            if id != want {
                return false;
            }
        } else {
            // implicit vocabulary: ids of single bytes are rten's own choice
            // (<256); a merged token has id 256 + index of a merge producing
            // its string. The token *string* is compared exactly.
            let s = subj.tok.model().get_token_str(id);
            if s.as_deref() != Some(table.syms[sym].as_str()) {
                return false;
            }
            if sym < table.nbase {
                if id >= 256 {
                    return false;
                }
            } else {
                let ok = table
                    .merges
                    .iter()
                    .enumerate()
                    .any(|(i, &(_, _, r))| r == sym && id == 256 + i as u32);
                if !ok {
                    return false;
                }
            }
        }
    }
    true
}

fn check(
    table: &MergeTable,
    matrix: &[Vec<Option<(usize, usize)>>],
    explicit: bool,
    subj: &Subject,
    input: &[usize],
    text: &str,
) -> CaseOut {
    let (ref1, n1) = refmodel::bpe_one_at_a_time(matrix, input);
    let (ref2, _) = refmodel::bpe_all_occurrences(matrix, input);
    let refs_agree = ref1 == ref2;
    let mut sigs = Vec::new();
    let class = || {
        let self_overlap = table.merges.iter().any(|&(x, y, _)| {
            x == y && input.windows(3).any(|w| w[0] == x && w[1] == x && w[2] == x)
        });
        if !refs_agree {
            "table where the two textbook readings differ"
        } else if table.has_duplicate_result() {
            "table with two merges producing the same string"
        } else if self_overlap {
            "pair (x,x) with overlapping occurrences"
        } else {
            "plain table"
        }
    };
    let r = vp_core::catch(|| subj.tok.encode(text, None).map(|e| e.token_ids().to_vec()));
    match r {
        Err(p) => sigs.push((format!("Tokenizer::encode(Bpe) panicked [{}]", class()), p)),
        Ok(Err(e)) => sigs.push((format!("Tokenizer::encode(Bpe) returned error [{}]", class()), format!("{e:?}"))),
        Ok(Ok(ids)) => {
            let m1 = ids_match(table, explicit, subj, &ids, &ref1);
            let ok = m1 || (!refs_agree && ids_match(table, explicit, subj, &ids, &ref2));
            if !ok {
                let strs: Vec<Option<String>> = ids.iter().map(|&i| subj.tok.model().get_token_str(i)).collect();
                let want: Vec<&str> = ref1.iter().map(|&s| table.syms[s].as_str()).collect();
                sigs.push((
                    format!("Tokenizer::encode(Bpe) token ids != reference BPE [{}; vocab {}]", class(), if explicit { "explicit" } else { "implicit" }),
                    format!("input {text:?} merges {:?}: rten ids {ids:?} = tokens {strs:?}; reference tokens {want:?}", table.pairs()),
                ));
            }
            return CaseOut { sigs, ref_merges: n1, refs_agree, out_len: ids.len(), matched_one_at_a_time: m1 };
        }
    }
    CaseOut { sigs, ref_merges: n1, refs_agree, out_len: 0, matched_one_at_a_time: false }
}

fn case_json(base: &[&str], table: &MergeTable, explicit: bool, text: &str) -> Json {
    json!({
        "alphabet": base,
        "merges": table.pairs().iter().map(|(a, b)| json!([a, b])).collect::<Vec<_>>(),
        "vocab": if explicit { "explicit" } else { "implicit" },
        "input": text,
    })
}


// ---------------------------------------------------------------------------
// Merge lists that name a pair twice. The rank of such a pair is its first or its last
// position in the list (the statement does not say; rten's map keeps the last one), so a
// result is accepted if it equals the reference under either ranking (and either textbook
// reading); anything else - for instance two different pairs ending up with the same
// rank - is a violation.

fn dup_matrices(table: &MergeTable) -> [Vec<Vec<Option<(usize, usize)>>>; 2] {
    let n = table.syms.len();
    let mut first = vec![vec![None; n]; n];
    for (rank, &(x, y, r)) in table.merges.iter().enumerate() {
        if first[x][y].is_none() {
            first[x][y] = Some((rank, r));
        }
    }
    [first, table.matrix()]
}

fn check_dup(table: &MergeTable, explicit: bool, subj: &Subject, input: &[usize], text: &str) -> (Option<(String, String)>, bool) {
    let ms = dup_matrices(table);
    let mut accept: Vec<Vec<usize>> = Vec::new();
    for m in &ms {
        accept.push(refmodel::bpe_one_at_a_time(m, input).0);
        accept.push(refmodel::bpe_all_occurrences(m, input).0);
    }
    let ambiguous = accept.iter().any(|a| *a != accept[0]);
    let vocab = if explicit { "explicit" } else { "implicit" };
    let r = vp_core::catch(|| subj.tok.encode(text, None).map(|e| e.token_ids().to_vec()));
    let sig = match r {
        Err(p) => Some((format!("Tokenizer::encode(Bpe) panicked [merge list that names a pair twice]"), p)),
        Ok(Err(e)) => Some((format!("Tokenizer::encode(Bpe) returned error [merge list that names a pair twice]"), format!("{e:?}"))),
        Ok(Ok(ids)) => {
            if accept.iter().any(|a| ids_match(table, explicit, subj, &ids, a)) {
                None
            } else {
                let strs: Vec<Option<String>> = ids.iter().map(|&i| subj.tok.model().get_token_str(i)).collect();
                let want: Vec<&str> = accept[0].iter().map(|&s| table.syms[s].as_str()).collect();
                Some((
                    format!("Tokenizer::encode(Bpe) token ids != reference BPE [merge list that names a pair twice; vocab {vocab}]"),
                    format!("input {text:?} merges {:?}: rten ids {ids:?} = tokens {strs:?}; reference tokens {want:?} (rank = first occurrence)", table.pairs()),
                ))
            }
        }
    };
    (sig, ambiguous)
}

fn dup_case_json(base: &[&str], table: &MergeTable, explicit: bool, text: &str) -> Json {
    let mut j = case_json(base, table, explicit, text);
    j["duplicate_entries"] = json!(true);
    j
}

/// Every table of `all_tables(base, 3)` with 1..=3 merges x every entry i x every later
/// position j at which a second copy of entry i is inserted.
fn duplicate_entry_tables(base: &[&str]) -> Vec<MergeTable> {
    let mut out = Vec::new();
    for t in refmodel::all_tables(base, 3) {
        let k = t.merges.len();
        for i in 0..k {
            for j in i + 1..=k {
                let mut merges = t.merges.clone();
                merges.insert(j, t.merges[i]);
                out.push(MergeTable { syms: t.syms.clone(), nbase: t.nbase, merges, forward_refs: false });
            }
        }
    }
    out
}

fn duplicate_entry_box(ctx: &Ctx) -> Json {
    let base = ["a", "b"];
    let nmax = 6;
    let tables = duplicate_entry_tables(&base);
    let res = vp_core::par::map(tables.len(), |ti| {
        let table = &tables[ti];
        let (mut cases, mut amb, mut rejected) = (0u64, 0u64, 0u64);
        let mut viols: Vec<(String, Json, String)> = Vec::new();
        for explicit in [false, true] {
            let Ok(subj) = build(table, explicit) else {
                rejected += 1;
                continue;
            };
            let mut firsts: Vec<Option<usize>> = vec![None];
            firsts.extend((0..base.len()).map(Some));
            for first in firsts {
                util::for_each_string(&base, first, nmax, |text, idx| {
                    cases += 1;
                    let (sig, ambiguous) = check_dup(table, explicit, &subj, idx, text);
                    if ambiguous {
                        amb += 1;
                    }
                    if let Some((sig, detail)) = sig {
                        if viols.len() < 4 {
                            viols.push((sig, dup_case_json(&base, table, explicit, text), detail));
                        }
                    }
                });
            }
        }
        (cases, amb, rejected, viols)
    });
    let (mut cases, mut amb, mut rejected) = (0u64, 0u64, 0u64);
    for (c, a, r, viols) in res {
        cases += c;
        amb += a;
        rejected += r;
        for (sig, case, detail) in viols {
            ctx.violation(sig, case, detail);
        }
    }
    if rejected > 0 {
        ctx.observe_n("Bpe::new rejects a merge list that names a pair twice (not judged)", rejected);
    }
    if cases == 0 {
        ctx.machinery("C28: duplicate-entry sub-box is vacuous");
    }
    json!({"alphabet": base, "merge_tables": tables.len(), "max_input_len": nmax, "cases": cases, "cases_where_first_and_last_occurrence_ranking_or_the_two_readings_differ(any accepted)": amb, "tables_rejected_by_Bpe::new": rejected})
}

struct Sub {
    base: Vec<&'static str>,
    kmax: usize,
    nmax: usize,
}

pub fn run(ctx: Ctx) -> ! {
    if let Some(p) = ctx.replay.clone() {
        replay(ctx, &p);
    }
    // Two complete sub-boxes per tier.
    let subs: Vec<Sub> = if ctx.tier.is_thorough() {
        vec![
            Sub { base: vec!["a", "b"], kmax: 5, nmax: 9 },
            Sub { base: vec!["a", "b", "c"], kmax: 4, nmax: 7 },
        ]
    } else {
        vec![
            Sub { base: vec!["a", "b"], kmax: 4, nmax: 8 },
            Sub { base: vec!["a", "b", "c"], kmax: 3, nmax: 6 },
        ]
    };
    let mut axes = Vec::new();
    let mut total_eval = 0u64;
    let mut all: Vec<Shard> = Vec::new();
    for sub in &subs {
        let mut tables = refmodel::all_tables(&sub.base, sub.kmax);
        let fwd = refmodel::forward_reference_tables(&tables);
        let n_forward = fwd.len();
        tables.extend(fwd);
        let nstrings = util::string_count(sub.base.len(), sub.nmax);
        axes.push(json!({
            "alphabet": sub.base, "max_merges": sub.kmax, "merge_tables": tables.len(), "of_which_with_forward_references(merge names a symbol produced by a later merge)": n_forward,
            "max_input_len": sub.nmax, "input_strings": nstrings, "vocab_modes": 2,
            "cases": tables.len() as u64 * nstrings * 2,
        }));
        total_eval += tables.len() as u64 * nstrings * 2;
        let base = &sub.base;
        let shards = vp_core::par::map(tables.len(), |ti| {
            let table = &tables[ti];
            let matrix = table.matrix();
            let mut sh = Shard::default();
            let (mut cases, mut nontrivial, mut disagree, mut multi) = (0u64, 0u64, 0u64, 0u64);
            for explicit in [false, true] {
                let subj = match build(table, explicit) {
                    Ok(s) => s,
                    Err(_) if table.forward_refs => {
                        sh.observe("Bpe::new rejects a merge table with forward references (not judged)");
                        continue;
                    }
                    Err(e) => {
                        sh.viol(
                            "Bpe::new rejects a well-formed merge table".to_string(),
                            || case_json(base, table, explicit, ""),
                            || e.clone(),
                        );
                        continue;
                    }
                };
                let mut firsts: Vec<Option<usize>> = vec![None];
                firsts.extend((0..base.len()).map(Some));
                for first in firsts {
                    util::for_each_string(base, first, sub.nmax, |text, idx| {
                        cases += 1;
                        let out = check(table, &matrix, explicit, &subj, idx, text);
                        if out.ref_merges > 0 {
                            nontrivial += 1;
                        }
                        if out.ref_merges > 1 {
                            multi += 1;
                        }
                        if !out.refs_agree {
                            disagree += 1;
                            if out.sigs.is_empty() {
                                sh.add(if out.matched_one_at_a_time { "reading_ambiguous_cases_where_rten_equals_one_at_a_time" } else { "reading_ambiguous_cases_where_rten_equals_all_occurrences_per_pass" }, 1);
                            }
                            if sh.ambiguous.len() < 1 {
                                let (r1, _) = refmodel::bpe_one_at_a_time(&matrix, idx);
                                let (r2, _) = refmodel::bpe_all_occurrences(&matrix, idx);
                                let names = |r: &[usize]| r.iter().map(|&s| table.syms[s].clone()).collect::<Vec<_>>();
                                sh.ambiguous.push(json!({"case": case_json(base, table, explicit, text), "one_at_a_time": names(&r1), "all_occurrences_per_pass": names(&r2), "rten_equals_one_at_a_time": out.matched_one_at_a_time}));
                            }
                        }
                        if !out.sigs.is_empty() {
                            let again = check(table, &matrix, explicit, &subj, idx, text);
                            util::must_reproduce(
                                &out.sigs.iter().map(|s| s.0.clone()).collect::<Vec<_>>(),
                                &again.sigs.iter().map(|s| s.0.clone()).collect::<Vec<_>>(),
                                text,
                            );
                        }
                        for (sig, detail) in out.sigs {
                            sh.viol(sig, || case_json(base, table, explicit, text), || detail);
                        }
                        if out.ref_merges >= 2 && idx.len() >= 4 {
                            sh.sample(1, || {
                                let (r, n) = refmodel::bpe_one_at_a_time(&matrix, idx);
                                json!({"case": case_json(base, table, explicit, text), "reference_tokens": r.iter().map(|&s| table.syms[s].clone()).collect::<Vec<_>>(), "merges_applied": n})
                            });
                        }
                        if cases % 64 == 0 {
                            sh.class(format!("merges_applied={} tokens_out={}", out.ref_merges, out.out_len));
                        }
                    });
                }
            }
            sh.add("cases", cases);
            sh.add("cases_with_at_least_one_merge", nontrivial);
            sh.add("cases_with_two_or_more_merges", multi);
            sh.add("cases_where_textbook_readings_differ", disagree);
            if table.has_duplicate_result() {
                sh.add("tables_with_duplicate_result_string", 1);
            }
            sh.add("tables", 1);
            sh
        });
        all.extend(shards);
    }
    let dup_axis = duplicate_entry_box(&ctx);
    let m = util::merge(&ctx, all, 10);
    if m.get("cases") != total_eval {
        ctx.machinery(&format!("C28: enumerated {} cases, box has {}", m.get("cases"), total_eval));
    }
    if m.get("cases_with_two_or_more_merges") == 0 {
        ctx.machinery("C28: vacuous - no case applied two merges");
    }
    if m.get("cases_where_textbook_readings_differ") > 0 {
        ctx.observe_n(
            "cases where 'merge leftmost lowest-ranked pair one at a time' and 'merge all occurrences of the lowest-ranked pair per pass' differ (either accepted)",
            m.get("cases_where_textbook_readings_differ"),
        );
    }
    println!(
        "C28 summary: {} cases ({} tables), {} with >=1 merge, {} with >=2 merges, {} reading-ambiguous, {} violating",
        m.get("cases"), m.get("tables"), m.get("cases_with_at_least_one_merge"),
        m.get("cases_with_two_or_more_merges"), m.get("cases_where_textbook_readings_differ"), ctx.violation_count()
    );
    let cov = json!({
        "evaluations": m.get("cases"),
        "distinct_nontrivial": m.get("cases_with_at_least_one_merge"),
        "rule": "every (merge table, vocabulary mode, input string) of the stated sub-boxes exactly once (cases are distinct by construction); non-trivial = the reference applied at least one merge to the input",
        "exhaustive": true,
        "sub_boxes": axes,
        "merge_lists_naming_a_pair_twice": dup_axis,
        "counters": m.counters_json(),
        "distinct_outcome_classes": m.classes.len(),
        "outcome_classes_sampled": m.classes.iter().take(12).collect::<Vec<_>>(),
        "samples": m.samples,
        "reading_ambiguous_examples": m.ambiguous,
        "subject": "rten_text::Tokenizer::encode over rten_text::models::Bpe (no normalizer, no pre-tokenizer)",
        "oracle": "string-level textbook BPE (lowest rank first, leftmost among equals), token strings and ids compared; explicit vocabulary: exact ids; implicit vocabulary: token string + id = 256 + index of a merge producing that string",
    });
    ctx.finish(
        "exploration",
        cov,
        vec![
            "base symbols are ASCII letters (one byte = one char = one initial token); byte-level splitting of multi-byte characters is C27's subject".into(),
            "ignore_merges=false, no end_of_word_suffix".into(),
            "both textbook readings of the statement are accepted where they differ (counted in evidence)".into(),
        ],
    )
}

fn replay(ctx: Ctx, path: &std::path::Path) -> ! {
    let case = vp_core::read_replay_case(path);
    let base_owned: Vec<String> = case["alphabet"].as_array().map(|a| a.iter().filter_map(|x| x.as_str().map(String::from)).collect()).unwrap_or_default();
    let base: Vec<&str> = base_owned.iter().map(|s| s.as_str()).collect();
    let pairs: Vec<(String, String)> = case["merges"]
        .as_array()
        .map(|a| a.iter().map(|p| (p[0].as_str().unwrap_or("").to_string(), p[1].as_str().unwrap_or("").to_string())).collect())
        .unwrap_or_default();
    let explicit = case["vocab"].as_str() == Some("explicit");
    let text = case["input"].as_str().unwrap_or("").to_string();
    if case["duplicate_entries"].as_bool() == Some(true) {
        // rebuild: first occurrences through from_pairs, then re-insert the duplicates
        let mut uniq: Vec<(String, String)> = Vec::new();
        for p in &pairs {
            if !uniq.contains(p) {
                uniq.push(p.clone());
            }
        }
        let Some(t0) = MergeTable::from_pairs(&base, &uniq) else { ctx.machinery("C28 replay: malformed merge table in artefact") };
        let merges: Vec<(usize, usize, usize)> = pairs.iter().map(|p| t0.merges[uniq.iter().position(|u| u == p).unwrap()]).collect();
        let table = MergeTable { syms: t0.syms.clone(), nbase: t0.nbase, merges, forward_refs: false };
        let idx: Option<Vec<usize>> = text.chars().map(|c| base.iter().position(|b| b.chars().eq(std::iter::once(c)))).collect();
        let Some(idx) = idx else { ctx.machinery("C28 replay: input uses symbols outside the alphabet") };
        if let Ok(subj) = build(&table, explicit) {
            if let (Some((sig, detail)), _) = check_dup(&table, explicit, &subj, &idx, &text) {
                ctx.violation(sig, case.clone(), detail);
            }
        }
        ctx.finish("exploration", json!({"evaluations": 1, "distinct_nontrivial": 0, "rule": "replay of one case", "samples": [case], "exhaustive": false}), vec![]);
    }
    let Some(table) = MergeTable::from_pairs(&base, &pairs) else {
        ctx.machinery("C28 replay: malformed merge table in artefact");
    };
    let idx: Option<Vec<usize>> = text.chars().map(|c| base.iter().position(|b| b.chars().eq(std::iter::once(c)))).collect();
    let Some(idx) = idx else { ctx.machinery("C28 replay: input uses symbols outside the alphabet") };
    let matrix = table.matrix();
    match build(&table, explicit) {
        Err(e) => ctx.violation("Bpe::new rejects a well-formed merge table", case.clone(), e),
        Ok(subj) => {
            let out = check(&table, &matrix, explicit, &subj, &idx, &text);
            println!("C28 replay: {} -> {} signature(s)", case, out.sigs.len());
            for (sig, detail) in out.sigs {
                ctx.violation(sig, case.clone(), detail);
            }
        }
    }
    ctx.finish(
        "exploration",
        json!({"evaluations": 1, "distinct_nontrivial": 0, "rule": "replay of one case", "samples": [case], "exhaustive": false}),
        vec![],
    )
}
